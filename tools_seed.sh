#!/bin/bash
# usage: tools_seed.sh [--confirm] <seed id under /verif/seeded> <property ids to check...>
#  --confirm : re-confirm the seeded change in a scratch worktree under /tmp (builds, demo fails with it, passes without), then remove the worktree
#  then: apply the patch to /repo, run the given gosym checks (quick tier), and always revert /repo
export GOFLAGS=-mod=mod GOPROXY=off GOSUMDB=off GOTOOLCHAIN=local
confirm=0; if [ "$1" = "--confirm" ]; then confirm=1; shift; fi
id=$1; shift
RACE=""; case $id in C19*) RACE="-race";; esac
src=/verif/seeded/$id
if [ $confirm = 1 ]; then
  wt=/tmp/seedconfirm_$id
  git -C /repo worktree add -q --detach $wt HEAD || exit 2
  demo=$(ls $src/*_test.go | head -1)
  intended=$(grep -m1 -oE "(pkg|cni)/[A-Za-z0-9_/.-]+_test\.go" $demo | head -1)
  pkgdir=$(dirname $intended)
  testname=$(grep -oE "^func (Test[A-Za-z0-9_]+)" $demo | head -1 | awk '{print $2}')
  cd $wt; cp $demo $wt/$intended
  echo "-- demo without the change:"; go test $RACE -vet=off -count=1 -run "^${testname}\$" ./$pkgdir 2>&1 | grep -E "^(ok|FAIL|---|panic)" | head -3
  git apply $src/patch.diff && { echo "-- build:"; go build ./... 2>&1 | tail -2
  echo "-- demo with the change:"; go test $RACE -vet=off -count=1 -run "^${testname}\$" ./$pkgdir 2>&1 | grep -E "^(ok|FAIL|---|panic)" | head -3; }
  cd /; git -C /repo worktree remove --force $wt
fi
cd /repo || exit 2
if ! git apply --check $src/patch.diff 2>/dev/null; then echo "PATCH DOES NOT APPLY to /repo HEAD"; exit 3; fi
git apply $src/patch.diff
for p in "$@"; do
  /verif/bin/gosym check -p $p -no-evidence 2>&1 | grep -E "^(VIOLATION|KNOWN|gosym:|INCONCLUSIVE)" | cut -c1-300 | head -6
done
git checkout -q -- . ; git status --short | head -3
