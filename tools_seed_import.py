#!/usr/bin/env python3
"""tools_seed_import.py <id> <property> <needs to manifest> <change summary>: copies /tmp/seedwork/out_<id> into /verif/seeded/<id>"""
import sys,os,shutil,glob,json
sid,prop,needs,summary=sys.argv[1:5]
d=f'/verif/seeded/{sid}'; os.makedirs(d,exist_ok=True); src=f'/tmp/seedwork/out_{sid}'
shutil.copy(src+'/patch.diff',d+'/patch.diff')
for f in glob.glob(src+'/*_test.go'): shutil.copy(f,d)
if os.path.exists(src+'/notes.md'): shutil.copy(src+'/notes.md',d+'/notes.md')
json.dump(dict(id=sid,breaks_property=prop,needs_to_manifest=needs,change=summary,
  confirmed_by_me="tools_seed.sh --confirm: demo passes on the unchanged tree, fails with the patch; go build ok",
  source='independent sub-agent given only the property text and a scratch worktree'),open(d+'/meta.json','w'),indent=1)
print('imported',sid)
