// gosym: solver-based checking of tkestack/galaxy through symbolic execution of go/ssa.
//
//	gosym check -p C20 -tier quick|thorough
//	gosym replay <replay.json>
//	gosym list
package main

import (
	"bufio"
	"encoding/json"
	"flag"
	"fmt"
	"os"
	"os/exec"
	"path/filepath"
	"regexp"
	"runtime/pprof"
	"sort"
	"strconv"
	"strings"
	"time"

	"gosym/ssaexec"
)

var (
	verifDir = "/verif"
	repoDir  = "/repo"
)

func main() {
	if v := os.Getenv("VERIF_DIR"); v != "" {
		verifDir = v
	}
	if v := os.Getenv("VERIF_REPO"); v != "" {
		repoDir = v
	}
	if len(os.Args) < 2 {
		fmt.Fprintln(os.Stderr, "usage: gosym check|replay|list ...")
		os.Exit(2)
	}
	switch os.Args[1] {
	case "check":
		os.Exit(cmdCheck(os.Args[2:]))
	case "replay":
		os.Exit(cmdReplay(os.Args[2:]))
	case "list":
		os.Exit(cmdList())
	default:
		fmt.Fprintln(os.Stderr, "unknown command", os.Args[1])
		os.Exit(2)
	}
}

// ---------------------------------------------------------------- harness files

type harnessPkg struct {
	rel     string // package dir relative to the repo, e.g. pkg/utils/nets
	name    string // Go package name
	files   []string
	harness []string // all Verif* function names in the package's harness files
}

var harnessFuncRe = regexp.MustCompile(`(?m)^func (Verif(C[0-9]+)_(q|t)_[A-Za-z0-9_]+)\(\)`)
var pkgClauseRe = regexp.MustCompile(`(?m)^package ([A-Za-z0-9_]+)`)

func scanHarnessPkgs() ([]*harnessPkg, error) {
	root := filepath.Join(verifDir, "harness")
	byRel := map[string]*harnessPkg{}
	err := filepath.Walk(root, func(path string, info os.FileInfo, err error) error {
		if err != nil || info.IsDir() || !strings.HasPrefix(info.Name(), "zz_verif_") || !strings.HasSuffix(info.Name(), ".go") {
			return err
		}
		rel, _ := filepath.Rel(root, filepath.Dir(path))
		hp := byRel[rel]
		if hp == nil {
			hp = &harnessPkg{rel: rel}
			byRel[rel] = hp
		}
		src, err := os.ReadFile(path)
		if err != nil {
			return err
		}
		if m := pkgClauseRe.FindSubmatch(src); m != nil {
			hp.name = string(m[1])
		}
		hp.files = append(hp.files, path)
		for _, m := range harnessFuncRe.FindAllSubmatch(src, -1) {
			hp.harness = append(hp.harness, string(m[1]))
		}
		return nil
	})
	var out []*harnessPkg
	for _, hp := range byRel {
		sort.Strings(hp.files)
		sort.Strings(hp.harness)
		out = append(out, hp)
	}
	sort.Slice(out, func(i, j int) bool { return out[i].rel < out[j].rel })
	return out, err
}

func (hp *harnessPkg) hasProp(prop string) bool {
	for _, h := range hp.harness {
		if strings.HasPrefix(h, "Verif"+prop+"_") {
			return true
		}
	}
	return false
}

// overlays builds the engine overlay (content) and the go-test overlay (files on disk under work).
func overlays(pkgs []*harnessPkg, work string) (map[string][]byte, string, error) {
	eng := map[string][]byte{}
	repl := map[string]string{}
	for _, hp := range pkgs {
		dir := filepath.Join(repoDir, hp.rel)
		for _, f := range hp.files {
			src, err := os.ReadFile(f)
			if err != nil {
				return nil, "", err
			}
			eng[filepath.Join(dir, filepath.Base(f))] = src
			repl[filepath.Join(dir, filepath.Base(f))] = f
		}
		wdir := filepath.Join(work, strings.ReplaceAll(hp.rel, "/", "_"))
		if err := os.MkdirAll(wdir, 0o755); err != nil {
			return nil, "", err
		}
		pre := preludeFor(hp.name)
		pf := filepath.Join(wdir, "zz_verif_prelude.go")
		if err := os.WriteFile(pf, []byte(pre), 0o644); err != nil {
			return nil, "", err
		}
		eng[filepath.Join(dir, "zz_verif_prelude.go")] = []byte(pre)
		repl[filepath.Join(dir, "zz_verif_prelude.go")] = pf
		tf := filepath.Join(wdir, "zz_verif_replay_test.go")
		if err := os.WriteFile(tf, []byte(replayTestFor(hp.name, hp.harness)), 0o644); err != nil {
			return nil, "", err
		}
		repl[filepath.Join(dir, "zz_verif_replay_test.go")] = tf
	}
	ov := filepath.Join(work, "overlay.json")
	data, _ := json.Marshal(map[string]interface{}{"Replace": repl})
	if err := os.WriteFile(ov, data, 0o644); err != nil {
		return nil, "", err
	}
	return eng, ov, nil
}

func goEnv() []string {
	env := os.Environ()
	return append(env, "GOFLAGS=-mod=mod", "GOPROXY=off", "GOSUMDB=off", "GOTOOLCHAIN=local")
}

// ---------------------------------------------------------------- known findings

type knownFinding struct {
	prop, id, text string
}

func loadKnown() []knownFinding {
	f, err := os.Open(filepath.Join(verifDir, "known_findings.txt"))
	if err != nil {
		return nil
	}
	defer f.Close()
	var out []knownFinding
	sc := bufio.NewScanner(f)
	re := regexp.MustCompile(`^finding:\s+property=(C[0-9]+)\s+id=(\S+)\s*(.*)$`)
	for sc.Scan() {
		if m := re.FindStringSubmatch(strings.TrimSpace(sc.Text())); m != nil {
			out = append(out, knownFinding{m[1], m[2], m[3]})
		}
	}
	return out
}

// ---------------------------------------------------------------- replay

type replayFile struct {
	Property string               `json:"property"`
	Harness  string               `json:"harness"`
	Package  string               `json:"package"`
	AssertID string               `json:"assert_id"`
	Kind     string               `json:"kind"`
	Msg      string               `json:"msg"`
	Known    string               `json:"known,omitempty"`
	Tape     []ssaexec.TapeEntry  `json:"tape"`
	Decisions string              `json:"decisions,omitempty"`
	Where    string               `json:"where,omitempty"`
	PathCond string               `json:"path_condition,omitempty"`
	Native   string               `json:"native_outcome,omitempty"`
	Tier     int                  `json:"tier"` // 0 quick, 1 thorough: verifTier() of the run that produced the tape
}

// runReplay executes the tape natively; returns the VERIF-REPLAY line (or an error description).
func runReplay(rf *replayFile, tapePath, overlayPath string, tierN int) (string, string) {
	watchdog := 10
	timeout := "180s"
	args := []string{"test", "-v", "-vet=off", "-count=1", "-timeout", timeout, "-overlay", overlayPath,
		"-run", "^TestVerifReplay$", "./" + rf.Package}
	env := append(goEnv(), "VERIF_TAPE="+tapePath, "VERIF_WATCHDOG="+strconv.Itoa(watchdog), "VERIF_TIER_N="+strconv.Itoa(tierN))
	if rf.Kind == "race" {
		// both closures of verifRace run concurrently, repeatedly, under the Go race detector
		args = append([]string{"test", "-race"}, args[1:]...)
		args[6] = "600s"
		env = append(env, "VERIF_RACE_ROUNDS=40", "VERIF_WATCHDOG=300", "GORACE=halt_on_error=0")
	}
	if rf.Kind == "deadlock" && strings.HasSuffix(rf.AssertID, "/recursive-rlock") {
		// both closures of verifRace are repeated concurrently for a few seconds: the recursive read lock deadlocks as
		// soon as the writer queues up between the two RLock calls; the watchdog then reports a timeout
		env = append(env, "VERIF_STRESS=4", "VERIF_WATCHDOG=20")
	}
	cmd := exec.Command("go", args...)
	cmd.Dir = repoDir
	cmd.Env = env
	out, err := cmd.CombinedOutput()
	if rf.Kind == "race" {
		pairs := raceReports(string(out))
		sort.Strings(pairs)
		return "outcome=race-run pairs=" + strings.Join(pairs, ";"), string(out)
	}
	line := ""
	for _, l := range strings.Split(string(out), "\n") {
		if strings.HasPrefix(l, "VERIF-REPLAY ") {
			line = strings.TrimPrefix(l, "VERIF-REPLAY ")
		}
	}
	if line == "" {
		tail := string(out)
		if len(tail) > 1500 {
			tail = tail[len(tail)-1500:]
		}
		// a crash of the test binary (fatal error, deadlock detector, test timeout) has no VERIF-REPLAY line
		if strings.Contains(tail, "fatal error:") || strings.Contains(tail, "panic:") {
			return "outcome=crash", tail
		}
		return "outcome=error", fmt.Sprintf("%v\n%s", err, tail)
	}
	return line, string(out)
}

// raceReports extracts, from the output of a -race run, the pair of source positions of every reported data race:
// for each of the two stacks the innermost frame that lies in the repository (not in the Go runtime, the standard
// library or a harness file).
func raceReports(out string) []string {
	var pairs []string
	seen := map[string]bool{}
	for _, rep := range strings.Split(out, "WARNING: DATA RACE")[1:] {
		if i := strings.Index(rep, "=================="); i >= 0 {
			rep = rep[:i]
		}
		var tops []string
		for _, stk := range strings.Split(rep, "\n\n") {
			lines := strings.Split(strings.TrimSpace(stk), "\n")
			if len(lines) == 0 || !(strings.Contains(lines[0], " by goroutine ") || strings.Contains(lines[0], " by main goroutine")) {
				continue
			}
			if strings.HasPrefix(lines[0], "Goroutine ") {
				continue
			}
			top := ""
			for _, l := range lines[1:] {
				l = strings.TrimSpace(l)
				if !strings.HasPrefix(l, "/") {
					continue
				}
				f := strings.Fields(l)[0]
				if !strings.HasPrefix(f, repoDir+"/") {
					continue // runtime, standard library, dependencies: look at the caller
				}
				if strings.Contains(filepath.Base(f), "zz_verif") || strings.Contains(filepath.Base(f), "zz_gosym") || strings.Contains(f, "/testing/") {
					break // the access is made by harness code: not a report about the code under analysis
				}
				top = strings.TrimPrefix(f, repoDir+"/")
				break
			}
			tops = append(tops, top)
		}
		if len(tops) >= 2 && tops[0] != "" && tops[1] != "" {
			p := []string{tops[0], tops[1]}
			sort.Strings(p)
			k := strings.Join(p, "|")
			if !seen[k] {
				seen[k] = true
				pairs = append(pairs, k)
			}
		}
	}
	return pairs
}

func confirms(v *replayFile, outcome string) bool {
	switch v.Kind {
	case "race":
		// assert id = "<prop>/race <posA>|<posB>"
		i := strings.Index(v.AssertID, "/race ")
		if i < 0 || !strings.HasPrefix(outcome, "outcome=race-run pairs=") {
			return false
		}
		want := v.AssertID[i+len("/race "):]
		for _, p := range strings.Split(strings.TrimPrefix(outcome, "outcome=race-run pairs="), ";") {
			if p == want {
				return true
			}
		}
		return false
	case "assert":
		return strings.HasPrefix(outcome, "outcome=assert id="+v.AssertID+" ")
	case "panic":
		return strings.HasPrefix(outcome, "outcome=panic") || strings.HasPrefix(outcome, "outcome=crash")
	case "unwind":
		return strings.HasPrefix(outcome, "outcome=timeout")
	case "deadlock":
		return strings.HasPrefix(outcome, "outcome=timeout") || strings.HasPrefix(outcome, "outcome=crash")
	case "lock-held":
		return strings.HasPrefix(outcome, "outcome=timeout") || strings.HasPrefix(outcome, "outcome=crash")
	}
	return false
}

func cmdReplay(args []string) int {
	if len(args) != 1 {
		fmt.Fprintln(os.Stderr, "usage: gosym replay <file>")
		return 2
	}
	data, err := os.ReadFile(args[0])
	if err != nil {
		fmt.Fprintln(os.Stderr, err)
		return 2
	}
	var rf replayFile
	if err := json.Unmarshal(data, &rf); err != nil {
		fmt.Fprintln(os.Stderr, err)
		return 2
	}
	pkgs, err := scanHarnessPkgs()
	if err != nil {
		fmt.Fprintln(os.Stderr, err)
		return 2
	}
	os.MkdirAll(filepath.Join(verifDir, ".work"), 0o755)
	work, _ := os.MkdirTemp(filepath.Join(verifDir, ".work"), "replay-")
	defer os.RemoveAll(work)
	_, ov, err := overlays(pkgs, work)
	if err != nil {
		fmt.Fprintln(os.Stderr, err)
		return 2
	}
	abs, _ := filepath.Abs(args[0])
	line, full := runReplay(&rf, abs, ov, rf.Tier)
	fmt.Println("native:", line)
	if os.Getenv("VERIF_VERBOSE") != "" {
		fmt.Println(full)
	}
	if confirms(&rf, line) {
		fmt.Printf("VIOLATION property=%s replay=%s\n", rf.Property, abs)
		return 1
	}
	fmt.Println("not reproduced")
	return 0
}

func cmdList() int {
	pkgs, err := scanHarnessPkgs()
	if err != nil {
		fmt.Fprintln(os.Stderr, err)
		return 2
	}
	for _, hp := range pkgs {
		for _, h := range hp.harness {
			fmt.Printf("%s\t%s\n", hp.rel, h)
		}
	}
	return 0
}

// ---------------------------------------------------------------- check

type harnessEvidence struct {
	Name        string         `json:"harness"`
	Package     string         `json:"package"`
	Paths       int            `json:"paths"`
	Status      map[string]int `json:"path_status"`
	Asserts     map[string]int `json:"assertions_checked"`
	Reach       map[string]int `json:"reach_marks"`
	Branches    int            `json:"symbolic_branch_decisions"`
	Forks       int            `json:"forks"`
	Queries     int            `json:"solver_queries"`
	Unknowns    int            `json:"solver_unknowns"`
	SolverSec   float64        `json:"solver_seconds"`
	MaxQuerySec float64        `json:"slowest_query_seconds"`
	Fallbacks   int            `json:"queries_retried_with_another_solver"`
	Steps       int64          `json:"ssa_instructions_executed"`
	MaxSteps    int64          `json:"max_instructions_on_one_path"`
	Wall        float64        `json:"wall_s"`
	Truncated   bool           `json:"truncated"`
	SamplePCs   []string       `json:"sample_path_conditions,omitempty"`
	Inconclusive map[string]int `json:"inconclusive,omitempty"`
	Candidates  int            `json:"counterexample_candidates"`
	RaceAccesses int           `json:"shared_accesses_recorded_with_locksets,omitempty"`
	RaceShared   int           `json:"shared_memory_cells_tracked,omitempty"`
}

func cmdCheck(args []string) int {
	fs := flag.NewFlagSet("check", flag.ExitOnError)
	prop := fs.String("p", "", "property id, e.g. C20")
	tier := fs.String("tier", "quick", "quick|thorough")
	only := fs.String("only", "", "run only harnesses whose name contains this")
	workers := fs.Int("workers", 16, "parallel workers")
	solver := fs.String("solver", "z3", "z3|z3-new|cvc5")
	noEvidence := fs.Bool("no-evidence", false, "do not write the evidence file")
	verbose := fs.Bool("v", false, "verbose")
	maxSec := fs.Float64("max-seconds", 0, "per-harness wall clock limit (0 = tier default)")
	cpuprof := fs.String("cpuprofile", "", "write a CPU profile of the exploration")
	timeoutMs := fs.Int("timeout-ms", 0, "solver timeout per query in ms (0 = tier default: 180 s quick, 300 s thorough)")
	fs.Parse(args)
	if v := os.Getenv("VERIF_TIER"); v != "" && *tier == "" {
		*tier = v
	}
	if *prop == "" {
		fmt.Fprintln(os.Stderr, "check: -p required")
		return 2
	}
	seed, _ := strconv.Atoi(os.Getenv("VERIF_SEED"))
	t0 := time.Now()
	tierN := 0
	if *tier == "thorough" {
		tierN = 1
	}
	allPkgs, err := scanHarnessPkgs()
	if err != nil {
		fmt.Fprintln(os.Stderr, err)
		return 2
	}
	var sel []*harnessPkg
	for _, hp := range allPkgs {
		if hp.hasProp(*prop) {
			sel = append(sel, hp)
		}
	}
	if len(sel) == 0 {
		fmt.Printf("INCONCLUSIVE property=%s no harness found\n", *prop)
		return 2
	}
	os.MkdirAll(filepath.Join(verifDir, ".work"), 0o755)
	work, err := os.MkdirTemp(filepath.Join(verifDir, ".work"), "check-"+*prop+"-")
	if err != nil {
		fmt.Fprintln(os.Stderr, err)
		return 2
	}
	defer os.RemoveAll(work)
	// every harness package goes into the overlay (harness packages may use each other's exported helpers);
	// only the packages holding harnesses of this property are loaded as roots
	// A harness file that no longer compiles against the current tree (an unexported function it calls changed its
	// signature, say) must not take the other harnesses of its package down: such files are dropped and the load is
	// repeated; what was dropped for this property is reported as inconclusive below.
	dropped := map[string]string{} // harness file -> first compile error
	var engOverlay map[string][]byte
	var goOverlay string
	var eng *ssaexec.Engine
	var patterns []string
	pkgOf := map[string]string{}
	harnessErrRe := regexp.MustCompile(`(?m)^(\S*/(zz_verif_[A-Za-z0-9_]+\.go)):\d+:\d+: (.*)$`)
	for attempt := 0; ; attempt++ {
		engOverlay, goOverlay, err = overlays(allPkgs, work)
		if err != nil {
			fmt.Fprintln(os.Stderr, err)
			return 2
		}
		patterns, pkgOf = nil, map[string]string{}
		for _, hp := range sel {
			if len(hp.files) == 0 {
				continue
			}
			patterns = append(patterns, "./"+hp.rel)
			for _, h := range hp.harness {
				pkgOf[h] = hp.rel
			}
		}
		eng, err = ssaexec.Load(ssaexec.Config{RepoDir: repoDir, Overlay: engOverlay, Patterns: patterns})
		if err == nil {
			break
		}
		bad := map[string]string{}
		for _, m := range harnessErrRe.FindAllStringSubmatch(err.Error(), -1) {
			if m[2] != "zz_verif_prelude.go" && bad[m[2]+"|"+filepath.Dir(m[1])] == "" {
				bad[m[2]+"|"+filepath.Dir(m[1])] = m[3]
			}
		}
		if len(bad) == 0 || attempt >= 6 {
			fmt.Printf("INCONCLUSIVE property=%s cannot load /repo with harness overlay: %v\n", *prop, err)
			return 2
		}
		for _, hp := range allPkgs {
			var keep []string
			for _, f := range hp.files {
				if why, isBad := bad[filepath.Base(f)+"|"+filepath.Join(repoDir, hp.rel)]; isBad {
					dropped[f] = why
					continue
				}
				keep = append(keep, f)
			}
			if len(keep) != len(hp.files) {
				hp.files = keep
				hp.harness = nil
				for _, f := range keep {
					src, _ := os.ReadFile(f)
					for _, m := range harnessFuncRe.FindAllSubmatch(src, -1) {
						hp.harness = append(hp.harness, string(m[1]))
					}
				}
				sort.Strings(hp.harness)
			}
		}
	}
	interceptRe := regexp.MustCompile(`(?m)^//\s*INTERCEPT:\s*(\S.*?)\s*=>\s*(\S+)\s*$`)
	for _, hp := range allPkgs {
		for _, f := range hp.files {
			src, _ := os.ReadFile(f)
			for _, m := range interceptRe.FindAllStringSubmatch(string(src), -1) {
				eng.Intercepts[m[1]] = m[2]
			}
		}
	}
	eng.Tier = tierN
	eng.Workers = *workers
	eng.Solver = *solver
	eng.Verbose = *verbose
	known := loadKnown()
	for _, k := range known {
		if k.prop == *prop {
			eng.KnownIDs[k.id] = true
		}
	}
	if tierN == 1 {
		eng.TimeoutMs = 300000
	}
	if *timeoutMs > 0 {
		eng.TimeoutMs = *timeoutMs
	}

	if *cpuprof != "" {
		f, _ := os.Create(*cpuprof)
		pprof.StartCPUProfile(f)
		defer pprof.StopCPUProfile()
	}
	solversUsed := map[string]bool{}
	staticIDs, reachedIDs := map[string][]string{}, map[string]int{}
	var hev []harnessEvidence
	var cands []ssaexec.Violation
	inconclusive := []string{}
	totalPaths, totalBranches, totalQueries := 0, 0, 0
	solverSec := 0.0
	var samples []interface{}
	completedPaths := 0
	for _, h := range eng.Harnesses {
		if h.Prop != *prop {
			continue
		}
		if h.Tier == "t" && tierN == 0 {
			continue
		}
		if *only != "" && !strings.Contains(h.Name, *only) {
			continue
		}
		opt := ssaexec.Options{}
		if tierN == 0 {
			opt.MaxSeconds = 600
		} else {
			opt.MaxSeconds = 3600
		}
		if *maxSec > 0 {
			opt.MaxSeconds = *maxSec
		}
		eng.Solver = *solver
		if sv := directiveOf(h.File, h.Name, "SOLVER"); sv != "" {
			eng.Solver = sv
		}
		solversUsed[eng.Solver] = true
		res := eng.Explore(h, opt)
		he := harnessEvidence{Name: h.Name, Package: pkgOf[h.Name], Paths: res.Paths, Status: res.Status, Asserts: res.Asserts,
			Reach: res.Reach, Branches: res.Stats.Branches, Forks: res.Stats.Forks, Queries: res.SolverQueries,
			Unknowns: res.Stats.Unknowns, SolverSec: round3(res.SolverSeconds), MaxQuerySec: round3(res.MaxQuerySeconds), Fallbacks: res.Stats.Fallbacks, Steps: res.Stats.Steps, MaxSteps: res.MaxPathSteps,
			Wall: round3(res.WallSeconds), Truncated: res.Truncated, SamplePCs: res.SamplePCs, Inconclusive: res.Inconclusive,
			Candidates: len(res.Violations), RaceAccesses: res.Stats.RaceAccesses, RaceShared: res.Stats.RaceShared}
		hev = append(hev, he)
		totalPaths += res.Paths
		completedPaths += res.Status["completed"] + res.Status["done"]
		totalBranches += res.Stats.Branches
		totalQueries += res.SolverQueries
		solverSec += res.SolverSeconds
		cands = append(cands, res.Violations...)
		for s, n := range res.Inconclusive {
			inconclusive = append(inconclusive, fmt.Sprintf("%s (x%d)", s, n))
		}
		for _, se := range res.SolverErrors {
			inconclusive = append(inconclusive, h.Name+": solver: "+se)
		}
		if res.Truncated {
			inconclusive = append(inconclusive, h.Name+": exploration truncated by the time/path limit (reduce the bound)")
		}
		if res.Stats.Unknowns > 0 {
			inconclusive = append(inconclusive, fmt.Sprintf("%s: %d solver queries answered unknown/timeout", h.Name, res.Stats.Unknowns))
		}
		// vacuity
		if res.Status["completed"]+res.Status["done"] == 0 {
			inconclusive = append(inconclusive, h.Name+": vacuous: no path reached the end of the harness")
		}
		for _, id := range h.AssertIDs {
			if strings.HasSuffix(id, "?") || !strings.HasPrefix(id, *prop+"/") {
				continue // optional assertion, or an assertion of a shared scenario that belongs to another property
			}
			staticIDs[id] = append(staticIDs[id], h.Name)
			reachedIDs[id] += res.Asserts[id]
		}
		for _, pc := range res.SamplePCs {
			if len(samples) < 8 {
				samples = append(samples, map[string]string{"harness": h.Name, "path_condition": pc})
			}
		}
		if *verbose {
			fmt.Fprintf(os.Stderr, "[%s] paths=%d status=%v asserts=%v queries=%d solver=%.1fs slowest=%.1fs fallbacks=%d wall=%.1fs cands=%d\n", h.Name, res.Paths,
				res.Status, res.Asserts, res.SolverQueries, res.SolverSeconds, res.MaxQuerySeconds, res.Stats.Fallbacks, res.WallSeconds, len(res.Violations))
			for s, n := range res.Inconclusive {
				fmt.Fprintf(os.Stderr, "   inconclusive x%d: %s\n", n, s)
			}
		}
	}
	if len(hev) == 0 {
		for f, why := range dropped {
			fmt.Printf("INCONCLUSIVE property=%s harness file %s does not compile against the current tree and was left out: %s\n", *prop, strings.TrimPrefix(f, verifDir+"/"), why)
		}
		fmt.Printf("INCONCLUSIVE property=%s no harness selected for tier %s\n", *prop, *tier)
		return 2
	}
	for f, why := range dropped {
		src, _ := os.ReadFile(f)
		if strings.Contains(string(src), "func Verif"+*prop+"_") || strings.Contains(filepath.Base(f), "world") || strings.Contains(filepath.Base(f), "export") {
			inconclusive = append(inconclusive, fmt.Sprintf("harness file %s does not compile against the current tree and was left out: %s", strings.TrimPrefix(f, verifDir+"/"), why))
		}
	}
	// vacuity: every assertion present in the harness code must have been reached on a feasible path of some harness
	for id, hs := range staticIDs {
		if reachedIDs[id] == 0 && *only == "" {
			inconclusive = append(inconclusive, "vacuous: assertion "+id+" (in "+strings.Join(hs, ",")+") never reached on any feasible path")
		}
	}

	// ---- replay candidates natively
	replayDir := filepath.Join(verifDir, "evidence", "replays")
	os.MkdirAll(replayDir, 0o755)
	// replay files carry the process id, so concurrent runs for one property (quick and thorough, a seed run) never
	// touch each other's files; files of earlier runs are removed once they are 30 minutes old
	old, _ := filepath.Glob(filepath.Join(replayDir, *prop+"-*.json"))
	for _, f := range old {
		if st, err := os.Stat(f); err == nil && time.Since(st.ModTime()) > 30*time.Minute {
			os.Remove(f)
		}
	}
	runTag := fmt.Sprintf("%s-%d", *prop, os.Getpid())
	violations, knownHits := 0, map[string]string{}
	replayed := 0
	seenKey := map[string]int{}
	confirmedKey := map[string]bool{}
	raceRuns := map[string][2]string{}
	var unconfirmedRaces []string
	var vioLines []string
	for _, c := range cands {
		key := c.Harness + "|" + c.AssertID + "|" + c.Known + "|" + c.Kind
		seenKey[key]++
		limit := 2
		if strings.HasSuffix(c.AssertID, "/recursive-rlock") {
			limit = 8 // the stress confirmation needs a writer that takes the write lock on every call: try more tapes
		}
		if seenKey[key] > limit {
			continue
		}
		if c.Known != "" {
			if _, done := knownHits[c.Known]; done {
				continue
			}
		}
		if confirmedKey[c.AssertID+"|"+c.Kind] {
			continue
		}
		rf := &replayFile{Property: *prop, Harness: c.Harness, Package: pkgOf[c.Harness], AssertID: c.AssertID, Kind: c.Kind,
			Msg: c.Msg, Known: c.Known, Tape: c.Tape, Decisions: c.Decisions, Where: c.Where, PathCond: c.PathCond, Tier: tierN}
		path := filepath.Join(replayDir, fmt.Sprintf("%s-%d.json", runTag, replayed+1))
		data, _ := json.MarshalIndent(rf, "", " ")
		os.WriteFile(path, data, 0o644)
		var line, full string
		tapeKey := ""
		if c.Kind == "race" {
			tj, _ := json.Marshal(c.Tape)
			tapeKey = c.Harness + "|" + string(tj)
		}
		if cached, ok := raceRuns[tapeKey]; ok && tapeKey != "" {
			line, full = cached[0], cached[1]
		} else {
			line, full = runReplay(rf, path, goOverlay, tierN)
			if tapeKey != "" {
				raceRuns[tapeKey] = [2]string{line, full}
			}
		}
		replayed++
		rf.Native = line
		data, _ = json.MarshalIndent(rf, "", " ")
		os.WriteFile(path, data, 0o644)
		if confirms(rf, line) {
			if c.Known != "" {
				knownHits[c.Known] = c.Msg
				os.Remove(path)
				continue
			}
			violations++
			confirmedKey[c.AssertID+"|"+c.Kind] = true
			vioLines = append(vioLines, fmt.Sprintf("VIOLATION property=%s replay=%s", *prop, path))
			fmt.Fprintf(os.Stderr, "counterexample confirmed natively: harness=%s assert=%s kind=%s msg=%s\n  native: %s\n", c.Harness, c.AssertID, c.Kind, c.Msg, line)
			if len(samples) < 12 {
				samples = append(samples, map[string]interface{}{"harness": c.Harness, "violated": c.AssertID, "tape": c.Tape, "native": line})
			}
		} else if c.Kind == "race" && strings.HasPrefix(line, "outcome=race-run") {
			// a lock-set candidate the race detector did not report in 40 concurrent rounds: not reported (the
			// lock-set discipline ignores happens-before edges other than locks); listed in the evidence
			unconfirmedRaces = append(unconfirmedRaces, c.Harness+": "+c.Msg)
			os.Remove(path)
		} else {
			inconclusive = append(inconclusive, fmt.Sprintf("%s: solver counterexample for %s (%s) did not reproduce natively: %s", c.Harness, c.AssertID, c.Kind, line))
			if *verbose {
				fmt.Fprintln(os.Stderr, full)
			}
		}
	}
	for _, k := range known {
		if k.prop != *prop {
			continue
		}
		if msg, ok := knownHits[k.id]; ok {
			fmt.Printf("KNOWN-FINDING: property=%s id=%s %s (%s)\n", *prop, k.id, k.text, msg)
		}
	}

	// ---- evidence
	wall := time.Since(t0).Seconds()
	if !*noEvidence {
		bounds := []string{}
		for _, h := range eng.Harnesses {
			if h.Prop == *prop {
				bounds = append(bounds, boundsOf(h.File, h.Name)...)
			}
		}
		if len(samples) == 0 {
			samples = append(samples, map[string]string{"note": "all paths had empty path conditions"})
		}
		ev := map[string]interface{}{
			"property_id": *prop,
			"tier":        *tier,
			"seed":        seed,
			"level":       "model_checking",
			"wall_s":      round3(wall),
			"violations":  violations,
			"assumptions": assumptionsOf(sel),
			"coverage": map[string]interface{}{
				"states":                        max1(completedPaths),
				"transitions":                   max1(totalBranches),
				"traces_validated_against_impl": replayed,
				"samples":                       samples,
				"evaluations":                   max1(totalPaths),
				"distinct_nontrivial":           completedPaths,
				"rule":                          "one evaluation = one feasible path of a harness through the real functions (path condition decided satisfiable by the SMT solver); paths are distinct by construction (they differ in at least one branch decision); a path is non-trivial when it reaches the end of the harness, i.e. passes every assumption and has every assertion on it discharged (negation unsat)",
				"explanation":                   "bounded symbolic execution of the go/ssa form of the listed galaxy functions; every branch on symbolic data and every assertion is decided by the SMT solver over all values of the nondet inputs inside the stated bounds; states = feasible paths that ran to the end, transitions = symbolic branch decisions",
				"exhaustive":                    len(inconclusive) == 0,
				"functions_encoded":             eng.ExecutedFunctions(),
				"dependency_functions_interpreted": eng.ExecutedDependencyFunctions(),
				"models_and_stubs_hit":          eng.ModelsHit(),
				"bounds":                        bounds,
				"harnesses":                     hev,
				"solver":                        keysOf(solversUsed),
				"solver_queries":                totalQueries,
				"solver_seconds":                round3(solverSec),
				"load_seconds":                  round3(eng.LoadSeconds),
				"inconclusive":                  inconclusive,
				"known_findings_reproduced":     knownHits,
				"lockset_candidates_not_confirmed_by_race_detector": unconfirmedRaces,
			},
		}
		os.MkdirAll(filepath.Join(verifDir, "evidence"), 0o755)
		data, _ := json.MarshalIndent(ev, "", " ")
		os.WriteFile(filepath.Join(verifDir, "evidence", *prop+".json"), data, 0o644)
	}
	for _, l := range vioLines {
		fmt.Println(l)
	}
	fmt.Printf("gosym: property=%s tier=%s harnesses=%d paths=%d queries=%d solver=%.1fs wall=%.1fs candidates=%d confirmed=%d known=%d inconclusive=%d\n",
		*prop, *tier, len(hev), totalPaths, totalQueries, solverSec, wall, len(cands), violations, len(knownHits), len(inconclusive))
	if violations > 0 {
		return 1
	}
	if len(inconclusive) > 0 {
		sort.Strings(inconclusive)
		for i, s := range inconclusive {
			if i >= 25 {
				fmt.Printf("INCONCLUSIVE … and %d more\n", len(inconclusive)-i)
				break
			}
			fmt.Printf("INCONCLUSIVE property=%s %s\n", *prop, s)
		}
		return 2
	}
	return 0
}

func max1(n int) int {
	if n < 1 {
		return 1
	}
	return n
}

func round3(f float64) float64 { return float64(int64(f*1000+0.5)) / 1000 }

var boundRe = regexp.MustCompile(`//\s*BOUND:\s*(.*)`)
var assumeRe = regexp.MustCompile(`//\s*ASSUME:\s*(.*)`)

// boundsOf collects "// BOUND: ..." comment lines from the harness file (the stated bounds).
func boundsOf(file, harness string) []string {
	src, err := os.ReadFile(file)
	if err != nil {
		// overlay path: map back to /verif/harness
		rel, _ := filepath.Rel(repoDir, file)
		src, err = os.ReadFile(filepath.Join(verifDir, "harness", rel))
		if err != nil {
			return nil
		}
	}
	// only the comment block preceding the harness function
	idx := strings.Index(string(src), "func "+harness+"(")
	if idx < 0 {
		return nil
	}
	head := string(src[:idx])
	lines := strings.Split(head, "\n")
	var out []string
	for i := len(lines) - 1; i >= 0; i-- {
		l := strings.TrimSpace(lines[i])
		if l == "" && i == len(lines)-1 {
			continue
		}
		if !strings.HasPrefix(l, "//") {
			break
		}
		if m := boundRe.FindStringSubmatch(l); m != nil {
			out = append([]string{harness + ": " + m[1]}, out...)
		}
	}
	return out
}

func assumptionsOf(pkgs []*harnessPkg) []string {
	seen := map[string]bool{}
	var out []string
	for _, hp := range pkgs {
		for _, f := range hp.files {
			src, err := os.ReadFile(f)
			if err != nil {
				continue
			}
			for _, m := range assumeRe.FindAllStringSubmatch(string(src), -1) {
				if !seen[m[1]] {
					seen[m[1]] = true
					out = append(out, m[1])
				}
			}
		}
	}
	out = append(out,
		"engine: own go/ssa symbolic executor; models of the standard library / Kubernetes helpers listed under models_and_stubs_hit are trusted",
		"maps iterate in insertion order in the engine (one legal order); goroutines started with `go` run to completion at the go statement",
		"only counterexamples that reproduce against the natively compiled real code are reported as violations")
	return out
}


func keysOf(m map[string]bool) []string {
	var out []string
	for k := range m {
		out = append(out, k)
	}
	sort.Strings(out)
	return out
}

// directiveOf reads a "// NAME: value" line from the comment block preceding the harness function.
func directiveOf(file, harness, name string) string {
	src, err := os.ReadFile(file)
	if err != nil {
		rel, _ := filepath.Rel(repoDir, file)
		src, err = os.ReadFile(filepath.Join(verifDir, "harness", rel))
		if err != nil {
			return ""
		}
	}
	idx := strings.Index(string(src), "func "+harness+"(")
	if idx < 0 {
		return ""
	}
	lines := strings.Split(string(src[:idx]), "\n")
	for i := len(lines) - 1; i >= 0; i-- {
		l := strings.TrimSpace(lines[i])
		if l == "" && i == len(lines)-1 {
			continue
		}
		if !strings.HasPrefix(l, "//") {
			break
		}
		if rest := strings.TrimSpace(strings.TrimPrefix(l, "//")); strings.HasPrefix(rest, name+":") {
			return strings.TrimSpace(strings.TrimPrefix(rest, name+":"))
		}
	}
	return ""
}
