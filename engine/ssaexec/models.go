package ssaexec

import (
	"bytes"
	"fmt"
	"go/token"
	"go/types"
	"net"
	"os"
	"regexp"
	"strconv"
	"strings"

	"golang.org/x/tools/go/ssa"

	"gosym/smt"
)

// Regular classes for nondetString. They are character-set supersets of the Kubernetes name syntaxes
// (DNS-1123 label / subdomain, CamelCase kind): every valid name is a member, so a property shown for the
// class holds for all valid names; the exact shapes (no leading '-', ...) made cvc5 time out.
const (
	reLabel     = `(re.+ (re.union (re.range "a" "z") (re.range "0" "9") (str.to_re "-")))`
	reSubdomain = `(re.+ (re.union (re.range "a" "z") (re.range "0" "9") (str.to_re "-") (str.to_re ".")))`
	reKind      = `(re.++ (re.range "A" "Z") (re.* (re.union (re.range "a" "z") (re.range "A" "Z") (re.range "0" "9"))))`
	rePrintable = `(re.* (re.range " " "~"))`
	// printable, non-blank, without the CNI_ARGS separators ';' and '='
	reCniArg = `(re.+ (re.union (re.range "!" ":") (str.to_re "<") (re.range ">" "~")))`
)

func registerModels(e *Engine) {
	e.noopPrefix = []string{"k8s.io/klog", "github.com/golang/glog", "github.com/prometheus/client_golang",
		"github.com/prometheus/client_model", "tkestack.io/galaxy/pkg/utils/ldflags"}
	registerVerifModels(e)
	registerFmtModels(e)
	registerStdModels(e)
	registerNetModels(e)
	registerSyncTimeModels(e)
	registerK8sModels(e)
	registerJSONModels(e)
	registerSymStringModels(e)
	registerRestfulModels(e)
	registerFSModels(e)
	registerRegexpModels(e)
	registerCoModels(e)
	registerBytesModels(e)
}

// ---------------------------------------------------------------- harness primitives

func registerVerifModels(e *Engine) {
	own := func(name string, m modelFn) { e.models["own:"+name] = m }
	registerRaceModels(e, own)
	nd := func(kind string, w int) modelFn {
		return func(fr *frame, fn *ssa.Function, args []value) value {
			k := basicKind(fn.Signature.Results().At(0).Type())
			return sym{fr.p.nondetTerm(kind, smt.BV(w)), k}
		}
	}
	own("nondetBool", func(fr *frame, fn *ssa.Function, args []value) value {
		return sym{fr.p.nondetTerm("bool", smt.Bool), types.Bool}
	})
	own("nondetU8", nd("u8", 8))
	own("nondetU16", nd("u16", 16))
	own("nondetU32", nd("u32", 32))
	own("nondetU64", nd("u64", 64))
	own("nondetInt", func(fr *frame, fn *ssa.Function, args []value) value {
		lo, hi := fr.concreteInt(args[0]), fr.concreteInt(args[1])
		st := fr.p.st
		t := fr.p.nondetTerm("int", smt.BV(64))
		c := st.And(st.BvCmp(smt.OBvSle, st.BVC(64, uint64(lo)), t), st.BvCmp(smt.OBvSle, t, st.BVC(64, uint64(hi))))
		fr.p.assume(fr, fromTerm(c, types.Bool))
		return sym{t, types.Int}
	})
	own("nondetChoice", func(fr *frame, fn *ssa.Function, args []value) value {
		n := int(fr.concreteInt(args[0]))
		k := fr.p.choose(fr, n)
		fr.p.nondets = append(fr.p.nondets, nondetRec{kind: "choice", val: int64(k)})
		return k
	})
	own("nondetPick", func(fr *frame, fn *ssa.Function, args []value) value {
		opts, _ := args[0].([]value)
		if len(opts) == 0 {
			panic(abortPath{kind: "infeasible", reason: "nondetPick of nothing"})
		}
		st := fr.p.st
		sel := fr.p.nondetTerm("pick", smt.BV(8))
		fr.p.addPC(st.BvCmp(smt.OBvUlt, sel, st.BVC(8, uint64(len(opts)))))
		t := st.StrC(fr.concreteString(opts[len(opts)-1]))
		for i := len(opts) - 2; i >= 0; i-- {
			t = st.Ite(st.Eq(sel, st.BVC(8, uint64(i))), st.StrC(fr.concreteString(opts[i])), t)
		}
		return fromTerm(t, types.String)
	})
	own("verifRotateMap", func(fr *frame, fn *ssa.Function, args []value) value {
		if m, ok := args[0].(iface).v.(*omap); ok && m != nil {
			m.rotate = true
			if names, _ := args[1].([]value); len(names) > 0 {
				m.rotateIn = map[string]bool{}
				for _, n := range names {
					m.rotateIn[fr.concreteString(n)] = true
				}
			}
		}
		return nil
	})
	own("verifThread", func(fr *frame, fn *ssa.Function, args []value) value {
		fr.p.thread = int(fr.concreteInt(args[0]))
		return nil
	})
	own("verifBound", func(fr *frame, fn *ssa.Function, args []value) value { return nil })
	own("nondetString", func(fr *frame, fn *ssa.Function, args []value) value {
		class := fr.concreteString(args[0])
		st := fr.p.st
		t := fr.p.nondetTerm("str", smt.Str)
		var re string
		maxLen := int64(-1)
		switch class {
		case "dns1123label":
			re = reLabel
		case "dns1123subdomain":
			re = reSubdomain
		case "kind":
			re = reKind
		case "printable":
			re = rePrintable
		case "cniarg":
			re = reCniArg
		case "any":
		default:
			fr.unmodelled("nondetString class %q", class)
		}
		if re != "" {
			fr.p.addPC(st.StrInRe(t, re))
		}
		if maxLen >= 0 {
			fr.p.addPC(st.IntBin(smt.OIntLe, st.StrOp(smt.OStrLen, smt.Int, t), st.IntC(maxLen)))
		}
		return sym{t, types.String}
	})
	own("verifAssume", func(fr *frame, fn *ssa.Function, args []value) value {
		fr.p.assume(fr, args[0])
		return nil
	})
	own("verifAssert", func(fr *frame, fn *ssa.Function, args []value) value {
		fr.p.assert(fr, fr.concreteString(args[0]), args[1], fr.concreteString(args[2]))
		return nil
	})
	own("verifKnown", func(fr *frame, fn *ssa.Function, args []value) value {
		fr.p.knownPreds = append(fr.p.knownPreds, knownPred{id: fr.concreteString(args[0]), pred: fr.boolTerm(args[1])})
		return nil
	})
	own("verifReach", func(fr *frame, fn *ssa.Function, args []value) value {
		fr.p.reach[fr.concreteString(args[0])]++
		return nil
	})
	own("verifAnd", func(fr *frame, fn *ssa.Function, args []value) value { return fr.and(args[0], args[1]) })
	own("verifOr", func(fr *frame, fn *ssa.Function, args []value) value { return fr.or(args[0], args[1]) })
	own("verifNot", func(fr *frame, fn *ssa.Function, args []value) value { return fr.not(args[0]) })
	own("verifImplies", func(fr *frame, fn *ssa.Function, args []value) value {
		return fr.or(fr.not(args[0]), args[1])
	})
	own("verifIte", func(fr *frame, fn *ssa.Function, args []value) value {
		c, a, b := args[0], args[1], args[2]
		if cb, ok := c.(bool); ok {
			if cb {
				return a
			}
			return b
		}
		st := fr.p.st
		return fromTerm(st.Ite(c.(sym).T, fr.boolTerm(a), fr.boolTerm(b)), types.Bool)
	})
	own("verifTier", func(fr *frame, fn *ssa.Function, args []value) value { return fr.p.eng.Tier })
	own("verifUnwind", func(fr *frame, fn *ssa.Function, args []value) value {
		fr.p.unwindBound = int(fr.concreteInt(args[0]))
		return nil
	})
	own("verifSymbolic", func(fr *frame, fn *ssa.Function, args []value) value { return true })
	own("verifTrace", func(fr *frame, fn *ssa.Function, args []value) value {
		if len(fr.p.trace) < 200 {
			fr.p.trace = append(fr.p.trace, fr.concreteString(args[0]))
		}
		return nil
	})
}

// ---------------------------------------------------------------- standard library

func registerStdModels(e *Engine) {
	e.models["errors.New"] = func(fr *frame, fn *ssa.Function, args []value) value {
		s, ok := args[0].(string)
		if !ok {
			s = opaqueMark + "symbolic error text"
		}
		return fr.p.eng.newErrorString(s)
	}
	unwrap := func(fr *frame, err iface) (iface, bool) {
		if err.t == nil {
			return iface{}, false
		}
		m := fr.methodOf(err.t, "Unwrap")
		if m == nil || m.Signature.Results().Len() != 1 || !types.Identical(m.Signature.Results().At(0).Type(), errorIface) {
			return iface{}, false
		}
		r := call(fr.p, fr, token.NoPos, m, []value{err.v}).(iface)
		return r, r.t != nil
	}
	e.models["errors.Unwrap"] = func(fr *frame, fn *ssa.Function, args []value) value {
		r, _ := unwrap(fr, args[0].(iface))
		return r
	}
	e.models["errors.Is"] = func(fr *frame, fn *ssa.Function, args []value) value {
		err, target := args[0].(iface), args[1].(iface)
		for n := 0; n < 20 && err.t != nil; n++ {
			if sameType(err.t, target.t) {
				if eq, ok := equals(fr, err.t, err.v, target.v).(bool); ok && eq {
					return true
				}
			}
			var ok bool
			err, ok = unwrap(fr, err)
			if !ok {
				break
			}
		}
		return false
	}
	e.models["errors.As"] = func(fr *frame, fn *ssa.Function, args []value) value {
		err, target := args[0].(iface), args[1].(iface)
		pt, ok := target.t.Underlying().(*types.Pointer)
		if !ok {
			fr.unmodelled("errors.As target of type %s", target.t)
		}
		want := pt.Elem()
		for n := 0; n < 20 && err.t != nil; n++ {
			if wi, isIface := want.Underlying().(*types.Interface); isIface {
				if types.Implements(err.t, wi) {
					*(target.v.(*value)) = err
					return true
				}
			} else if types.Identical(err.t, want) {
				*(target.v.(*value)) = err.v
				return true
			}
			var ok bool
			err, ok = unwrap(fr, err)
			if !ok {
				break
			}
		}
		return false
	}

	// strings (concrete fast path through the real functions; symbolic variants below)
	e.native("strings.Split", strings.Split)
	e.native("strings.SplitN", strings.SplitN)
	e.native("strings.Join", strings.Join)
	e.native("strings.Index", strings.Index)
	e.native("strings.IndexByte", strings.IndexByte)
	e.native("strings.IndexAny", strings.IndexAny)
	e.native("strings.LastIndex", strings.LastIndex)
	e.native("strings.TrimSpace", strings.TrimSpace)
	e.native("strings.Trim", strings.Trim)
	e.native("strings.TrimLeft", strings.TrimLeft)
	e.native("strings.TrimRight", strings.TrimRight)
	e.native("strings.TrimPrefix", strings.TrimPrefix)
	e.native("strings.TrimSuffix", strings.TrimSuffix)
	e.native("strings.ToLower", strings.ToLower)
	e.native("strings.ToUpper", strings.ToUpper)
	e.native("strings.Fields", strings.Fields)
	e.native("strings.Replace", strings.Replace)
	e.native("strings.ReplaceAll", strings.ReplaceAll)
	e.native("strings.Repeat", strings.Repeat)
	e.native("strings.Count", strings.Count)
	e.native("strings.EqualFold", strings.EqualFold)
	e.native("strings.Title", strings.Title)
	e.native("strings.Compare", strings.Compare)
	e.native("strings.ContainsAny", strings.ContainsAny)
	e.native("strings.ContainsRune", strings.ContainsRune)
	symStr2 := func(name string, conc func(a, b string) bool, op smt.Op, swap bool) {
		e.models[name] = func(fr *frame, fn *ssa.Function, args []value) value {
			a, aok := args[0].(string)
			b, bok := args[1].(string)
			if aok && bok {
				if hasOpaque(a) || hasOpaque(b) {
					fr.unmodelled("%s on a string whose text was not computed exactly", name)
				}
				return conc(a, b)
			}
			st := fr.p.st
			x, y := fr.toSym(args[0], types.String).T, fr.toSym(args[1], types.String).T
			if nx, ny := smt.LeafCount(x, 64), smt.LeafCount(y, 64); nx > 0 && ny > 0 && nx*ny <= 1024 {
				return fromTerm(st.MapLeaves(x, func(lx *smt.Term) *smt.Term {
					return st.MapLeaves(y, func(ly *smt.Term) *smt.Term { return st.BoolC(conc(lx.S, ly.S)) })
				}), types.Bool)
			}
			if swap {
				x, y = y, x
			}
			return fromTerm(st.StrOp(op, smt.Bool, x, y), types.Bool)
		}
	}
	symStr2("strings.HasPrefix", strings.HasPrefix, smt.OStrPrefixOf, true)
	symStr2("strings.HasSuffix", strings.HasSuffix, smt.OStrSuffixOf, true)
	symStr2("strings.Contains", strings.Contains, smt.OStrContains, false)

	e.native("regexp.MatchString", regexp.MatchString)
	e.native("strconv.Itoa", strconv.Itoa)
	e.native("strconv.Atoi", strconv.Atoi)
	e.native("strconv.ParseInt", strconv.ParseInt)
	e.native("strconv.ParseUint", strconv.ParseUint)
	e.native("strconv.ParseBool", strconv.ParseBool)
	e.native("strconv.FormatInt", strconv.FormatInt)
	e.native("strconv.FormatUint", strconv.FormatUint)
	e.native("strconv.Quote", strconv.Quote)

	e.native("bytes.Equal", bytes.Equal)
	e.native("bytes.Index", bytes.Index)
	e.native("bytes.IndexByte", bytes.IndexByte)
	e.native("bytes.HasPrefix", bytes.HasPrefix)
	e.native("bytes.TrimSpace", bytes.TrimSpace)
	e.native("bytes.Contains", bytes.Contains)

	e.models["os.Getenv"] = func(fr *frame, fn *ssa.Function, args []value) value {
		if v, ok := fr.p.sideTable["env:"+fr.concreteString(args[0])]; ok {
			return v.(string)
		}
		return ""
	}
	_ = os.Getenv
	// the node's host name: a fixed name (nothing galaxy computes depends on its value beyond selecting the node's pods)
	e.models["os.Hostname"] = func(fr *frame, fn *ssa.Function, args []value) value {
		return tuple{"verif-node", iface{}}
	}

	// runtime helpers used for log decoration only
	e.models["runtime.Caller"] = func(fr *frame, fn *ssa.Function, args []value) value {
		return tuple{uintptr(0), "", 0, false}
	}
	e.models["runtime.FuncForPC"] = func(fr *frame, fn *ssa.Function, args []value) value {
		return (*value)(nil)
	}
	e.models["runtime.Gosched"] = modelNoop

	// sort.Slice / SliceStable / sort.Strings: insertion sort driving the real less function
	sortSlice := func(fr *frame, fn *ssa.Function, args []value) value {
		sl := args[0].(iface).v.([]value)
		less := args[1]
		for i := 1; i < len(sl); i++ {
			for j := i; j > 0; j-- {
				r := call(fr.p, fr, token.NoPos, less, []value{j, j - 1})
				if !fr.concreteBool(r) {
					break
				}
				sl[j], sl[j-1] = sl[j-1], sl[j]
			}
		}
		return nil
	}
	e.models["sort.Slice"] = sortSlice
	e.models["sort.SliceStable"] = sortSlice
	e.models["sort.Strings"] = func(fr *frame, fn *ssa.Function, args []value) value {
		sl := args[0].([]value)
		for i := 1; i < len(sl); i++ {
			for j := i; j > 0 && fr.concreteString(sl[j]) < fr.concreteString(sl[j-1]); j-- {
				sl[j], sl[j-1] = sl[j-1], sl[j]
			}
		}
		return nil
	}
	e.models["sort.Ints"] = func(fr *frame, fn *ssa.Function, args []value) value {
		sl := args[0].([]value)
		for i := 1; i < len(sl); i++ {
			for j := i; j > 0 && fr.concreteInt(sl[j]) < fr.concreteInt(sl[j-1]); j-- {
				sl[j], sl[j-1] = sl[j-1], sl[j]
			}
		}
		return nil
	}

	// flag / pflag constructors evaluated at package init: return a pointer to the default value
	flagCtor := func(defIdx int) modelFn {
		return func(fr *frame, fn *ssa.Function, args []value) value {
			cell := args[defIdx]
			return &cell
		}
	}
	for _, pkg := range []string{"flag", "github.com/spf13/pflag"} {
		for _, n := range []string{"String", "Bool", "Int", "Int64", "Uint", "Duration", "Float64", "StringSlice", "Uint32", "Int32", "Uint16"} {
			e.models[pkg+"."+n] = flagCtor(1)
			e.models[pkg+"."+n+"P"] = flagCtor(2)
		}
		for _, n := range []string{"StringVar", "BoolVar", "IntVar", "Int64Var", "UintVar", "DurationVar", "Float64Var", "StringSliceVar", "Var", "StringVarP", "BoolVarP", "IntVarP", "DurationVarP"} {
			name := n
			e.models[pkg+"."+name] = func(fr *frame, fn *ssa.Function, args []value) value {
				if strings.HasSuffix(name, "P") {
					*(args[0].(*value)) = args[3]
				} else if name != "Var" {
					*(args[0].(*value)) = args[2]
				}
				return nil
			}
		}
	}
	_ = fmt.Sprint
}

// ---------------------------------------------------------------- net

func bytesOf(fr *frame, v value) ([]byte, bool) {
	sl, _ := v.([]value)
	out := make([]byte, len(sl))
	for i, e := range sl {
		b, ok := e.(uint8)
		if !ok {
			return nil, false
		}
		out[i] = b
	}
	return out, true
}

func bytesVal(b []byte) []value {
	if b == nil {
		return nil
	}
	out := make([]value, len(b))
	for i, x := range b {
		out[i] = x
	}
	return out
}

var v4InV6Prefix = []byte{0, 0, 0, 0, 0, 0, 0, 0, 0, 0, 0xff, 0xff}

// ipTo4 mirrors net.IP.To4 over possibly symbolic bytes (the v4-in-v6 prefix test forks if symbolic).
func ipTo4(fr *frame, ip []value) []value {
	if len(ip) == 4 {
		return ip
	}
	if len(ip) == 16 {
		var acc value = true
		for i := 0; i < 12; i++ {
			acc = fr.and(acc, equals(fr, types.Typ[types.Uint8], ip[i], v4InV6Prefix[i]))
		}
		if fr.concreteBool(acc) {
			return ip[12:16]
		}
	}
	return nil
}

func registerNetModels(e *Engine) {
	e.models["(net.IP).String"] = func(fr *frame, fn *ssa.Function, args []value) value {
		b, ok := bytesOf(fr, args[0])
		if !ok {
			// symbolic address: text is not computed
			return opaqueMark + "symbolic-ip"
		}
		return net.IP(b).String()
	}
	e.models["(net.IP).To4"] = func(fr *frame, fn *ssa.Function, args []value) value {
		ip, _ := args[0].([]value)
		return ipTo4(fr, ip)
	}
	e.models["(net.IP).To16"] = func(fr *frame, fn *ssa.Function, args []value) value {
		ip, _ := args[0].([]value)
		if len(ip) == 4 {
			out := bytesVal(append(append([]byte{}, v4InV6Prefix...), 0, 0, 0, 0))
			copy(out[12:], ip)
			return out
		}
		if len(ip) == 16 {
			return ip
		}
		return []value(nil)
	}
	e.models["(net.IP).Equal"] = func(fr *frame, fn *ssa.Function, args []value) value {
		a, _ := args[0].([]value)
		b, _ := args[1].([]value)
		eqBytes := func(x, y []value) value {
			var acc value = true
			for i := range x {
				acc = fr.and(acc, equals(fr, types.Typ[types.Uint8], x[i], y[i]))
			}
			return acc
		}
		if len(a) == len(b) {
			return eqBytes(a, b)
		}
		if len(a) == 4 && len(b) == 16 {
			a, b = b, a
		}
		if len(a) == 16 && len(b) == 4 {
			return fr.and(eqBytes(a[:12], bytesVal(v4InV6Prefix)), eqBytes(a[12:], b))
		}
		return false
	}
	e.models["(net.IP).Mask"] = func(fr *frame, fn *ssa.Function, args []value) value {
		ip, _ := args[0].([]value)
		mask, _ := args[1].([]value)
		if len(mask) == 16 && len(ip) == 4 {
			var acc value = true
			for i := 0; i < 12; i++ {
				acc = fr.and(acc, equals(fr, types.Typ[types.Uint8], mask[i], uint8(0xff)))
			}
			if fr.concreteBool(acc) {
				mask = mask[12:]
			}
		}
		if len(mask) == 4 && len(ip) == 16 {
			if v4 := ipTo4(fr, ip); v4 != nil {
				ip = v4
			}
		}
		n := len(ip)
		if n != len(mask) {
			return []value(nil)
		}
		out := make([]value, n)
		for i := 0; i < n; i++ {
			out[i] = binop(fr, token.AND, types.Typ[types.Uint8], ip[i], mask[i])
		}
		return out
	}
	e.models["(*net.IPNet).Contains"] = func(fr *frame, fn *ssa.Function, args []value) value {
		n := (*fr.derefPtr(args[0])).(structure)
		nip, _ := n[0].([]value)
		mask, _ := n[1].([]value)
		ip, _ := args[1].([]value)
		if x := ipTo4(fr, ip); x != nil {
			ip = x
		}
		// networkNumberAndMask (an invalid network has an empty network number)
		if v4 := ipTo4(fr, nip); v4 != nil {
			nip = v4
		} else if len(nip) != 16 {
			return len(ip) == 0
		}
		switch len(mask) {
		case 4:
			if len(nip) != 4 {
				return len(ip) == 0
			}
		case 16:
			if len(nip) == 4 {
				mask = mask[12:]
			}
		default:
			return len(ip) == 0
		}
		if len(ip) != len(nip) {
			return false
		}
		var acc value = true
		for i := range ip {
			l := binop(fr, token.AND, types.Typ[types.Uint8], nip[i], mask[i])
			r := binop(fr, token.AND, types.Typ[types.Uint8], ip[i], mask[i])
			acc = fr.and(acc, equals(fr, types.Typ[types.Uint8], l, r))
		}
		return acc
	}
	e.models["(*net.IPNet).String"] = func(fr *frame, fn *ssa.Function, args []value) value {
		if args[0].(*value) == nil {
			return "<nil>"
		}
		n := (*fr.derefPtr(args[0])).(structure)
		ipb, ok1 := bytesOf(fr, n[0])
		mb, ok2 := bytesOf(fr, n[1])
		if !ok1 || !ok2 {
			return opaqueMark + "symbolic-ipnet"
		}
		return (&net.IPNet{IP: ipb, Mask: mb}).String()
	}
	e.models["(net.IPMask).String"] = func(fr *frame, fn *ssa.Function, args []value) value {
		b, ok := bytesOf(fr, args[0])
		if !ok {
			return opaqueMark + "symbolic-mask"
		}
		return net.IPMask(b).String()
	}
	e.models["(net.IPMask).Size"] = func(fr *frame, fn *ssa.Function, args []value) value {
		b, ok := bytesOf(fr, args[0])
		if !ok {
			fr.unmodelled("IPMask.Size on symbolic mask")
		}
		o, bits := net.IPMask(b).Size()
		return tuple{o, bits}
	}
	e.native("net.ParseIP", func(s string) net.IP { return net.ParseIP(s) })
	e.models["net.ParseCIDR"] = func(fr *frame, fn *ssa.Function, args []value) value {
		s := fr.concreteString(args[0])
		ip, n, err := net.ParseCIDR(s)
		if err != nil {
			return tuple{[]value(nil), (*value)(nil), fr.p.eng.newErrorString(err.Error())}
		}
		var cell value = structure{bytesVal(n.IP), bytesVal(n.Mask)}
		return tuple{bytesVal(ip), &cell, iface{}}
	}
	e.native("net.IPv4", func(a, b, c, d byte) net.IP { return net.IPv4(a, b, c, d) })
	e.native("net.CIDRMask", func(ones, bits int) net.IPMask { return net.CIDRMask(ones, bits) })
	e.native("net.IPv4Mask", func(a, b, c, d byte) net.IPMask { return net.IPv4Mask(a, b, c, d) })
	e.models["(net.IP).MarshalText"] = func(fr *frame, fn *ssa.Function, args []value) value {
		b, ok := bytesOf(fr, args[0])
		if !ok {
			fr.unmodelled("MarshalText of symbolic IP")
		}
		out, err := net.IP(b).MarshalText()
		if err != nil {
			return tuple{[]value(nil), fr.p.eng.newErrorString(err.Error())}
		}
		return tuple{bytesVal(out), iface{}}
	}
	e.models["(*net.IP).UnmarshalText"] = func(fr *frame, fn *ssa.Function, args []value) value {
		b, ok := bytesOf(fr, args[1])
		if !ok {
			fr.unmodelled("UnmarshalText of symbolic text")
		}
		var ip net.IP
		if err := ip.UnmarshalText(b); err != nil {
			return fr.p.eng.newErrorString(err.Error())
		}
		*fr.derefPtr(args[0]) = bytesVal(ip)
		return iface{}
	}
	// encoding/binary big endian helpers are plain byte code and are interpreted.
}


// ---------------------------------------------------------------- SMT models of string functions

const splitUnroll = 6

func registerSymStringModels(e *Engine) {
	strT := func(fr *frame, v value) *smt.Term { return fr.toSym(v, types.String).T }
	lenT := func(st *smt.Store, t *smt.Term) *smt.Term { return st.StrOp(smt.OStrLen, smt.Int, t) }
	e.symModels["strings.ToLower"] = func(fr *frame, fn *ssa.Function, args []value) value {
		return fromTerm(fr.p.st.StrOp(smt.OStrToLower, smt.Str, strT(fr, args[0])), types.String)
	}
	e.symModels["strings.Index"] = func(fr *frame, fn *ssa.Function, args []value) value {
		st := fr.p.st
		return fromTerm(st.StrOp(smt.OStrIndexOf, smt.Int, strT(fr, args[0]), strT(fr, args[1]), st.IntC(0)), types.Int)
	}
	e.symModels["strings.LastIndex"] = func(fr *frame, fn *ssa.Function, args []value) value {
		st := fr.p.st
		s := strT(fr, args[0])
		sep, ok := args[1].(string)
		if !ok || len(sep) != 1 {
			fr.unmodelled("LastIndex with a symbolic or multi-character separator")
		}
		sepT := st.StrC(sep)
		if !fr.p.branch(fr, nil, st.StrOp(smt.OStrContains, smt.Bool, s, sepT)) {
			return -1
		}
		n := len(st.Vars)
		h := st.Var(fmt.Sprintf("li%dh", n), smt.Str)
		t := st.Var(fmt.Sprintf("li%dt", n), smt.Str)
		fr.p.addPC(st.Eq(s, st.StrConcat(h, sepT, t)))
		fr.p.addPC(st.Not(st.StrOp(smt.OStrContains, smt.Bool, t, sepT)))
		// remember the decomposition so that s[:idx] folds to h
		fr.p.sideTable[fmt.Sprintf("prefix:%d:%d", s.ID, lenT(st, h).ID)] = h
		return fromTerm(lenT(st, h), types.Int)
	}
	concatParts := func(t *smt.Term) []*smt.Term {
		if t.Op == smt.OStrConcat {
			return t.Args
		}
		return []*smt.Term{t}
	}
	// splitFirst cuts s at the first occurrence of the constant separator, exploiting the concat structure:
	// constant parts are searched directly, symbolic parts that cannot contain the separator (solver: unsat)
	// are skipped, and only a part that may contain it is cut with fresh variables (part = h ++ sep ++ t, sep not in h).
	splitFirst := func(fr *frame, s *smt.Term, sep string) (head, rest *smt.Term, found bool) {
		st := fr.p.st
		parts := concatParts(s)
		var prefix []*smt.Term
		sepT := st.StrC(sep)
		for i, a := range parts {
			if a.IsConst() {
				if idx := strings.Index(a.S, sep); idx >= 0 {
					head = st.StrConcat(append(append([]*smt.Term{}, prefix...), st.StrC(a.S[:idx]))...)
					rest = st.StrConcat(append([]*smt.Term{st.StrC(a.S[idx+len(sep):])}, parts[i+1:]...)...)
					return head, rest, true
				}
				prefix = append(prefix, a)
				continue
			}
			if len(sep) != 1 {
				fr.unmodelled("split of a symbolic string at a multi-character separator")
			}
			if fr.p.branch(fr, nil, st.StrOp(smt.OStrContains, smt.Bool, a, sepT)) {
				n := len(st.Vars)
				h := st.Var(fmt.Sprintf("sp%dh", n), smt.Str)
				t := st.Var(fmt.Sprintf("sp%dt", n), smt.Str)
				fr.p.addPC(st.Eq(a, st.StrConcat(h, sepT, t)))
				fr.p.addPC(st.Not(st.StrOp(smt.OStrContains, smt.Bool, h, sepT)))
				head = st.StrConcat(append(append([]*smt.Term{}, prefix...), h)...)
				rest = st.StrConcat(append([]*smt.Term{t}, parts[i+1:]...)...)
				return head, rest, true
			}
			prefix = append(prefix, a)
		}
		return nil, nil, false
	}
	split := func(fr *frame, s *smt.Term, sepV value, max int) value {
		sep, ok := sepV.(string)
		if !ok || sep == "" {
			fr.unmodelled("split with a symbolic or empty separator")
		}
		var parts []value
		rest := s
		for i := 0; ; i++ {
			if max > 0 && len(parts) == max-1 {
				break
			}
			head, r2, found := splitFirst(fr, rest, sep)
			if !found {
				break
			}
			if i >= splitUnroll {
				panic(abortPath{kind: "unwind", reason: fmt.Sprintf("strings.Split: more than %d parts @ %s", splitUnroll, fr.stack())})
			}
			rest = r2
			parts = append(parts, fromTerm(head, types.String))
		}
		parts = append(parts, fromTerm(rest, types.String))
		return parts
	}
	e.symModels["strings.Split"] = func(fr *frame, fn *ssa.Function, args []value) value {
		return split(fr, strT(fr, args[0]), args[1], 0)
	}
	e.symModels["strings.SplitN"] = func(fr *frame, fn *ssa.Function, args []value) value {
		n := int(fr.concreteInt(args[2]))
		if n == 0 {
			return []value(nil)
		}
		if n < 0 {
			n = 0
		}
		return split(fr, strT(fr, args[0]), args[1], n)
	}
	// strconv.Atoi of a symbolic string: an arbitrary outcome (any int with nil error, or an error);
	// an over-approximation that is sound for properties of what callers do with the result
	e.symModels["strconv.Atoi"] = func(fr *frame, fn *ssa.Function, args []value) value {
		st := fr.p.st
		n := len(st.Vars)
		fails := st.Var(fmt.Sprintf("atoi%dfails", n), smt.Bool)
		if fr.p.branch(fr, nil, fails) {
			return tuple{0, fr.p.eng.newErrorString("strconv.Atoi: parsing: invalid syntax")}
		}
		return tuple{sym{st.Var(fmt.Sprintf("atoi%dval", n), smt.BV(64)), types.Int}, iface{}}
	}
	// TrimSpace of a symbolic string: modelled only when the solver shows there is nothing to trim
	e.symModels["strings.TrimSpace"] = func(fr *frame, fn *ssa.Function, args []value) value {
		st := fr.p.st
		s := strT(fr, args[0])
		blankEdge := st.BoolC(false)
		for _, ws := range []string{" ", "\t", "\n", "\r", "\v", "\f"} {
			blankEdge = st.Or(blankEdge, st.Or(st.StrOp(smt.OStrPrefixOf, smt.Bool, st.StrC(ws), s), st.StrOp(smt.OStrSuffixOf, smt.Bool, st.StrC(ws), s)))
		}
		if fr.p.check(blankEdge) != smt.Unsat {
			fr.unmodelled("strings.TrimSpace of a symbolic string that may have leading or trailing white space")
		}
		return fromTerm(s, types.String)
	}
	e.symModels["strings.TrimSuffix"] = func(fr *frame, fn *ssa.Function, args []value) value {
		st := fr.p.st
		s, suf := strT(fr, args[0]), strT(fr, args[1])
		has := st.StrOp(smt.OStrSuffixOf, smt.Bool, suf, s)
		cut := st.StrOp(smt.OStrSubstr, smt.Str, s, st.IntC(0), st.IntBin(smt.OIntSub, lenT(st, s), lenT(st, suf)))
		return fromTerm(st.Ite(has, cut, s), types.String)
	}
	e.symModels["strings.TrimPrefix"] = func(fr *frame, fn *ssa.Function, args []value) value {
		st := fr.p.st
		s, pre := strT(fr, args[0]), strT(fr, args[1])
		has := st.StrOp(smt.OStrPrefixOf, smt.Bool, pre, s)
		cut := st.StrOp(smt.OStrSubstr, smt.Str, s, lenT(st, pre), lenT(st, s))
		return fromTerm(st.Ite(has, cut, s), types.String)
	}
}
