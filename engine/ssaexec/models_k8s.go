package ssaexec

import (
	"fmt"
	"go/token"
	"go/types"
	"regexp"
	"strings"

	"golang.org/x/tools/go/ssa"

	"gosym/smt"
)

const pollTries = 3

func registerK8sModels(e *Engine) {
	waitPkg := "k8s.io/apimachinery/pkg/util/wait"
	poll := func(condIdx int, infinite bool) modelFn {
		return func(fr *frame, fn *ssa.Function, args []value) value {
			for i := 0; i < pollTries; i++ {
				r := call(fr.p, fr, token.NoPos, args[condIdx], nil).(tuple)
				if err := r[1].(iface); err.t != nil {
					return err
				}
				if fr.concreteBool(r[0]) {
					return iface{}
				}
			}
			if infinite {
				panic(abortPath{kind: "steps", reason: "wait.PollInfinite condition still false after 3 tries @ " + fr.stack()})
			}
			return fr.p.eng.newErrorString("timed out waiting for the condition")
		}
	}
	e.models[waitPkg+".Poll"] = poll(2, false)
	e.models[waitPkg+".PollImmediate"] = poll(2, false)
	e.models[waitPkg+".PollInfinite"] = poll(1, true)
	e.models[waitPkg+".PollImmediateInfinite"] = poll(1, true)
	e.models[waitPkg+".Until"] = func(fr *frame, fn *ssa.Function, args []value) value {
		call(fr.p, fr, token.NoPos, args[0], nil)
		return nil
	}

	// k8s.io/apimachinery/pkg/util/validation: the name validators read package-level regexps (initialisers are not
	// executed), so they are modelled. Concrete names: the exact DNS-1123 rules. Symbolic names: membership in the
	// same character-set classes nondetString draws names from plus the length limit, i.e. every name of the class
	// that is short enough is accepted (the classes are supersets of the exact grammar, so code that validates a
	// name correctly never rejects a class member; a counterexample only counts once it reproduces natively).
	valPkg := "k8s.io/apimachinery/pkg/util/validation"
	dnsLabel := regexp.MustCompile(`^[a-z0-9]([-a-z0-9]*[a-z0-9])?$`)
	dnsSub := regexp.MustCompile(`^[a-z0-9]([-a-z0-9]*[a-z0-9])?(\.[a-z0-9]([-a-z0-9]*[a-z0-9])?)*$`)
	validator := func(name string, re *regexp.Regexp, class string, maxLen int) {
		e.native(valPkg+"."+name, func(s string) []string {
			var errs []string
			if len(s) > maxLen {
				errs = append(errs, fmt.Sprintf("must be no more than %d characters", maxLen))
			}
			if !re.MatchString(s) {
				errs = append(errs, "a DNS-1123 name must consist of lower case alphanumeric characters or '-', and must start and end with an alphanumeric character")
			}
			return errs
		})
		e.symModels[valPkg+"."+name] = func(fr *frame, fn *ssa.Function, args []value) value {
			st := fr.p.st
			s := fr.toSym(args[0], types.String).T
			// two separate decisions: cvc5 1.0 answers unknown on the negated conjunction
			if !fr.p.branch(fr, nil, st.StrInRe(s, class)) {
				return []value{"invalid DNS-1123 name"}
			}
			if !fr.p.branch(fr, nil, st.IntBin(smt.OIntLe, st.StrOp(smt.OStrLen, smt.Int, s), st.IntC(int64(maxLen)))) {
				return []value{"name too long"}
			}
			return []value(nil)
		}
	}
	validator("IsDNS1123Label", dnsLabel, reLabel, 63)
	validator("IsDNS1123Subdomain", dnsSub, reSubdomain, 253)

	// fields.EscapeValue uses a package-level strings.Replacer (initialisers are not executed)
	fieldEscaper := strings.NewReplacer(`\`, `\\`, `,`, `\,`, `=`, `\=`)
	e.native("k8s.io/apimachinery/pkg/fields.EscapeValue", func(s string) string { return fieldEscaper.Replace(s) })

	// cache.WaitForCacheSync(stopCh, synced...): polls the given functions (up to pollTries rounds) instead of
	// building a context from the stop channel
	e.models["k8s.io/client-go/tools/cache.WaitForCacheSync"] = func(fr *frame, fn *ssa.Function, args []value) value {
		fns, _ := args[1].([]value)
		for i := 0; i < pollTries; i++ {
			all := true
			for _, f := range fns {
				if !fr.concreteBool(call(fr.p, fr, token.NoPos, f, nil)) {
					all = false
				}
			}
			if all {
				return true
			}
		}
		return false
	}

	errPkg := "k8s.io/apimachinery/pkg/api/errors"
	reasonOf := func(fr *frame, err iface) string {
		for n := 0; n < 20 && err.t != nil; n++ {
			if m := fr.methodOf(err.t, "Status"); m != nil && m.Signature.Params().Len() == 0 && m.Signature.Results().Len() == 1 {
				if st, ok := m.Signature.Results().At(0).Type().Underlying().(*types.Struct); ok {
					if p, isPtr := err.v.(*value); isPtr && p == nil {
						return ""
					}
					res := call(fr.p, fr, token.NoPos, m, []value{err.v}).(structure)
					for i := 0; i < st.NumFields(); i++ {
						if st.Field(i).Name() == "Reason" {
							return fr.concreteString(res[i])
						}
					}
				}
			}
			um := fr.methodOf(err.t, "Unwrap")
			if um == nil || um.Signature.Results().Len() != 1 || !types.Identical(um.Signature.Results().At(0).Type(), errorIface) {
				break
			}
			err = call(fr.p, fr, token.NoPos, um, []value{err.v}).(iface)
		}
		return ""
	}
	for name, reason := range map[string]string{
		"IsNotFound": "NotFound", "IsAlreadyExists": "AlreadyExists", "IsConflict": "Conflict",
		"IsServerTimeout": "ServerTimeout", "IsTimeout": "Timeout", "IsInvalid": "Invalid",
		"IsForbidden": "Forbidden", "IsBadRequest": "BadRequest", "IsInternalError": "InternalError",
	} {
		reason := reason
		e.models[errPkg+"."+name] = func(fr *frame, fn *ssa.Function, args []value) value {
			return reasonOf(fr, args[0].(iface)) == reason
		}
	}
	e.models[errPkg+".ReasonForError"] = func(fr *frame, fn *ssa.Function, args []value) value {
		return reasonOf(fr, args[0].(iface))
	}

	// grpc status errors: a code attached to an error value
	grpcCodes := func(fr *frame) map[*value]uint32 {
		m, _ := fr.p.sideTable["grpc:codes"].(map[*value]uint32)
		if m == nil {
			m = map[*value]uint32{}
			fr.p.sideTable["grpc:codes"] = m
		}
		return m
	}
	e.models["google.golang.org/grpc/status.Error"] = func(fr *frame, fn *ssa.Function, args []value) value {
		err := fr.p.eng.newErrorString("rpc error: " + fr.concreteString(args[1])).(iface)
		grpcCodes(fr)[err.v.(*value)] = uint32(fr.concreteInt(args[0]))
		return err
	}
	e.models["google.golang.org/grpc/status.FromError"] = func(fr *frame, fn *ssa.Function, args []value) value {
		err := args[0].(iface)
		stT := mustDeref(fn.Signature.Results().At(0).Type())
		cell := zero(stT)
		if err.t == nil {
			return tuple{(*value)(nil), true}
		}
		if p, ok := err.v.(*value); ok {
			if c, has := grpcCodes(fr)[p]; has {
				grpcCodes(fr)[&cell] = c
				return tuple{&cell, true}
			}
		}
		grpcCodes(fr)[&cell] = 2 // codes.Unknown
		return tuple{&cell, false}
	}
	e.models["(*google.golang.org/grpc/internal/status.Status).Code"] = func(fr *frame, fn *ssa.Function, args []value) value {
		p := args[0].(*value)
		if p == nil {
			return convC(fn.Signature.Results().At(0).Type(), types.Typ[types.Uint64], uint64(0))
		}
		return convC(fn.Signature.Results().At(0).Type(), types.Typ[types.Uint64], uint64(grpcCodes(fr)[p]))
	}
	// generated protobuf enum String() methods read name tables initialised in package init: only used for logging
	for _, n := range []string{"(k8s.io/cri-api/pkg/apis/runtime/v1.PodSandboxState).String", "(k8s.io/cri-api/pkg/apis/runtime/v1.ContainerState).String"} {
		e.models[n] = func(fr *frame, fn *ssa.Function, args []value) value { return opaqueMark + "enum" }
	}
	for _, n := range []string{"golang.org/x/net/context.WithTimeout", "context.WithTimeout", "context.WithCancel", "golang.org/x/net/context.WithCancel"} {
		e.models[n] = func(fr *frame, fn *ssa.Function, args []value) value {
			cancelSig := fn.Signature.Results().At(1).Type().Underlying().(*types.Signature)
			return tuple{iface{}, &noopCall{sig: cancelSig}}
		}
	}
	e.models["golang.org/x/net/context.Background"] = func(fr *frame, fn *ssa.Function, args []value) value { return iface{} }
	// context: opaque, never inspected by the code under analysis
	e.models["context.TODO"] = func(fr *frame, fn *ssa.Function, args []value) value { return iface{} }
	e.models["context.Background"] = func(fr *frame, fn *ssa.Function, args []value) value { return iface{} }
}
