package ssaexec

import (
	"go/types"

	"golang.org/x/tools/go/ssa"
)

// go-restful request/response are replaced by a small recording model: the harness registers the request
// entity / parameters (verifSetRequest*), ReadEntity transfers it through the JSON tree codec (so that what
// JSON drops is dropped), and Write* record status code and entity for the harness (verifResponse*).
func registerRestfulModels(e *Engine) {
	const pkg = "github.com/emicklei/go-restful"
	own := func(name string, m modelFn) { e.models["own:"+name] = m }
	own("verifSetRequestEntity", func(fr *frame, fn *ssa.Function, args []value) value {
		fr.p.sideTable["restful:entity"] = args[0].(iface)
		return nil
	})
	own("verifSetRequestParam", func(fr *frame, fn *ssa.Function, args []value) value {
		m, _ := fr.p.sideTable["restful:params"].(map[string]value)
		if m == nil {
			m = map[string]value{}
			fr.p.sideTable["restful:params"] = m
		}
		m[fr.concreteString(args[0])] = args[1]
		return nil
	})
	own("verifResponseCode", func(fr *frame, fn *ssa.Function, args []value) value {
		if c, ok := fr.p.sideTable["restful:code"]; ok {
			return c.(value)
		}
		return 0
	})
	own("verifResponseEntity", func(fr *frame, fn *ssa.Function, args []value) value {
		if v, ok := fr.p.sideTable["restful:resp"]; ok {
			return v.(iface)
		}
		return iface{}
	})
	param := func(fr *frame, fn *ssa.Function, args []value) value {
		m, _ := fr.p.sideTable["restful:params"].(map[string]value)
		if v, ok := m[fr.concreteString(args[1])]; ok {
			return v
		}
		return ""
	}
	e.models["(*"+pkg+".Request).QueryParameter"] = param
	e.models["(*"+pkg+".Request).PathParameter"] = param
	e.models["(*"+pkg+".Request).ReadEntity"] = func(fr *frame, fn *ssa.Function, args []value) value {
		ent, ok := fr.p.sideTable["restful:entity"].(iface)
		if !ok {
			return fr.p.eng.newErrorString("EOF")
		}
		target := args[1].(iface)
		pt, isPtr := target.t.Underlying().(*types.Pointer)
		if !isPtr {
			fr.unmodelled("ReadEntity into a non-pointer")
		}
		tree := fr.jsonEncode(ent.v, ent.t, false, nil)
		ds := &jsonDecState{}
		fr.jsonDecode(ds, tree, pt.Elem(), target.v.(*value))
		if ds.firstErr != "" {
			return fr.p.eng.newErrorString(ds.firstErr)
		}
		return iface{}
	}
	record := func(codeIdx, entIdx int) modelFn {
		return func(fr *frame, fn *ssa.Function, args []value) value {
			if codeIdx >= 0 {
				fr.p.sideTable["restful:code"] = args[codeIdx]
			} else {
				fr.p.sideTable["restful:code"] = value(200)
			}
			if entIdx >= 0 {
				fr.p.sideTable["restful:resp"] = args[entIdx].(iface)
			}
			return zeroResults(fn.Signature)
		}
	}
	e.models["(*"+pkg+".Response).WriteHeaderAndEntity"] = record(1, 2)
	e.models["(*"+pkg+".Response).WriteEntity"] = record(-1, 1)
	e.models["(*"+pkg+".Response).WriteAsJson"] = record(-1, 1)
	e.models["(*"+pkg+".Response).WriteHeader"] = record(1, -1)
	e.models["(*"+pkg+".Response).WriteErrorString"] = record(1, -1)
	e.models["(*"+pkg+".Response).WriteError"] = record(1, -1)
}
