package ssaexec

import (
	"go/token"

	"golang.org/x/tools/go/ssa"
)

// A second logical thread as a coroutine (DESIGN.md §3.7 2b, restricted to one extra thread): verifCo(f) runs f
// on its own interpreter stack until it finishes or parks (verifCoPark, called where it would block on a lock held
// by the first thread); verifCoResume switches back to it. Exactly one of the two runs at any time (baton passing),
// so the path stays deterministic for a given decision prefix.
type coState struct {
	toB, toA chan struct{}
	kill     chan struct{}
	done     bool
	panicVal interface{}
}

func registerCoModels(e *Engine) {
	own := func(name string, m modelFn) { e.models["own:"+name] = m }
	switchToB := func(fr *frame, co *coState) {
		co.toB <- struct{}{}
		<-co.toA
		if co.panicVal != nil {
			pv := co.panicVal
			co.panicVal = nil
			panic(pv)
		}
	}
	own("verifCo", func(fr *frame, fn *ssa.Function, args []value) value {
		p := fr.p
		if p.co != nil && !p.co.done {
			fr.unmodelled("verifCo: a second coroutine while one is still active")
		}
		co := &coState{toB: make(chan struct{}), toA: make(chan struct{}), kill: make(chan struct{})}
		p.co = co
		f := args[0]
		go func() {
			select {
			case <-co.toB:
			case <-co.kill:
				return
			}
			defer func() {
				if r := recover(); r != nil {
					if _, killed := r.(coKilled); !killed {
						co.panicVal = r
					}
				}
				co.done = true
				select {
				case co.toA <- struct{}{}:
				case <-co.kill:
				}
			}()
			call(p, nil, token.NoPos, f, nil)
		}()
		switchToB(fr, co)
		return nil
	})
	own("verifCoPark", func(fr *frame, fn *ssa.Function, args []value) value {
		co := fr.p.co
		if co == nil || co.done {
			fr.unmodelled("verifCoPark outside a coroutine")
		}
		co.toA <- struct{}{}
		select {
		case <-co.toB:
		case <-co.kill:
			panic(coKilled{})
		}
		return nil
	})
	own("verifCoResume", func(fr *frame, fn *ssa.Function, args []value) value {
		co := fr.p.co
		if co == nil || co.done {
			return nil
		}
		switchToB(fr, co)
		return nil
	})
	own("verifCoDone", func(fr *frame, fn *ssa.Function, args []value) value {
		return fr.p.co == nil || fr.p.co.done
	})
}

type coKilled struct{}

// killCo ends a parked coroutine when its path is over.
func (p *Path) killCo() {
	if p.co != nil && !p.co.done {
		close(p.co.kill)
	}
	p.co = nil
}
