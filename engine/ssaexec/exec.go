// Derived from golang.org/x/tools/go/ssa/interp (BSD-style license, The Go Authors).
//
// Package ssaexec executes go/ssa functions over values that may be symbolic scalars. One execution
// follows one path; symbolic branches are decided by an SMT solver and recorded as decisions so that
// sibling paths can be explored by re-execution (see path.go, explore.go).
package ssaexec

import (
	"fmt"
	"go/token"
	"go/types"
	"runtime"
	"slices"
	"strings"

	"golang.org/x/tools/go/ssa"
)

type continuation int

const (
	kNext continuation = iota
	kReturn
	kJump
)

// targetPanic is a panic of the program under analysis (explicit panic() or a runtime error).
type targetPanic struct {
	v   value  // the panic value as an interface value (iface), if explicit
	msg string // runtime error text, if a runtime error
	pos string
}

func (p targetPanic) String() string {
	if p.msg != "" {
		return p.msg
	}
	return toString(p.v)
}

// abortPath ends the current path without it being a behaviour of the program.
type abortPath struct {
	kind   string // infeasible | unmodelled | unwind | steps | done
	reason string
}

func mustDeref(t types.Type) types.Type {
	if p, ok := t.Underlying().(*types.Pointer); ok {
		return p.Elem()
	}
	panic(fmt.Sprintf("mustDeref: %s is not a pointer", t))
}

type deferred struct {
	fn    value
	args  []value
	instr *ssa.Defer
	tail  *deferred
}

type frame struct {
	p                *Path
	caller           *frame
	fn               *ssa.Function
	block, prevBlock *ssa.BasicBlock
	env              []value             // dynamic values of SSA variables, indexed by idx
	idx              map[ssa.Value]int   // shared, read-only numbering of the function's values
	locals           []value
	defers           *deferred
	result           value
	panicking        bool
	panic            interface{}
	phitemps         []value // temporaries for parallel phi assignment
	curInstr         ssa.Instruction
	unwind           map[ssa.Instruction]int // symbolic decisions per branch instruction in this activation
}

func (fr *frame) get(key ssa.Value) value {
	switch key := key.(type) {
	case nil:
		return nil
	case *ssa.Function, *ssa.Builtin:
		return key
	case *ssa.Const:
		return constValue(key)
	case *ssa.Global:
		return fr.p.globalAddr(key)
	}
	if i, ok := fr.idx[key]; ok {
		return fr.env[i]
	}
	panic(fmt.Sprintf("get: no value for %T: %v in %s", key, key.Name(), fr.fn))
}

func (fr *frame) pos() string {
	if fr == nil || fr.curInstr == nil {
		return ""
	}
	for f := fr; f != nil; f = f.caller {
		if f.curInstr != nil && f.curInstr.Pos() != token.NoPos {
			return f.fn.Prog.Fset.Position(f.curInstr.Pos()).String()
		}
	}
	return fr.fn.String()
}

func (fr *frame) stack() string {
	var b strings.Builder
	n := 0
	for f := fr; f != nil && n < 12; f = f.caller {
		pos := ""
		if f.curInstr != nil && f.curInstr.Pos() != token.NoPos {
			pos = f.fn.Prog.Fset.Position(f.curInstr.Pos()).String()
		}
		fmt.Fprintf(&b, "%s %s; ", f.fn.String(), pos)
		n++
	}
	return b.String()
}

func (fr *frame) runtimePanic(format string, args ...interface{}) {
	panic(targetPanic{msg: "runtime error: " + fmt.Sprintf(format, args...), pos: fr.stack()})
}

func (fr *frame) unmodelled(format string, args ...interface{}) {
	panic(abortPath{kind: "unmodelled", reason: fmt.Sprintf(format, args...) + " @ " + fr.stack()})
}

// runDefer runs a deferred call d. It always returns normally, but may set or clear fr.panic.
func (fr *frame) runDefer(d *deferred) {
	var ok bool
	defer func() {
		if !ok {
			r := recover()
			if a, isAbort := r.(abortPath); isAbort {
				panic(a)
			}
			fr.panicking = true
			fr.panic = r
		}
	}()
	call(fr.p, fr, d.instr.Pos(), d.fn, d.args)
	ok = true
}

func (fr *frame) runDefers() {
	for d := fr.defers; d != nil; d = d.tail {
		fr.runDefer(d)
	}
	fr.defers = nil
	if fr.panicking {
		panic(fr.panic) // new panic, or still panicking
	}
}

func lookupMethod(p *Path, typ types.Type, meth *types.Func) *ssa.Function {
	return p.eng.Prog.LookupMethod(typ, meth.Pkg(), meth.Name())
}

func (fr *frame) derefPtr(v value) *value {
	p := v.(*value)
	if p == nil {
		fr.runtimePanic("invalid memory address or nil pointer dereference")
	}
	return p
}

// visitInstr interprets a single ssa.Instruction within the activation record frame.
func visitInstr(fr *frame, instr ssa.Instruction) continuation {
	fr.curInstr = instr
	fr.p.step(fr)
	switch instr := instr.(type) {
	case *ssa.DebugRef:
		// no-op

	case *ssa.UnOp:
		fr.env[fr.idx[instr]] = unop(fr, instr, fr.get(instr.X))

	case *ssa.BinOp:
		fr.env[fr.idx[instr]] = binop(fr, instr.Op, instr.X.Type(), fr.get(instr.X), fr.get(instr.Y))

	case *ssa.Call:
		fn, args := prepareCall(fr, &instr.Call)
		fr.env[fr.idx[instr]] = call(fr.p, fr, instr.Pos(), fn, args)

	case *ssa.ChangeInterface:
		fr.env[fr.idx[instr]] = fr.get(instr.X)

	case *ssa.ChangeType:
		fr.env[fr.idx[instr]] = fr.get(instr.X) // (can't fail)

	case *ssa.Convert:
		fr.env[fr.idx[instr]] = conv(fr, instr.Type(), instr.X.Type(), fr.get(instr.X))

	case *ssa.SliceToArrayPointer:
		fr.env[fr.idx[instr]] = sliceToArrayPointer(instr.Type(), instr.X.Type(), fr.get(instr.X))

	case *ssa.MakeInterface:
		fr.env[fr.idx[instr]] = iface{t: instr.X.Type(), v: fr.get(instr.X)}

	case *ssa.Extract:
		fr.env[fr.idx[instr]] = fr.get(instr.Tuple).(tuple)[instr.Index]

	case *ssa.Slice:
		fr.env[fr.idx[instr]] = sliceOp(fr, fr.get(instr.X), fr.get(instr.Low), fr.get(instr.High), fr.get(instr.Max))

	case *ssa.Return:
		switch len(instr.Results) {
		case 0:
		case 1:
			fr.result = fr.get(instr.Results[0])
		default:
			var res []value
			for _, r := range instr.Results {
				res = append(res, fr.get(r))
			}
			fr.result = tuple(res)
		}
		fr.block = nil
		return kReturn

	case *ssa.RunDefers:
		fr.runDefers()

	case *ssa.Panic:
		panic(targetPanic{v: fr.get(instr.X), pos: fr.stack()})

	case *ssa.Send:
		chanSend(fr, fr.get(instr.Chan).(*channel), fr.get(instr.X))

	case *ssa.Store:
		if fr.p.race != nil {
			fr.raceNoteCells(mustDeref(instr.Addr.Type()), fr.derefPtr(fr.get(instr.Addr)), true, describeAddr(instr.Addr))
		}
		store(mustDeref(instr.Addr.Type()), fr.derefPtr(fr.get(instr.Addr)), fr.get(instr.Val))

	case *ssa.If:
		succ := 1
		if fr.p.branchValue(fr, instr, fr.get(instr.Cond)) {
			succ = 0
		}
		fr.prevBlock, fr.block = fr.block, fr.block.Succs[succ]
		return kJump

	case *ssa.Jump:
		fr.prevBlock, fr.block = fr.block, fr.block.Succs[0]
		return kJump

	case *ssa.Defer:
		fn, args := prepareCall(fr, &instr.Call)
		defers := &fr.defers
		if instr.DeferStack != nil {
			if into := fr.get(instr.DeferStack); into != nil {
				defers = into.(**deferred)
			}
		}
		*defers = &deferred{fn: fn, args: args, instr: instr, tail: *defers}

	case *ssa.Go:
		// Sequential model: the goroutine runs to completion at the go statement (one legal schedule).
		fn, args := prepareCall(fr, &instr.Call)
		fr.p.stats.GoStmts++
		if r := fr.p.race; r != nil && r.active {
			// lock-set analysis: the goroutine is a logical thread of its own (it holds none of the spawner's locks)
			saved := fr.p.thread
			r.nextThread++
			fr.p.thread = 100 + r.nextThread
			call(fr.p, fr, instr.Pos(), fn, args)
			fr.p.thread = saved
			break
		}
		// fork-join: a function that later waits for its goroutines with (*sync.WaitGroup).Wait spawns them all first;
		// they run (in spawn order) when it reaches the Wait -- the schedule in which the spawning loop has finished
		// before the first goroutine starts (what go's scheduler does for short loops; it is the schedule in which a
		// goroutine sees the final value of a variable the loop keeps writing)
		if fr.p.eng.callsWaitGroupWait(fr.fn) {
			fr.p.goQueue = append(fr.p.goQueue, queuedGo{fn: fn, args: args, pos: instr.Pos(), spawner: fr})
			break
		}
		call(fr.p, fr, instr.Pos(), fn, args)

	case *ssa.MakeChan:
		fr.env[fr.idx[instr]] = &channel{cap: int(fr.concreteInt(fr.get(instr.Size)))}

	case *ssa.Alloc:
		var addr *value
		if instr.Heap {
			addr = new(value)
			fr.env[fr.idx[instr]] = addr
		} else {
			addr = fr.env[fr.idx[instr]].(*value)
		}
		*addr = zero(mustDeref(instr.Type()))

	case *ssa.MakeSlice:
		c := fr.concreteInt(fr.get(instr.Cap))
		l := fr.concreteInt(fr.get(instr.Len))
		if l < 0 || c < l || c > 1<<24 {
			fr.runtimePanic("makeslice: len out of range")
		}
		sl := make([]value, c)
		tElt := instr.Type().Underlying().(*types.Slice).Elem()
		for i := range sl {
			sl[i] = zero(tElt)
		}
		fr.env[fr.idx[instr]] = sl[:l]

	case *ssa.MakeMap:
		fr.env[fr.idx[instr]] = newOmap()

	case *ssa.Range:
		if m, ok := fr.get(instr.X).(*omap); ok && fr.p.race != nil && m != nil {
			fr.raceNote(m, false, "map "+describeAddr(instr.X))
		}
		fr.env[fr.idx[instr]] = rangeIter(fr, fr.get(instr.X), instr.X.Type())

	case *ssa.Next:
		fr.env[fr.idx[instr]] = fr.get(instr.Iter).(iter).next(fr)

	case *ssa.FieldAddr:
		fr.env[fr.idx[instr]] = &(*fr.derefPtr(fr.get(instr.X))).(structure)[instr.Field]

	case *ssa.Field:
		fr.env[fr.idx[instr]] = fr.get(instr.X).(structure)[instr.Field]

	case *ssa.IndexAddr:
		x := fr.get(instr.X)
		switch x := x.(type) {
		case []value:
			idx := fr.index(fr.get(instr.Index), len(x))
			fr.env[fr.idx[instr]] = &x[idx]
		case *value: // *array
			a := (*fr.derefPtr(x)).(array)
			idx := fr.index(fr.get(instr.Index), len(a))
			fr.env[fr.idx[instr]] = &a[idx]
		default:
			panic(fmt.Sprintf("unexpected x type in IndexAddr: %T", x))
		}

	case *ssa.Index:
		x := fr.get(instr.X)
		switch x := x.(type) {
		case array:
			fr.env[fr.idx[instr]] = x[fr.index(fr.get(instr.Index), len(x))]
		case string:
			fr.env[fr.idx[instr]] = x[fr.index(fr.get(instr.Index), len(x))]
		case sym:
			fr.env[fr.idx[instr]] = fr.symStrIndex(x, fr.get(instr.Index))
		default:
			panic(fmt.Sprintf("unexpected x type in Index: %T", x))
		}

	case *ssa.Lookup:
		fr.env[fr.idx[instr]] = lookup(fr, instr, fr.get(instr.X), fr.get(instr.Index))

	case *ssa.MapUpdate:
		m := fr.get(instr.Map).(*omap)
		if m == nil {
			fr.runtimePanic("assignment to entry in nil map")
		}
		key := fr.concreteKey(fr.get(instr.Key))
		if fr.p.race != nil {
			fr.raceNote(m, true, "map "+describeAddr(instr.Map))
		}
		m.set(key, fr.get(instr.Value))

	case *ssa.TypeAssert:
		fr.env[fr.idx[instr]] = typeAssert(fr, instr, fr.get(instr.X).(iface))

	case *ssa.MakeClosure:
		var bindings []value
		for _, binding := range instr.Bindings {
			bindings = append(bindings, fr.get(binding))
		}
		fr.env[fr.idx[instr]] = &closure{instr.Fn.(*ssa.Function), bindings}

	case *ssa.Phi:
		panic("unreachable: phis are processed at block entry")

	case *ssa.Select:
		fr.env[fr.idx[instr]] = selectOp(fr, instr)

	default:
		panic(fmt.Sprintf("unexpected instruction: %T", instr))
	}
	return kNext
}

// prepareCall determines the function value and argument values for a call.
func prepareCall(fr *frame, call *ssa.CallCommon) (fn value, args []value) {
	v := fr.get(call.Value)
	if call.Method == nil {
		fn = v
	} else {
		recv := v.(iface)
		if recv.t == nil {
			if fr.p.eng.isNoopPkg(call.Method.Pkg()) {
				return &noopCall{sig: call.Method.Type().(*types.Signature)}, nil
			}
			fr.runtimePanic("invalid memory address or nil pointer dereference (method %s invoked on nil interface)", call.Method.Name())
		}
		if f := lookupMethod(fr.p, recv.t, call.Method); f == nil {
			panic(fmt.Sprintf("method set for dynamic type %v does not contain %s", recv.t, call.Method))
		} else {
			fn = f
		}
		args = append(args, recv.v)
	}
	for _, arg := range call.Args {
		args = append(args, fr.get(arg))
	}
	return
}

// noopCall stands for a call into a package modelled as doing nothing (logging, metrics).
type noopCall struct{ sig *types.Signature }

func zeroResults(sig *types.Signature) value {
	switch sig.Results().Len() {
	case 0:
		return nil
	case 1:
		return zero(sig.Results().At(0).Type())
	}
	return zero(sig.Results())
}

func call(p *Path, caller *frame, callpos token.Pos, fn value, args []value) value {
	switch fn := fn.(type) {
	case *ssa.Function:
		if fn == nil {
			caller.runtimePanic("invalid memory address or nil pointer dereference (call of nil func)")
		}
		return callSSA(p, caller, callpos, fn, args, nil)
	case *closure:
		return callSSA(p, caller, callpos, fn.Fn, args, fn.Env)
	case *ssa.Builtin:
		return callBuiltin(caller, callpos, fn, args)
	case *noopCall:
		return zeroResults(fn.sig)
	}
	panic(fmt.Sprintf("cannot call %T", fn))
}

func callSSA(p *Path, caller *frame, callpos token.Pos, fn *ssa.Function, args []value, env []value) value {
	fr := &frame{p: p, caller: caller, fn: fn}
	if fn.Parent() == nil {
		info := p.eng.funcInfo(fn)
		if info.intercept != "" {
			target := p.h.Pkg.Func(info.intercept)
			if target == nil && fn.Pkg != nil {
				target = fn.Pkg.Func(info.intercept) // the model may live in the callee's own package (unexported types)
			}
			if target != nil && target != fn {
				p.noteModel(fn)
				return callSSA(p, caller, callpos, target, args, nil)
			}
		}
		if m := info.model; m != nil && fn != p.forceExec {
			p.noteModel(fn)
			return m(caller, fn, args)
		}
		if fn.Blocks == nil {
			panic(abortPath{kind: "unmodelled", reason: "no code for function " + fn.String() + " @ " + caller.stack()})
		}
	}
	if fn.TypeParams().Len() > 0 && len(fn.TypeArgs()) == 0 {
		panic("generic function body reached; build with InstantiateGenerics")
	}
	p.noteExec(fn)
	p.depth++
	if p.depth > 400 {
		panic(abortPath{kind: "steps", reason: "call depth > 400 in " + fn.String()})
	}
	defer func() { p.depth-- }()

	info := p.eng.funcInfo(fn)
	fr.idx = info.idx
	fr.env = make([]value, info.n)
	fr.block = fn.Blocks[0]
	fr.locals = make([]value, len(fn.Locals))
	for i, l := range fn.Locals {
		fr.locals[i] = zero(mustDeref(l.Type()))
		fr.env[fr.idx[l]] = &fr.locals[i]
	}
	for i, p := range fn.Params {
		fr.env[fr.idx[p]] = args[i]
	}
	for i, fv := range fn.FreeVars {
		fr.env[fr.idx[fv]] = env[i]
	}
	for fr.block != nil {
		runFrame(fr)
	}
	return fr.result
}

// runFrame executes SSA instructions starting at fr.block and continuing until a return, a panic,
// or a recovered panic.
func runFrame(fr *frame) {
	defer func() {
		if fr.block == nil {
			return // normal return
		}
		r := recover()
		switch r := r.(type) {
		case abortPath:
			panic(r)
		case engineBug:
			panic(r)
		case coKilled:
			panic(r)
		case targetPanic:
			fr.panic = r
		case runtime.Error:
			// a Go runtime error inside the interpreter while executing target code: treated as the
			// corresponding target runtime error (confirmed or refuted by native replay).
			fr.panic = targetPanic{msg: "runtime error (interpreter): " + r.Error(), pos: fr.stack()}
		default:
			panic(engineBug{fmt.Sprintf("%v @ %s", r, fr.stack())})
		}
		fr.panicking = true
		fr.runDefers()
		fr.block = fr.fn.Recover
	}()

	for {
		nonPhis := executePhis(fr)
		for _, instr := range nonPhis {
			if visitInstr(fr, instr) == kReturn {
				return
			}
		}
	}
}

type engineBug struct{ msg string }

func executePhis(fr *frame) []ssa.Instruction {
	firstNonPhi := -1
	for i, instr := range fr.block.Instrs {
		if _, ok := instr.(*ssa.Phi); !ok {
			firstNonPhi = i
			break
		}
	}
	nonPhis := fr.block.Instrs[firstNonPhi:]
	if firstNonPhi > 0 {
		phis := fr.block.Instrs[:firstNonPhi]
		predIndex := slices.Index(fr.block.Preds, fr.prevBlock)
		fr.phitemps = fr.phitemps[:0]
		for _, phi := range phis {
			phi := phi.(*ssa.Phi)
			fr.phitemps = append(fr.phitemps, fr.get(phi.Edges[predIndex]))
		}
		for i, phi := range phis {
			fr.env[fr.idx[phi.(*ssa.Phi)]] = fr.phitemps[i]
		}
	}
	return nonPhis
}

// doRecover implements the recover() built-in.
func doRecover(caller *frame) value {
	if caller != nil && !caller.panicking && caller.caller != nil && caller.caller.panicking {
		caller.caller.panicking = false
		p := caller.caller.panic
		caller.caller.panic = nil
		switch p := p.(type) {
		case targetPanic:
			if p.msg != "" {
				return caller.p.eng.runtimeErrorValue(p.msg)
			}
			return p.v
		default:
			panic(fmt.Sprintf("unexpected panic type %T in target call to recover()", p))
		}
	}
	return iface{}
}

// queuedGo is a goroutine of a fork-join function that has been spawned and not yet run.
type queuedGo struct {
	fn      value
	args    []value
	pos     token.Pos
	spawner *frame
}

// runQueuedGoroutines runs the goroutines spawned so far (and those they spawn).
func (p *Path) runQueuedGoroutines(fr *frame) {
	for len(p.goQueue) > 0 {
		g := p.goQueue[0]
		p.goQueue = p.goQueue[1:]
		call(p, fr, g.pos, g.fn, g.args)
	}
}

// callsWaitGroupWait reports whether fn's body contains a call of (*sync.WaitGroup).Wait (cached).
func (e *Engine) callsWaitGroupWait(fn *ssa.Function) bool {
	e.mu.Lock()
	v, ok := e.waitFns[fn]
	e.mu.Unlock()
	if ok {
		return v
	}
	v = false
	for _, b := range fn.Blocks {
		for _, in := range b.Instrs {
			if c, isCall := in.(ssa.CallInstruction); isCall {
				if callee := c.Common().StaticCallee(); callee != nil && callee.String() == "(*sync.WaitGroup).Wait" {
					v = true
				}
			}
		}
	}
	e.mu.Lock()
	e.waitFns[fn] = v
	e.mu.Unlock()
	return v
}
