package ssaexec

import (
	"bytes"
	"crypto/sha256"
	"encoding/base32"
	"strings"

	"golang.org/x/tools/go/ssa"
)

// internal/bytealg (assembly in the real runtime), hashing and base32: evaluated natively on concrete bytes.
func registerBytesModels(e *Engine) {
	bs := func(fr *frame, v value) []byte { return fr.concreteBytes(v, "bytes") }
	e.models["internal/bytealg.IndexByte"] = func(fr *frame, fn *ssa.Function, args []value) value {
		return bytes.IndexByte(bs(fr, args[0]), byte(fr.concreteInt(args[1])))
	}
	e.models["internal/bytealg.IndexByteString"] = func(fr *frame, fn *ssa.Function, args []value) value {
		return strings.IndexByte(fr.concreteString(args[0]), byte(fr.concreteInt(args[1])))
	}
	e.models["internal/bytealg.Equal"] = func(fr *frame, fn *ssa.Function, args []value) value {
		return bytes.Equal(bs(fr, args[0]), bs(fr, args[1]))
	}
	e.models["internal/bytealg.Compare"] = func(fr *frame, fn *ssa.Function, args []value) value {
		return bytes.Compare(bs(fr, args[0]), bs(fr, args[1]))
	}
	e.models["internal/bytealg.Count"] = func(fr *frame, fn *ssa.Function, args []value) value {
		return bytes.Count(bs(fr, args[0]), []byte{byte(fr.concreteInt(args[1]))})
	}
	e.models["internal/bytealg.CountString"] = func(fr *frame, fn *ssa.Function, args []value) value {
		return strings.Count(fr.concreteString(args[0]), string([]byte{byte(fr.concreteInt(args[1]))}))
	}
	e.models["internal/bytealg.Index"] = func(fr *frame, fn *ssa.Function, args []value) value {
		return bytes.Index(bs(fr, args[0]), bs(fr, args[1]))
	}
	e.models["internal/bytealg.IndexString"] = func(fr *frame, fn *ssa.Function, args []value) value {
		return strings.Index(fr.concreteString(args[0]), fr.concreteString(args[1]))
	}
	e.models["internal/bytealg.MakeNoZero"] = func(fr *frame, fn *ssa.Function, args []value) value {
		n := int(fr.concreteInt(args[0]))
		out := make([]value, n)
		for i := range out {
			out[i] = uint8(0)
		}
		return out
	}
	e.models["crypto/sha256.Sum256"] = func(fr *frame, fn *ssa.Function, args []value) value {
		sum := sha256.Sum256(bs(fr, args[0]))
		out := make(array, len(sum))
		for i, b := range sum {
			out[i] = b
		}
		return out
	}
	// base32.StdEncoding is a package variable initialised in init: only the standard alphabet is supported
	e.models["(*encoding/base32.Encoding).EncodeToString"] = func(fr *frame, fn *ssa.Function, args []value) value {
		return base32.StdEncoding.EncodeToString(bs(fr, args[1]))
	}
	for name, msg := range map[string]string{"io.EOF": "EOF", "io.ErrUnexpectedEOF": "unexpected EOF", "io.ErrShortWrite": "short write",
		"io.ErrShortBuffer": "short buffer", "io.ErrNoProgress": "multiple Read calls return no data or error",
		"bytes.ErrTooLarge": "bytes.Buffer: too large", "io.ErrClosedPipe": "io: read/write on closed pipe"} {
		msg := msg
		globalModels[name] = func(e *Engine, g *ssa.Global) value { return e.newErrorString(msg) }
	}
	globalModels["encoding/base32.StdEncoding"] = func(e *Engine, g *ssa.Global) value {
		cell := zero(mustDeref(mustDeref(g.Type())))
		return &cell
	}
}
