package ssaexec

import (
	"fmt"
	"go/token"
	"go/types"
	"strings"

	"golang.org/x/tools/go/ssa"

	"gosym/smt"
)

type fmtStringer struct{ s string }

func (f fmtStringer) String() string { return f.s }

func (fr *frame) methodOf(t types.Type, name string) *ssa.Function {
	ms := fr.p.eng.Prog.MethodSets.MethodSet(t)
	for i := 0; i < ms.Len(); i++ {
		sel := ms.At(i)
		if sel.Obj().Name() == name {
			return fr.p.eng.Prog.MethodValue(sel)
		}
	}
	return nil
}

// callStringMethod calls v.<name>() string if the dynamic type has such a method.
func (fr *frame) callStringMethod(a iface, name string) (value, bool) {
	m := fr.methodOf(a.t, name)
	if m == nil {
		return nil, false
	}
	sig := m.Signature
	if sig.Params().Len() != 0 || sig.Results().Len() != 1 || basicKind(sig.Results().At(0).Type()) != types.String {
		return nil, false
	}
	if p, ok := a.v.(*value); ok && p == nil {
		return "<nil>", true
	}
	return call(fr.p, fr, token.NoPos, m, []value{a.v}), true
}

// renderOpaque prints an aggregate roughly like %v and tags the text as not exact.
func (fr *frame) renderOpaque(v value) string {
	return opaqueMark + toString(v)
}

// fmtArg converts one interface argument into a native Go value for the real fmt package.
// A symbolic argument is returned as sym.
func (fr *frame) fmtArg(a iface) interface{} {
	if a.t == nil {
		return nil
	}
	if s, ok := a.v.(sym); ok {
		return s
	}
	if r, ok := fr.callStringMethod(a, "Error"); ok {
		if s, isStr := r.(string); isStr {
			return fmtStringer{s}
		}
		return r
	}
	if r, ok := fr.callStringMethod(a, "String"); ok {
		if s, isStr := r.(string); isStr {
			return fmtStringer{s}
		}
		return r
	}
	switch v := a.v.(type) {
	case bool, int, int8, int16, int32, int64, uint, uint8, uint16, uint32, uint64, uintptr, float32, float64, string:
		return v
	case []value:
		// slices of strings / stringers / scalars
		out := make([]interface{}, 0, len(v))
		et := a.t.Underlying().(*types.Slice).Elem()
		for _, e := range v {
			x := fr.fmtArg(iface{t: et, v: e})
			if _, isSym := x.(sym); isSym {
				return fmtStringer{fr.renderOpaque(v)}
			}
			out = append(out, x)
		}
		return out
	case *omap:
		mt := a.t.Underlying().(*types.Map)
		if basicKind(mt.Key()) == types.String {
			vals := map[string]interface{}{}
			if v != nil {
				for _, e := range v.ents {
					if e.dead {
						continue
					}
					k := e.k.(string)
					if st, ok := mt.Elem().Underlying().(*types.Struct); ok && st.NumFields() == 0 {
						vals[k] = struct{}{}
					} else {
						vals[k] = fr.fmtArg(iface{t: mt.Elem(), v: e.v})
					}
				}
			}
			return vals
		}
	}
	return fmtStringer{fr.renderOpaque(a.v)}
}

func (fr *frame) ifaceArgs(v value) []iface {
	sl, _ := v.([]value)
	out := make([]iface, len(sl))
	for i, e := range sl {
		out[i] = e.(iface)
	}
	return out
}

// sprintf implements fmt.Sprintf over engine values; returns a string or a symbolic string.
func (fr *frame) sprintf(format string, args []iface) value {
	natives := make([]interface{}, len(args))
	anySym := false
	for i, a := range args {
		natives[i] = fr.fmtArg(a)
		if _, ok := natives[i].(sym); ok {
			anySym = true
		}
	}
	if !anySym {
		return fmt.Sprintf(format, natives...)
	}
	// symbolic: only plain %s %v %d %q-free formats over strings and integers are modelled exactly
	st := fr.p.st
	var parts []*smt.Term
	argi := 0
	exact := true
	i := 0
	for i < len(format) {
		j := strings.IndexByte(format[i:], '%')
		if j < 0 {
			parts = append(parts, st.StrC(format[i:]))
			break
		}
		parts = append(parts, st.StrC(format[i:i+j]))
		i += j
		if i+1 >= len(format) {
			exact = false
			break
		}
		verb := format[i+1]
		i += 2
		if verb == '%' {
			parts = append(parts, st.StrC("%"))
			continue
		}
		if argi >= len(natives) {
			exact = false
			break
		}
		a := natives[argi]
		argi++
		switch x := a.(type) {
		case sym:
			switch {
			case x.K == types.String && (verb == 's' || verb == 'v'):
				parts = append(parts, x.T)
			case kindWidth(x.K) > 0 && (verb == 'd' || verb == 'v') && !kindSigned(x.K):
				parts = append(parts, st.StrOp(smt.OStrFromInt, smt.Str, st.Bv2Nat(x.T)))
			default:
				exact = false
			}
		default:
			if strings.IndexByte("svdqtxT", verb) < 0 {
				exact = false
			} else {
				parts = append(parts, st.StrC(fmt.Sprintf("%"+string(verb), a)))
			}
		}
		if !exact {
			break
		}
	}
	if !exact || argi != len(natives) {
		fr.p.sideTable["opaque-format"] = true
		return opaqueMark + format
	}
	return fromTerm(st.StrConcat(parts...), types.String)
}

func registerFmtModels(e *Engine) {
	e.models["fmt.Sprintf"] = func(fr *frame, fn *ssa.Function, args []value) value {
		return fr.sprintf(fr.concreteString(args[0]), fr.ifaceArgs(args[1]))
	}
	e.models["fmt.Sprint"] = func(fr *frame, fn *ssa.Function, args []value) value {
		as := fr.ifaceArgs(args[0])
		natives := make([]interface{}, len(as))
		for i, a := range as {
			natives[i] = fr.fmtArg(a)
			if _, ok := natives[i].(sym); ok {
				return opaqueMark + "Sprint"
			}
		}
		return fmt.Sprint(natives...)
	}
	e.models["fmt.Sprintln"] = func(fr *frame, fn *ssa.Function, args []value) value {
		as := fr.ifaceArgs(args[0])
		natives := make([]interface{}, len(as))
		for i, a := range as {
			natives[i] = fr.fmtArg(a)
			if _, ok := natives[i].(sym); ok {
				return opaqueMark + "Sprintln"
			}
		}
		return fmt.Sprintln(natives...)
	}
	e.models["fmt.Errorf"] = func(fr *frame, fn *ssa.Function, args []value) value {
		format := fr.concreteString(args[0])
		as := fr.ifaceArgs(args[1])
		// locate %w
		wrapIdx := -1
		argi := 0
		f2 := []byte(format)
		for i := 0; i+1 < len(f2); i++ {
			if f2[i] != '%' {
				continue
			}
			j := i + 1
			for j < len(f2) && strings.IndexByte("+-# 0123456789.", f2[j]) >= 0 {
				j++
			}
			if j >= len(f2) {
				break
			}
			if f2[j] == '%' {
				i = j
				continue
			}
			if f2[j] == 'w' {
				if wrapIdx < 0 {
					wrapIdx = argi
				}
				f2[j] = 'v'
			}
			argi++
			i = j
		}
		msg := fr.sprintf(string(f2), as)
		msgStr, ok := msg.(string)
		if !ok {
			msgStr = opaqueMark + "symbolic error text"
		}
		if wrapIdx >= 0 && wrapIdx < len(as) && as[wrapIdx].t != nil && types.Implements(as[wrapIdx].t, errorIface.Underlying().(*types.Interface)) {
			return fr.p.eng.newWrapError(msgStr, as[wrapIdx])
		}
		return fr.p.eng.newErrorString(msgStr)
	}
	for _, n := range []string{"fmt.Println", "fmt.Printf", "fmt.Print", "fmt.Fprintf", "fmt.Fprintln", "fmt.Fprint"} {
		name := n
		e.models[name] = func(fr *frame, fn *ssa.Function, args []value) value {
			return zeroResults(fn.Signature)
		}
	}
}
