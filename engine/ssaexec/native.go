package ssaexec

import (
	"fmt"
	"go/types"
	"reflect"
	"strings"

	"golang.org/x/tools/go/ssa"

	"gosym/smt"
)

// opaqueMark tags strings whose exact text the engine did not compute (formatting of aggregates).
// Branching on such a string aborts the path as unmodelled.
const opaqueMark = "\x00OPAQUE\x00"

func hasOpaque(s string) bool { return strings.Contains(s, opaqueMark) }

var errorIface = types.Universe.Lookup("error").Type()

// toNative converts an engine value into a reflect.Value of Go type rt. Symbolic scalars are
// concretised (forking); aggregates holding symbols are rejected.
func (fr *frame) toNative(v value, rt reflect.Type) reflect.Value {
	switch rt.Kind() {
	case reflect.String:
		return reflect.ValueOf(fr.concreteString(v)).Convert(rt)
	case reflect.Bool:
		return reflect.ValueOf(fr.concreteBool(v)).Convert(rt)
	case reflect.Int, reflect.Int8, reflect.Int16, reflect.Int32, reflect.Int64:
		return reflect.ValueOf(fr.concreteInt(v)).Convert(rt)
	case reflect.Uint, reflect.Uint8, reflect.Uint16, reflect.Uint32, reflect.Uint64, reflect.Uintptr:
		return reflect.ValueOf(uint64(fr.concreteInt(v))).Convert(rt)
	case reflect.Float32, reflect.Float64:
		return reflect.ValueOf(v).Convert(rt)
	case reflect.Slice:
		sl, ok := v.([]value)
		if !ok {
			panic(fmt.Sprintf("toNative: want slice, have %T", v))
		}
		if sl == nil {
			return reflect.Zero(rt)
		}
		out := reflect.MakeSlice(rt, len(sl), len(sl))
		for i, e := range sl {
			if isSym(e) && rt.Elem().Kind() == reflect.Uint8 {
				fr.unmodelled("symbolic byte in slice passed to a native model")
			}
			out.Index(i).Set(fr.toNative(e, rt.Elem()))
		}
		return out
	case reflect.Array:
		arr := v.(array)
		out := reflect.New(rt).Elem()
		for i, e := range arr {
			out.Index(i).Set(fr.toNative(e, rt.Elem()))
		}
		return out
	case reflect.Ptr:
		p := v.(*value)
		if p == nil {
			return reflect.Zero(rt)
		}
		out := reflect.New(rt.Elem())
		out.Elem().Set(fr.toNative(*p, rt.Elem()))
		return out
	case reflect.Struct:
		st := v.(structure)
		out := reflect.New(rt).Elem()
		for i := 0; i < rt.NumField(); i++ {
			if !rt.Field(i).IsExported() {
				fr.unmodelled("native bridge into struct %s with unexported field", rt)
			}
			out.Field(i).Set(fr.toNative(st[i], rt.Field(i).Type))
		}
		return out
	}
	panic(fmt.Sprintf("toNative: unsupported kind %s", rt.Kind()))
}

// fromNative converts a native Go value into an engine value of go/types type t.
func (fr *frame) fromNative(rv reflect.Value, t types.Type) value {
	if types.Identical(t, errorIface) {
		if rv.IsNil() {
			return iface{}
		}
		return fr.p.eng.newErrorString(rv.Interface().(error).Error())
	}
	switch u := t.Underlying().(type) {
	case *types.Basic:
		switch u.Kind() {
		case types.Bool:
			return rv.Bool()
		case types.String:
			return rv.String()
		case types.Int:
			return int(rv.Int())
		case types.Int8:
			return int8(rv.Int())
		case types.Int16:
			return int16(rv.Int())
		case types.Int32:
			return int32(rv.Int())
		case types.Int64:
			return rv.Int()
		case types.Uint:
			return uint(rv.Uint())
		case types.Uint8:
			return uint8(rv.Uint())
		case types.Uint16:
			return uint16(rv.Uint())
		case types.Uint32:
			return uint32(rv.Uint())
		case types.Uint64:
			return rv.Uint()
		case types.Uintptr:
			return uintptr(rv.Uint())
		case types.Float32:
			return float32(rv.Float())
		case types.Float64:
			return rv.Float()
		}
	case *types.Slice:
		if rv.IsNil() {
			return []value(nil)
		}
		out := make([]value, rv.Len())
		for i := range out {
			out[i] = fr.fromNative(rv.Index(i), u.Elem())
		}
		return out
	case *types.Array:
		out := make(array, rv.Len())
		for i := range out {
			out[i] = fr.fromNative(rv.Index(i), u.Elem())
		}
		return out
	case *types.Pointer:
		if rv.IsNil() {
			return (*value)(nil)
		}
		cell := fr.fromNative(rv.Elem(), u.Elem())
		return &cell
	case *types.Struct:
		out := make(structure, u.NumFields())
		for i := range out {
			out[i] = fr.fromNative(rv.Field(i), u.Field(i).Type())
		}
		return out
	}
	panic(fmt.Sprintf("fromNative: unsupported type %s", t))
}

// native registers a model that calls the real Go function f on concrete arguments.
func (e *Engine) native(name string, f interface{}) {
	fv := reflect.ValueOf(f)
	ft := fv.Type()
	e.models[name] = func(fr *frame, fn *ssa.Function, args []value) value {
		if len(args) != ft.NumIn() && !ft.IsVariadic() {
			panic(fmt.Sprintf("native model %s: %d args for %d params", name, len(args), ft.NumIn()))
		}
		// finite-domain symbolic scalar arguments and a scalar result: lift through the ite-trees
		if r, ok := fr.liftNative(fn, fv, ft, args); ok {
			return r
		}
		// genuinely symbolic strings: a dedicated SMT model, if there is one
		if sm, ok := e.symModels[name]; ok {
			for _, a := range args {
				if s, isSym := a.(sym); isSym && s.K == types.String && smt.LeafCount(s.T, 64) == 0 {
					return sm(fr, fn, args)
				}
			}
		}
		in := make([]reflect.Value, len(args))
		for i, a := range args {
			in[i] = fr.toNative(a, ft.In(i))
		}
		var out []reflect.Value
		if ft.IsVariadic() {
			out = fv.CallSlice(in)
		} else {
			out = fv.Call(in)
		}
		res := fn.Signature.Results()
		switch res.Len() {
		case 0:
			return nil
		case 1:
			return fr.fromNative(out[0], res.At(0).Type())
		}
		tup := make(tuple, res.Len())
		for i := range tup {
			tup[i] = fr.fromNative(out[i], res.At(i).Type())
		}
		return tup
	}
}

// ---------------------------------------------------------------- error values

func (e *Engine) namedType(pkgPath, name string) types.Type {
	pkg := e.Prog.ImportedPackage(pkgPath)
	if pkg == nil {
		panic(abortPath{kind: "unmodelled", reason: "package " + pkgPath + " not part of the program"})
	}
	m := pkg.Type(name)
	if m == nil {
		panic(abortPath{kind: "unmodelled", reason: "type " + pkgPath + "." + name + " not found"})
	}
	return m.Type()
}

// newErrorString builds an error value of dynamic type *errors.errorString.
func (e *Engine) newErrorString(msg string) value {
	t := e.namedType("errors", "errorString")
	var cell value = structure{msg}
	return iface{t: types.NewPointer(t), v: &cell}
}

// newWrapError builds an error of dynamic type *fmt.wrapError.
func (e *Engine) newWrapError(msg string, inner value) value {
	t := e.namedType("fmt", "wrapError")
	var cell value = structure{msg, inner}
	return iface{t: types.NewPointer(t), v: &cell}
}


// liftNative evaluates a native function with a single scalar result over finite-domain symbolic
// arguments by mapping over the leaves of their ite-trees (no forking, no string theory).
func (fr *frame) liftNative(fn *ssa.Function, fv reflect.Value, ft reflect.Type, args []value) (value, bool) {
	if ft.NumOut() != 1 || ft.IsVariadic() {
		return nil, false
	}
	rk := basicKind(fn.Signature.Results().At(0).Type())
	if rk == types.Invalid || !(rk == types.Bool || rk == types.String || kindWidth(rk) > 0) {
		return nil, false
	}
	anySym := false
	prod := 1
	for _, a := range args {
		if s, ok := a.(sym); ok {
			n := smt.LeafCount(s.T, 64)
			if n == 0 {
				return nil, false
			}
			anySym = true
			prod *= n
			if prod > 256 {
				return nil, false
			}
		} else if _, isSlice := a.([]value); isSlice {
			return nil, false
		}
	}
	if !anySym {
		return nil, false
	}
	st := fr.p.st
	cur := make([]value, len(args))
	var rec func(i int) *smt.Term
	rec = func(i int) *smt.Term {
		if i == len(args) {
			in := make([]reflect.Value, len(cur))
			for j, a := range cur {
				in[j] = fr.toNative(a, ft.In(j))
			}
			out := fv.Call(in)
			return fr.toSym(fr.fromNative(out[0], fn.Signature.Results().At(0).Type()), rk).T
		}
		s, ok := args[i].(sym)
		if !ok {
			cur[i] = args[i]
			return rec(i + 1)
		}
		return st.MapLeaves(s.T, func(l *smt.Term) *smt.Term {
			cur[i] = fromTerm(l, s.K)
			return rec(i + 1)
		})
	}
	return fromTerm(rec(0), rk), true
}
