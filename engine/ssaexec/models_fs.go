package ssaexec

import (
	"go/types"
	"path/filepath"
	"sort"
	"strings"

	"golang.org/x/tools/go/ssa"
)

// An in-memory file system per path for the few os / io/ioutil calls galaxy's state-file code makes.
// The harness creates its fixture through the same calls (os.MkdirAll, ioutil.WriteFile), so the native
// replay works on real temporary directories with the same content.
type memFile struct {
	dir     bool
	content []byte
}

func (p *Path) fs() map[string]*memFile {
	m, _ := p.sideTable["fs"].(map[string]*memFile)
	if m == nil {
		m = map[string]*memFile{}
		p.sideTable["fs"] = m
	}
	return m
}

const notExistMsg = "no such file or directory"

func registerFSModels(e *Engine) {
	e.native("path/filepath.Join", filepath.Join)
	e.native("path/filepath.Base", filepath.Base)
	e.native("path/filepath.Dir", filepath.Dir)
	e.native("path/filepath.Clean", filepath.Clean)
	notExist := func(fr *frame, op, path string) value {
		return fr.p.eng.newErrorString(op + " " + path + ": " + notExistMsg)
	}
	e.models["os.MkdirAll"] = func(fr *frame, fn *ssa.Function, args []value) value {
		path := filepath.Clean(fr.concreteString(args[0]))
		fsys := fr.p.fs()
		for p := path; p != "/" && p != "."; p = filepath.Dir(p) {
			if f, ok := fsys[p]; ok && !f.dir {
				return fr.p.eng.newErrorString("mkdir " + p + ": not a directory")
			}
			fsys[p] = &memFile{dir: true}
		}
		return iface{}
	}
	e.models["os.MkdirTemp"] = func(fr *frame, fn *ssa.Function, args []value) value {
		n, _ := fr.p.sideTable["fs:tmp"].(int)
		fr.p.sideTable["fs:tmp"] = n + 1
		path := "/verif-tmp/" + strings.TrimSuffix(fr.concreteString(args[1]), "*") + string(rune('a'+n))
		fr.p.fs()[path] = &memFile{dir: true}
		return tuple{path, iface{}}
	}
	e.models["os.RemoveAll"] = func(fr *frame, fn *ssa.Function, args []value) value {
		path := filepath.Clean(fr.concreteString(args[0]))
		for p := range fr.p.fs() {
			if p == path || strings.HasPrefix(p, path+"/") {
				delete(fr.p.fs(), p)
			}
		}
		return iface{}
	}
	writeFile := func(fr *frame, fn *ssa.Function, args []value) value {
		path := filepath.Clean(fr.concreteString(args[0]))
		fsys := fr.p.fs()
		if d, ok := fsys[filepath.Dir(path)]; !ok || !d.dir {
			return notExist(fr, "open", path)
		}
		fsys[path] = &memFile{content: fr.concreteBytes(args[1], "file content")}
		return iface{}
	}
	e.models["os.WriteFile"] = writeFile
	e.models["io/ioutil.WriteFile"] = writeFile
	readFile := func(fr *frame, fn *ssa.Function, args []value) value {
		path := filepath.Clean(fr.concreteString(args[0]))
		f, ok := fr.p.fs()[path]
		if !ok {
			return tuple{[]value(nil), notExist(fr, "open", path)}
		}
		if f.dir {
			return tuple{[]value(nil), fr.p.eng.newErrorString("read " + path + ": is a directory")}
		}
		return tuple{bytesVal(append([]byte{}, f.content...)), iface{}}
	}
	e.models["os.ReadFile"] = readFile
	e.models["io/ioutil.ReadFile"] = readFile
	e.models["os.Remove"] = func(fr *frame, fn *ssa.Function, args []value) value {
		path := filepath.Clean(fr.concreteString(args[0]))
		fsys := fr.p.fs()
		f, ok := fsys[path]
		if !ok {
			return notExist(fr, "remove", path)
		}
		if f.dir {
			for p := range fsys {
				if strings.HasPrefix(p, path+"/") {
					return fr.p.eng.newErrorString("remove " + path + ": directory not empty")
				}
			}
		}
		delete(fsys, path)
		return iface{}
	}
	e.models["os.IsNotExist"] = func(fr *frame, fn *ssa.Function, args []value) value {
		err := args[0].(iface)
		if err.t == nil {
			return false
		}
		msg, ok := fr.callStringMethod(err, "Error")
		s, isStr := msg.(string)
		return ok && isStr && strings.HasSuffix(s, notExistMsg)
	}
	// ReadDir returns values of the harness type verifFileInfo (name string; dir bool), which implements os.FileInfo
	readDir := func(fr *frame, fn *ssa.Function, args []value) value {
		path := filepath.Clean(fr.concreteString(args[0]))
		fsys := fr.p.fs()
		d, ok := fsys[path]
		if !ok {
			return tuple{[]value(nil), notExist(fr, "open", path)}
		}
		if !d.dir {
			return tuple{[]value(nil), fr.p.eng.newErrorString("readdirent " + path + ": not a directory")}
		}
		var names []string
		for p := range fsys {
			if filepath.Dir(p) == path && p != path {
				names = append(names, filepath.Base(p))
			}
		}
		sort.Strings(names)
		var fiType types.Type
		for f := fr; f != nil && fiType == nil; f = f.caller {
			if f.fn.Pkg != nil && fr.p.eng.isOwnPkg(f.fn.Pkg.Pkg) {
				if m := f.fn.Pkg.Type("verifFileInfo"); m != nil {
					fiType = m.Type()
				}
			}
		}
		if fiType == nil {
			fr.unmodelled("ReadDir: the calling package defines no harness type verifFileInfo")
		}
		out := make([]value, 0, len(names))
		for _, n := range names {
			out = append(out, iface{t: fiType, v: structure{n, fsys[filepath.Join(path, n)].dir}})
		}
		return tuple{out, iface{}}
	}
	e.models["io/ioutil.ReadDir"] = readDir
	e.models["os.Chmod"] = func(fr *frame, fn *ssa.Function, args []value) value { return iface{} }
	e.models["os.Setenv"] = func(fr *frame, fn *ssa.Function, args []value) value {
		fr.p.sideTable["env:"+fr.concreteString(args[0])] = fr.concreteString(args[1])
		return iface{}
	}
	e.models["os.Unsetenv"] = func(fr *frame, fn *ssa.Function, args []value) value {
		delete(fr.p.sideTable, "env:"+fr.concreteString(args[0]))
		return iface{}
	}
}
