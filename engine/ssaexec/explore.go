package ssaexec

import (
	"fmt"
	"go/token"
	"go/types"
	"os"
	"runtime/debug"
	"sort"
	"strings"
	"sync"
	"time"

	"golang.org/x/tools/go/packages"
	"golang.org/x/tools/go/ssa"
	"golang.org/x/tools/go/ssa/ssautil"

	"gosym/smt"
)

const ownModule = "tkestack.io/galaxy"

type modelFn func(fr *frame, fn *ssa.Function, args []value) value

// Harness is one entry point VerifCxx_<tier>_<name> found in an overlay file.
type Harness struct {
	Name string
	Prop string
	Tier string // "q" (quick and thorough) or "t" (thorough only)
	Fn   *ssa.Function
	Pkg  *ssa.Package
	File string
	AssertIDs []string // verifAssert ids statically present in the harness' package overlay functions it can reach
}

type Engine struct {
	Prog     *ssa.Program
	Pkgs     []*packages.Package
	Harnesses []*Harness
	RunInit  map[string]bool // dependency packages whose init is executed
	KnownIDs map[string]bool // known-finding ids listed in known_findings.txt
	Tier     int
	Solver   string
	TimeoutMs int
	Workers  int
	Verbose  bool

	Intercepts map[string]string // callee name -> harness function (same package as the running harness) executed instead
	models     map[string]modelFn
	symModels  map[string]modelFn // SMT models of string functions for genuinely symbolic arguments
	noopPrefix []string
	initStores map[*ssa.Global]bool
	waitFns    map[*ssa.Function]bool

	fnInfos  sync.Map // *ssa.Function -> *funcInfo
	mu       sync.Mutex
	execFns  map[*ssa.Function]int
	modelFns map[string]int
	LoadSeconds float64
}

type Config struct {
	RepoDir  string
	Overlay  map[string][]byte
	Patterns []string
}

func Load(cfg Config) (*Engine, error) {
	t0 := time.Now()
	if cfg.RepoDir != "" {
		RepoPrefix = strings.TrimSuffix(cfg.RepoDir, "/") + "/"
	}
	pcfg := &packages.Config{
		Mode:    packages.LoadAllSyntax,
		Dir:     cfg.RepoDir,
		Overlay: cfg.Overlay,
		Env:     append(os.Environ(), "GOFLAGS=-mod=mod", "GOPROXY=off", "GOSUMDB=off", "GOTOOLCHAIN=local"),
	}
	pkgs, err := packages.Load(pcfg, cfg.Patterns...)
	if err != nil {
		return nil, err
	}
	var errs []string
	packages.Visit(pkgs, nil, func(p *packages.Package) {
		if strings.HasPrefix(p.PkgPath, ownModule) {
			for _, e := range p.Errors {
				errs = append(errs, e.Error())
			}
		}
	})
	if len(errs) > 0 {
		return nil, fmt.Errorf("package errors:\n%s", strings.Join(errs, "\n"))
	}
	prog, _ := ssautil.AllPackages(pkgs, ssa.InstantiateGenerics|ssa.SanityCheckFunctions*0)
	prog.Build()
	e := &Engine{Prog: prog, Pkgs: pkgs, RunInit: map[string]bool{}, KnownIDs: map[string]bool{},
		Solver: "z3", TimeoutMs: 180000, Workers: 16,
		Intercepts: map[string]string{}, models: map[string]modelFn{}, symModels: map[string]modelFn{}, execFns: map[*ssa.Function]int{}, modelFns: map[string]int{},
		initStores: map[*ssa.Global]bool{}, waitFns: map[*ssa.Function]bool{}}
	registerModels(e)
	// globals with an initialiser
	for _, pkg := range prog.AllPackages() {
		for name, m := range pkg.Members {
			f, ok := m.(*ssa.Function)
			if !ok || !(name == "init" || strings.HasPrefix(name, "init#")) {
				continue
			}
			for _, b := range f.Blocks {
				for _, in := range b.Instrs {
					if s, ok := in.(*ssa.Store); ok {
						if g, ok := s.Addr.(*ssa.Global); ok {
							e.initStores[g] = true
						}
					}
				}
			}
		}
	}
	// harness discovery
	overlayFiles := map[string]bool{}
	for f := range cfg.Overlay {
		overlayFiles[f] = true
	}
	for _, pkg := range prog.AllPackages() {
		if !e.isOwnPkg(pkg.Pkg) {
			continue
		}
		for name, m := range pkg.Members {
			f, ok := m.(*ssa.Function)
			if !ok || !strings.HasPrefix(name, "Verif") {
				continue
			}
			// VerifC20_q_name
			parts := strings.SplitN(strings.TrimPrefix(name, "Verif"), "_", 3)
			if len(parts) != 3 || (parts[1] != "q" && parts[1] != "t") {
				continue
			}
			file := prog.Fset.Position(f.Pos()).Filename
			e.Harnesses = append(e.Harnesses, &Harness{Name: name, Prop: parts[0], Tier: parts[1], Fn: f, Pkg: pkg, File: file})
		}
	}
	sort.Slice(e.Harnesses, func(i, j int) bool { return e.Harnesses[i].Name < e.Harnesses[j].Name })
	for _, h := range e.Harnesses {
		h.AssertIDs = e.staticAssertIDs(h)
	}
	e.LoadSeconds = time.Since(t0).Seconds()
	return e, nil
}

// staticAssertIDs lists the constant ids of verifAssert calls reachable from the harness within overlay code.
func (e *Engine) staticAssertIDs(h *Harness) []string {
	seen := map[*ssa.Function]bool{}
	ids := map[string]bool{}
	var visit func(f *ssa.Function)
	visit = func(f *ssa.Function) {
		if f == nil || seen[f] || f.Blocks == nil {
			return
		}
		seen[f] = true
		file := e.Prog.Fset.Position(f.Pos()).Filename
		if !strings.Contains(file, "zz_verif") && f.Parent() == nil {
			return
		}
		for _, b := range f.Blocks {
			for _, in := range b.Instrs {
				switch in := in.(type) {
				case ssa.CallInstruction:
					c := in.Common()
					if callee := c.StaticCallee(); callee != nil {
						if callee.Name() == "verifAssert" && len(c.Args) >= 1 {
							if k, ok := c.Args[0].(*ssa.Const); ok {
								ids[constValue(k).(string)] = true
							}
						}
						visit(callee)
					}
				case *ssa.MakeClosure:
					visit(in.Fn.(*ssa.Function))
				}
			}
		}
		for _, af := range f.AnonFuncs {
			visit(af)
		}
	}
	visit(h.Fn)
	var out []string
	for id := range ids {
		out = append(out, id)
	}
	sort.Strings(out)
	return out
}

func (e *Engine) isOwnPkg(p *types.Package) bool {
	return p != nil && (p.Path() == ownModule || strings.HasPrefix(p.Path(), ownModule+"/"))
}

func (e *Engine) isNoopPkg(p *types.Package) bool {
	if p == nil {
		return false
	}
	for _, pre := range e.noopPrefix {
		if p.Path() == pre || strings.HasPrefix(p.Path(), pre+"/") {
			return true
		}
	}
	return false
}

func (e *Engine) hasInitializer(g *ssa.Global) bool { return e.initStores[g] }

// skipOwnInit lists own packages whose init only registers API types with client-go schemes; their
// init is not executed and their initialised globals are treated like dependency globals.
var skipOwnInit = []string{ownModule + "/pkg/ipam/client/", ownModule + "/pkg/ipam/apis/", ownModule + "/pkg/ipam/cloudprovider/rpc/"}

// initRuns reports whether the package initialiser of p is executed by the engine.
func (e *Engine) initRuns(p *types.Package) bool {
	if p == nil {
		return true
	}
	if e.isOwnPkg(p) {
		for _, s := range skipOwnInit {
			if strings.HasPrefix(p.Path()+"/", s) {
				return false
			}
		}
		return true
	}
	return e.RunInit[p.Path()]
}

func (e *Engine) noteExec(fn *ssa.Function) {
	e.mu.Lock()
	e.execFns[fn]++
	e.mu.Unlock()
}

func (e *Engine) noteModel(fn *ssa.Function) {
	e.mu.Lock()
	e.modelFns[fn.String()]++
	e.mu.Unlock()
}

func fnKey(fn *ssa.Function) string {
	if o := fn.Origin(); o != nil {
		return o.String()
	}
	return fn.String()
}

func (e *Engine) modelFor(fn *ssa.Function) modelFn {
	key := fnKey(fn)
	if m, ok := e.models[key]; ok {
		return m
	}
	if fn.Pkg != nil {
		if e.isOwnPkg(fn.Pkg.Pkg) {
			if m, ok := e.models["own:"+fn.Name()]; ok && fn.Signature.Recv() == nil {
				return m
			}
			if fn.Synthetic == "package initializer" && !e.initRuns(fn.Pkg.Pkg) {
				return modelNoop
			}
			return nil
		}
		if e.isNoopPkg(fn.Pkg.Pkg) {
			return modelNoop
		}
		// package initialisers of dependencies are skipped unless whitelisted
		if fn.Synthetic == "package initializer" && !e.initRuns(fn.Pkg.Pkg) {
			return modelNoop
		}
	} else if fn.Signature.Recv() != nil {
		// methods of instantiated/wrapper types without a package: look at the receiver's package
		if n, ok := derefNamed(fn.Signature.Recv().Type()); ok && n.Obj().Pkg() != nil && e.isNoopPkg(n.Obj().Pkg()) {
			return modelNoop
		}
	}
	return nil
}

func derefNamed(t types.Type) (*types.Named, bool) {
	if p, ok := t.(*types.Pointer); ok {
		t = p.Elem()
	}
	n, ok := t.(*types.Named)
	return n, ok
}

func modelNoop(fr *frame, fn *ssa.Function, args []value) value {
	return zeroResults(fn.Signature)
}

func (e *Engine) runtimeErrorValue(msg string) value {
	// recover() result for a runtime error: an error value of type *errors.errorString
	return e.newErrorString(msg)
}

// ---------------------------------------------------------------- exploration

type Options struct {
	MaxPaths    int
	MaxSeconds  float64
	UnwindBound int
	StepBudget  int64
}

type Result struct {
	Harness     string
	Paths       int
	Status      map[string]int // completed | infeasible | done | unmodelled | unwind | steps | unknown | deadlock | panic | bug
	Violations  []Violation
	Reach       map[string]int
	Asserts     map[string]int
	Inconclusive map[string]int
	Stats       PathStats
	SolverSeconds float64
	SolverQueries int
	SolverErrors  []string
	MaxQuerySeconds float64
	WallSeconds float64
	Truncated   bool
	SamplePCs   []string
	MaxPathSteps int64
	EndStates   map[string]int
}

type workItem struct{ prefix []Decision }

func (e *Engine) Explore(h *Harness, opt Options) *Result {
	if opt.UnwindBound == 0 {
		opt.UnwindBound = 16
	}
	if opt.StepBudget == 0 {
		opt.StepBudget = 5_000_000
	}
	if opt.MaxPaths == 0 {
		opt.MaxPaths = 1_000_000
	}
	res := &Result{Harness: h.Name, Status: map[string]int{}, Reach: map[string]int{}, Asserts: map[string]int{},
		Inconclusive: map[string]int{}, EndStates: map[string]int{}}
	t0 := time.Now()
	var mu sync.Mutex
	cond := sync.NewCond(&mu)
	stack := []workItem{{}}
	active := 0
	stop := false
	violSeen := map[string]int{}

	worker := func() {
		solver, err := smt.NewSolver(e.Solver, e.TimeoutMs)
		if err != nil {
			mu.Lock()
			res.Inconclusive["cannot start solver: "+err.Error()]++
			mu.Unlock()
			return
		}
		fallbacks := map[string]*smt.Solver{}
		getFallback := func(kind string) *smt.Solver {
			if fs, ok := fallbacks[kind]; ok {
				return fs
			}
			fs, err := smt.NewSolver(kind, e.TimeoutMs)
			if err != nil {
				fs = nil
			}
			fallbacks[kind] = fs
			return fs
		}
		defer func() {
			for _, fs := range fallbacks {
				if fs != nil {
					mu.Lock()
					res.SolverSeconds += fs.Seconds
					res.SolverQueries += fs.Queries
					mu.Unlock()
					fs.Close()
				}
			}
		}()
		defer func() {
			mu.Lock()
			res.SolverSeconds += solver.Seconds
			res.SolverQueries += solver.Queries
			if solver.MaxSeconds > res.MaxQuerySeconds {
				res.MaxQuerySeconds = solver.MaxSeconds
			}
			for _, er := range solver.Errors {
				if len(res.SolverErrors) < 20 {
					res.SolverErrors = append(res.SolverErrors, er)
				}
			}
			mu.Unlock()
			solver.Close()
		}()
		for {
			mu.Lock()
			for len(stack) == 0 && active > 0 && !stop {
				cond.Wait()
			}
			if stop || (len(stack) == 0 && active == 0) {
				mu.Unlock()
				cond.Broadcast()
				return
			}
			item := stack[len(stack)-1]
			stack = stack[:len(stack)-1]
			active++
			mu.Unlock()

			p := e.runPath(h, solver, getFallback, item.prefix, opt)

			mu.Lock()
			active--
			res.Paths++
			res.Status[p.status]++
			for _, s := range p.siblings {
				stack = append(stack, workItem{prefix: s})
			}
			for _, v := range p.violations {
				key := v.AssertID + "|" + v.Known + "|" + v.Kind
				violSeen[key]++
				if violSeen[key] <= 3 {
					res.Violations = append(res.Violations, v)
				}
			}
			e.mu.Lock()
			for f, n := range p.execFns {
				e.execFns[f] += n
			}
			for f, n := range p.modelFns {
				e.modelFns[f.String()] += n
			}
			e.mu.Unlock()
			for k, n := range p.reach {
				res.Reach[k] += n
			}
			for k, n := range p.asserts {
				res.Asserts[k] += n
			}
			for _, s := range p.inconclusive {
				res.Inconclusive[s]++
			}
			if p.status == "completed" {
				res.EndStates[p.decisionsString()]++
			}
			res.Stats.Steps += p.stats.Steps
			if p.stats.Steps > res.MaxPathSteps {
				res.MaxPathSteps = p.stats.Steps
			}
			res.Stats.Branches += p.stats.Branches
			res.Stats.Forks += p.stats.Forks
			res.Stats.Queries += p.stats.Queries
			res.Stats.Unknowns += p.stats.Unknowns
			res.Stats.GoStmts += p.stats.GoStmts
			res.Stats.Concretize += p.stats.Concretize
			res.Stats.Fallbacks += p.stats.Fallbacks
			res.Stats.RaceAccesses += p.stats.RaceAccesses
			if p.stats.RaceShared > res.Stats.RaceShared {
				res.Stats.RaceShared = p.stats.RaceShared
			}
			if len(res.SamplePCs) < 5 && p.status == "completed" && len(p.pc) > 0 {
				res.SamplePCs = append(res.SamplePCs, p.pcString(600))
			}
			if res.Paths >= opt.MaxPaths || (opt.MaxSeconds > 0 && time.Since(t0).Seconds() > opt.MaxSeconds) {
				if len(stack) > 0 || active > 0 {
					res.Truncated = true
				}
				stop = true
			}
			mu.Unlock()
			cond.Broadcast()
		}
	}
	n := e.Workers
	if n < 1 {
		n = 1
	}
	var wg sync.WaitGroup
	for i := 0; i < n; i++ {
		wg.Add(1)
		go func() { defer wg.Done(); worker() }()
	}
	wg.Wait()
	if len(stack) > 0 {
		res.Truncated = true
	}
	res.WallSeconds = time.Since(t0).Seconds()
	return res
}

type pathOutcome struct {
	*Path
	status string
}

func (e *Engine) runPath(h *Harness, solver *smt.Solver, fallback func(string) *smt.Solver, prefix []Decision, opt Options) (out *pathOutcome) {
	p := &Path{eng: e, h: h, solver: solver, fallback: fallback, st: smt.NewStore(), prefix: prefix,
		globals: map[*ssa.Global]*value{}, inited: map[*ssa.Package]bool{}, locks: map[*value]*lockState{},
		unwind: map[ssa.Instruction]int{}, unwindBound: opt.UnwindBound, stepBudget: opt.StepBudget,
		sideTable: map[string]interface{}{}, reach: map[string]int{}, asserts: map[string]int{}, clock: 1_600_000_000,
		execFns: map[*ssa.Function]int{}, modelFns: map[*ssa.Function]int{}}
	out = &pathOutcome{Path: p, status: "completed"}
	solver.Reset()
	defer p.killCo()
	defer func() {
		if r := recover(); r != nil {
			switch r := r.(type) {
			case abortPath:
				out.status = r.kind
				switch r.kind {
				case "unmodelled", "unknown":
					p.inconclusive = append(p.inconclusive, h.Name+": "+r.kind+": "+r.reason)
				case "deadlock":
					// a thread waits for a lock it holds itself (or a sequential channel model blocks): candidate, the
					// native replay under the watchdog decides
					if p.violationCandidate(nil, "deadlock", h.Prop+"/deadlock", r.reason) != smt.Sat {
						p.inconclusive = append(p.inconclusive, h.Name+": "+r.kind+": "+r.reason)
					}
				case "unwind", "steps":
					// candidate for a non-termination finding: hand a model to the replayer (watchdog decides)
					if p.violationCandidate(nil, "unwind", h.Prop+"/unwind", r.reason) != smt.Sat {
						p.inconclusive = append(p.inconclusive, h.Name+": "+r.kind+": "+r.reason)
					} else {
						p.violations[len(p.violations)-1].Where = r.reason
					}
				}
			case targetPanic:
				out.status = "panic"
				p.violationCandidate(nil, "panic", h.Prop+"/panic", "panic escaped the harness: "+r.String()+" @ "+r.pos)
			case engineBug:
				out.status = "bug"
				p.inconclusive = append(p.inconclusive, h.Name+": engine bug: "+r.msg)
			default:
				out.status = "bug"
				p.inconclusive = append(p.inconclusive, fmt.Sprintf("%s: engine crash: %v\n%s", h.Name, r, debug.Stack()))
			}
		}
		solver.Reset()
	}()
	// package initialisation of the harness' package (own packages transitively; dependencies skipped)
	if initFn := h.Pkg.Func("init"); initFn != nil {
		func() {
			defer func() {
				if r := recover(); r != nil {
					if tp, ok := r.(targetPanic); ok {
						panic(abortPath{kind: "unmodelled", reason: "panic during package initialisation: " + tp.String() + " @ " + tp.pos})
					}
					panic(r)
				}
			}()
			call(p, nil, token.NoPos, initFn, nil)
		}()
	}
	call(p, nil, token.NoPos, h.Fn, nil)
	if held := p.heldLocks(); len(held) > 0 {
		p.violationCandidate(nil, "lock-held", h.Prop+"/lock-held", "lock(s) still held when the harness returned: "+strings.Join(held, ","))
	}
	return out
}

// ExecutedFunctions lists own-module functions executed so far (name, file:line, count).
func (e *Engine) ExecutedFunctions() []string {
	e.mu.Lock()
	defer e.mu.Unlock()
	var out []string
	for fn := range e.execFns {
		if fn.Pkg == nil || !e.isOwnPkg(fn.Pkg.Pkg) {
			if fn.Parent() == nil || fn.Parent().Pkg == nil || !e.isOwnPkg(fn.Parent().Pkg.Pkg) {
				continue
			}
		}
		pos := e.Prog.Fset.Position(fn.Pos())
		file := pos.Filename
		if strings.Contains(file, "zz_verif") {
			continue
		}
		file = strings.TrimPrefix(file, RepoPrefix)
		out = append(out, fmt.Sprintf("%s (%s:%d)", fn.String(), file, pos.Line))
	}
	sort.Strings(out)
	return out
}

func (e *Engine) ExecutedDependencyFunctions() []string {
	e.mu.Lock()
	defer e.mu.Unlock()
	var out []string
	for fn := range e.execFns {
		if fn.Pkg != nil && !e.isOwnPkg(fn.Pkg.Pkg) {
			out = append(out, fn.String())
		}
	}
	sort.Strings(out)
	return out
}

func (e *Engine) ModelsHit() []string {
	e.mu.Lock()
	defer e.mu.Unlock()
	var out []string
	for n := range e.modelFns {
		out = append(out, n)
	}
	sort.Strings(out)
	return out
}

func (e *Engine) ResetCoverage() {
	e.mu.Lock()
	e.execFns = map[*ssa.Function]int{}
	e.modelFns = map[string]int{}
	e.mu.Unlock()
}

// globalModel supplies values for selected dependency globals whose package init is not executed.
func (e *Engine) globalModel(p *Path, g *ssa.Global) (value, bool) {
	name := g.Pkg.Pkg.Path() + "." + g.Name()
	if f, ok := globalModels[name]; ok {
		return f(e, g), true
	}
	return nil, false
}

var globalModels = map[string]func(e *Engine, g *ssa.Global) value{}


// funcInfo caches per-function data shared by all paths: value numbering and the model (if any).
type funcInfo struct {
	idx       map[ssa.Value]int
	n         int
	model     modelFn
	intercept string
}

func (e *Engine) funcInfo(fn *ssa.Function) *funcInfo {
	if v, ok := e.fnInfos.Load(fn); ok {
		return v.(*funcInfo)
	}
	info := &funcInfo{idx: map[ssa.Value]int{}}
	add := func(v ssa.Value) {
		if _, ok := info.idx[v]; !ok {
			info.idx[v] = info.n
			info.n++
		}
	}
	for _, p := range fn.Params {
		add(p)
	}
	for _, fv := range fn.FreeVars {
		add(fv)
	}
	for _, l := range fn.Locals {
		add(l)
	}
	for _, b := range fn.Blocks {
		for _, in := range b.Instrs {
			if v, ok := in.(ssa.Value); ok {
				add(v)
			}
		}
	}
	if fn.Parent() == nil {
		info.model = e.modelFor(fn)
		if len(e.Intercepts) > 0 {
			info.intercept = e.Intercepts[fnKey(fn)]
		}
	}
	v, _ := e.fnInfos.LoadOrStore(fn, info)
	return v.(*funcInfo)
}
