package ssaexec

// A tag-aware structural JSON codec over engine values and go/types types. It replaces the
// reflection-driven encoding/json: field selection, tag names, omitempty, "-", embedded structs,
// []byte as base64, Marshaler/Unmarshaler/TextMarshaler/TextUnmarshaler methods (executed as real
// code of the program under analysis). The text produced is real JSON (strings escaped by the real
// encoding/json), so galaxy's own slicing of raw JSON works and native replay sees the same bytes.
// Symbolic leaves are not supported: values are concretised before encoding.

import (
	"bytes"
	"encoding/base64"
	"encoding/json"
	"fmt"
	"go/token"
	"go/types"
	"math"
	"sort"
	"strconv"
	"strings"

	"golang.org/x/tools/go/ssa"
)

type jsonField struct {
	name      string
	index     []int
	typ       types.Type
	omitEmpty bool
	quoted    bool
	tagged    bool
}

func parseTag(tag string) (name string, opts string, ok bool) {
	// struct tag `json:"name,opt"`
	for tag != "" {
		i := 0
		for i < len(tag) && tag[i] == ' ' {
			i++
		}
		tag = tag[i:]
		if tag == "" {
			break
		}
		i = 0
		for i < len(tag) && tag[i] > ' ' && tag[i] != ':' && tag[i] != '"' && tag[i] != 0x7f {
			i++
		}
		if i == 0 || i+1 >= len(tag) || tag[i] != ':' || tag[i+1] != '"' {
			break
		}
		key := tag[:i]
		tag = tag[i+1:]
		i = 1
		for i < len(tag) && tag[i] != '"' {
			if tag[i] == '\\' {
				i++
			}
			i++
		}
		if i >= len(tag) {
			break
		}
		qvalue := tag[:i+1]
		tag = tag[i+1:]
		if key == "json" {
			v, err := strconv.Unquote(qvalue)
			if err != nil {
				break
			}
			if j := strings.IndexByte(v, ','); j >= 0 {
				return v[:j], v[j+1:], true
			}
			return v, "", true
		}
	}
	return "", "", false
}

// jsonFields computes the JSON-visible fields of a struct like encoding/json's typeFields.
func jsonFields(t *types.Struct) []jsonField {
	type cand struct {
		f     jsonField
		depth int
	}
	var all []cand
	var walk func(st *types.Struct, index []int, depth int, seen map[*types.Struct]bool)
	walk = func(st *types.Struct, index []int, depth int, seen map[*types.Struct]bool) {
		if seen[st] {
			return
		}
		seen[st] = true
		defer delete(seen, st)
		for i := 0; i < st.NumFields(); i++ {
			fv := st.Field(i)
			name, opts, has := parseTag(st.Tag(i))
			if has && name == "-" && opts == "" {
				continue
			}
			idx := append(append([]int{}, index...), i)
			ft := fv.Type()
			if fv.Anonymous() {
				et := ft
				if p, ok := et.Underlying().(*types.Pointer); ok {
					et = p.Elem()
				}
				inner, isStruct := et.Underlying().(*types.Struct)
				if !fv.Exported() && !isStruct {
					continue
				}
				if isStruct && name == "" {
					if _, isPtr := ft.Underlying().(*types.Pointer); isPtr {
						// embedded pointer to struct: supported for decoding only when non-nil; rare
					}
					walk(inner, idx, depth+1, seen)
					continue
				}
			} else if !fv.Exported() {
				continue
			}
			tagged := name != ""
			if name == "" {
				name = fv.Name()
			}
			jf := jsonField{name: name, index: idx, typ: ft, tagged: tagged}
			for _, o := range strings.Split(opts, ",") {
				switch o {
				case "omitempty":
					jf.omitEmpty = true
				case "string":
					jf.quoted = true
				}
			}
			all = append(all, cand{jf, depth})
		}
	}
	walk(t, nil, 0, map[*types.Struct]bool{})
	// dominance: per name, the shallowest wins; ties need exactly one tagged
	byName := map[string][]cand{}
	var order []string
	for _, c := range all {
		if _, ok := byName[c.f.name]; !ok {
			order = append(order, c.f.name)
		}
		byName[c.f.name] = append(byName[c.f.name], c)
	}
	var out []jsonField
	for _, n := range order {
		cs := byName[n]
		min := cs[0].depth
		for _, c := range cs {
			if c.depth < min {
				min = c.depth
			}
		}
		var best []cand
		for _, c := range cs {
			if c.depth == min {
				best = append(best, c)
			}
		}
		if len(best) == 1 {
			out = append(out, best[0].f)
			continue
		}
		var tagged []cand
		for _, c := range best {
			if c.f.tagged {
				tagged = append(tagged, c)
			}
		}
		if len(tagged) == 1 {
			out = append(out, tagged[0].f)
		}
	}
	sort.SliceStable(out, func(i, j int) bool {
		a, b := out[i].index, out[j].index
		for k := 0; k < len(a) && k < len(b); k++ {
			if a[k] != b[k] {
				return a[k] < b[k]
			}
		}
		return len(a) < len(b)
	})
	return out
}

type jsonEncErr struct{ msg string }

// fieldByIndex walks a struct value along index; returns nil,false if an embedded pointer is nil.
func fieldByIndex(v value, t types.Type, index []int) (value, bool) {
	for _, i := range index {
		if p, ok := t.Underlying().(*types.Pointer); ok {
			pv := v.(*value)
			if pv == nil {
				return nil, false
			}
			v = *pv
			t = p.Elem()
		}
		st := t.Underlying().(*types.Struct)
		v = v.(structure)[i]
		t = st.Field(i).Type()
	}
	return v, true
}

func (fr *frame) jsonIsEmpty(v value, t types.Type) bool {
	switch u := t.Underlying().(type) {
	case *types.Basic:
		switch x := v.(type) {
		case bool:
			return !x
		case string:
			return x == ""
		case float32:
			return x == 0
		case float64:
			return x == 0
		case sym:
			return false
		}
		return asInt64(v) == 0
	case *types.Slice:
		return len(v.([]value)) == 0
	case *types.Array:
		return u.Len() == 0
	case *types.Map:
		return v.(*omap).len() == 0
	case *types.Pointer:
		return v.(*value) == nil
	case *types.Interface:
		return v.(iface).t == nil
	}
	return false
}

func (fr *frame) hasMethod(t types.Type, name string, nparams, nresults int) *ssa.Function {
	m := fr.methodOf(t, name)
	if m == nil || m.Signature.Params().Len() != nparams || m.Signature.Results().Len() != nresults {
		return nil
	}
	return m
}

func (fr *frame) concreteBytes(v value, what string) []byte {
	sl, _ := v.([]value)
	out := make([]byte, len(sl))
	for i, e := range sl {
		out[i] = byte(fr.concreteInt(e))
	}
	return out
}

// jsonEncode appends the JSON text of v (of static type t) to buf.
func (fr *frame) jsonEncode(buf *bytes.Buffer, v value, t types.Type, addressable bool, addr *value) {
	// Marshaler / TextMarshaler on the value type, or on the pointer type when addressable
	if _, isIface := t.Underlying().(*types.Interface); !isIface {
		isNilPtr := false
		if p, ok := v.(*value); ok && p == nil {
			if _, isPtr := t.Underlying().(*types.Pointer); isPtr {
				isNilPtr = true
			}
		}
		if !isNilPtr {
			recvT, recvV := t, v
			m := fr.hasMethod(t, "MarshalJSON", 0, 2)
			if m == nil && addressable && addr != nil {
				if m = fr.hasMethod(types.NewPointer(t), "MarshalJSON", 0, 2); m != nil {
					recvT, recvV = types.NewPointer(t), addr
				}
			}
			if m != nil {
				_ = recvT
				r := call(fr.p, fr, token.NoPos, m, []value{recvV}).(tuple)
				if err := r[1].(iface); err.t != nil {
					panic(jsonEncErr{"json: error calling MarshalJSON for type " + t.String()})
				}
				raw := fr.concreteBytes(r[0], "MarshalJSON result")
				var cb bytes.Buffer
				if err := json.Compact(&cb, raw); err != nil {
					panic(jsonEncErr{"json: error calling MarshalJSON for type " + t.String() + ": " + err.Error()})
				}
				buf.Write(cb.Bytes())
				return
			}
			tm := fr.hasMethod(t, "MarshalText", 0, 2)
			recvV = v
			if tm == nil && addressable && addr != nil {
				if tm = fr.hasMethod(types.NewPointer(t), "MarshalText", 0, 2); tm != nil {
					recvV = addr
				}
			}
			if tm != nil {
				r := call(fr.p, fr, token.NoPos, tm, []value{recvV}).(tuple)
				if err := r[1].(iface); err.t != nil {
					panic(jsonEncErr{"json: error calling MarshalText for type " + t.String()})
				}
				txt := fr.concreteBytes(r[0], "MarshalText result")
				b, _ := json.Marshal(string(txt))
				buf.Write(b)
				return
			}
		}
	}
	switch u := t.Underlying().(type) {
	case *types.Basic:
		switch u.Kind() {
		case types.Bool:
			if fr.concreteBool(v) {
				buf.WriteString("true")
			} else {
				buf.WriteString("false")
			}
		case types.String:
			b, _ := json.Marshal(fr.concreteString(v))
			buf.Write(b)
		case types.Float32, types.Float64:
			var f float64
			switch x := v.(type) {
			case float32:
				f = float64(x)
			case float64:
				f = x
			}
			if math.IsInf(f, 0) || math.IsNaN(f) {
				panic(jsonEncErr{"json: unsupported value"})
			}
			b, _ := json.Marshal(f)
			buf.Write(b)
		default:
			if kindSigned(u.Kind()) {
				buf.WriteString(strconv.FormatInt(fr.concreteInt(v), 10))
			} else if kindWidth(u.Kind()) > 0 {
				buf.WriteString(strconv.FormatUint(uint64(fr.concreteInt(v))&widthMask(kindWidth(u.Kind())), 10))
			} else {
				panic(jsonEncErr{"json: unsupported type: " + t.String()})
			}
		}
	case *types.Pointer:
		p := v.(*value)
		if p == nil {
			buf.WriteString("null")
			return
		}
		fr.jsonEncode(buf, load(u.Elem(), p), u.Elem(), true, p)
	case *types.Interface:
		i := v.(iface)
		if i.t == nil {
			buf.WriteString("null")
			return
		}
		fr.jsonEncode(buf, i.v, i.t, false, nil)
	case *types.Struct:
		buf.WriteByte('{')
		first := true
		for _, f := range jsonFields(u) {
			fv, ok := fieldByIndex(v, t, f.index)
			if !ok {
				continue
			}
			if f.omitEmpty && fr.jsonIsEmpty(fv, f.typ) {
				continue
			}
			if !first {
				buf.WriteByte(',')
			}
			first = false
			kb, _ := json.Marshal(f.name)
			buf.Write(kb)
			buf.WriteByte(':')
			var faddr *value
			if addressable && addr != nil && len(f.index) == 1 {
				faddr = &(*addr).(structure)[f.index[0]]
			}
			if f.quoted {
				var inner bytes.Buffer
				fr.jsonEncode(&inner, fv, f.typ, faddr != nil, faddr)
				if k := basicKind(f.typ); k != types.Invalid {
					qb, _ := json.Marshal(inner.String())
					buf.Write(qb)
				} else {
					buf.Write(inner.Bytes())
				}
			} else {
				fr.jsonEncode(buf, fv, f.typ, faddr != nil, faddr)
			}
		}
		buf.WriteByte('}')
	case *types.Slice:
		sl := v.([]value)
		if sl == nil {
			buf.WriteString("null")
			return
		}
		if b, ok := u.Elem().Underlying().(*types.Basic); ok && b.Kind() == types.Uint8 &&
			fr.hasMethod(u.Elem(), "MarshalJSON", 0, 2) == nil && fr.hasMethod(u.Elem(), "MarshalText", 0, 2) == nil {
			raw := fr.concreteBytes(sl, "[]byte")
			qb, _ := json.Marshal(base64.StdEncoding.EncodeToString(raw))
			buf.Write(qb)
			return
		}
		buf.WriteByte('[')
		for i := range sl {
			if i > 0 {
				buf.WriteByte(',')
			}
			fr.jsonEncode(buf, sl[i], u.Elem(), true, &sl[i])
		}
		buf.WriteByte(']')
	case *types.Array:
		arr := v.(array)
		buf.WriteByte('[')
		for i := range arr {
			if i > 0 {
				buf.WriteByte(',')
			}
			fr.jsonEncode(buf, arr[i], u.Elem(), false, nil)
		}
		buf.WriteByte(']')
	case *types.Map:
		m := v.(*omap)
		if m == nil {
			buf.WriteString("null")
			return
		}
		type kv struct {
			k string
			v value
		}
		var kvs []kv
		for _, e := range m.ents {
			if e.dead {
				continue
			}
			var ks string
			switch k := e.k.(type) {
			case string:
				ks = k
			default:
				if kindWidth(kindOfValue(e.k)) > 0 {
					ks = strconv.FormatInt(asInt64(e.k), 10)
				} else {
					panic(jsonEncErr{"json: unsupported type: " + t.String()})
				}
			}
			kvs = append(kvs, kv{ks, e.v})
		}
		sort.Slice(kvs, func(i, j int) bool { return kvs[i].k < kvs[j].k })
		buf.WriteByte('{')
		for i, e := range kvs {
			if i > 0 {
				buf.WriteByte(',')
			}
			kb, _ := json.Marshal(e.k)
			buf.Write(kb)
			buf.WriteByte(':')
			fr.jsonEncode(buf, e.v, u.Elem(), false, nil)
		}
		buf.WriteByte('}')
	default:
		panic(jsonEncErr{"json: unsupported type: " + t.String()})
	}
}

func widthMask(w int) uint64 {
	if w >= 64 {
		return ^uint64(0)
	}
	return 1<<uint(w) - 1
}

// ---------------------------------------------------------------- decoding

type jsonDecState struct {
	firstErr string
}

var emptyIface = types.NewInterfaceType(nil, nil)

func (fr *frame) jsonGeneric(raw json.RawMessage) value {
	raw = bytes.TrimSpace(raw)
	if len(raw) == 0 {
		return iface{}
	}
	switch raw[0] {
	case 'n':
		return iface{}
	case 't':
		return iface{t: types.Typ[types.Bool], v: true}
	case 'f':
		return iface{t: types.Typ[types.Bool], v: false}
	case '"':
		var s string
		json.Unmarshal(raw, &s)
		return iface{t: types.Typ[types.String], v: s}
	case '[':
		var elems []json.RawMessage
		json.Unmarshal(raw, &elems)
		out := make([]value, len(elems))
		for i, e := range elems {
			out[i] = fr.jsonGeneric(e)
		}
		return iface{t: types.NewSlice(emptyIface), v: out}
	case '{':
		var obj map[string]json.RawMessage
		json.Unmarshal(raw, &obj)
		keys := orderedKeys(raw)
		m := newOmap()
		for _, k := range keys {
			m.set(k, fr.jsonGeneric(obj[k]))
		}
		return iface{t: types.NewMap(types.Typ[types.String], emptyIface), v: m}
	default:
		var f float64
		json.Unmarshal(raw, &f)
		return iface{t: types.Typ[types.Float64], v: f}
	}
}

// orderedKeys returns the keys of a JSON object in document order (last occurrence wins in value).
func orderedKeys(raw []byte) []string {
	dec := json.NewDecoder(bytes.NewReader(raw))
	var keys []string
	seen := map[string]bool{}
	if tok, err := dec.Token(); err != nil || tok != json.Delim('{') {
		return nil
	}
	for dec.More() {
		tok, err := dec.Token()
		if err != nil {
			break
		}
		k, _ := tok.(string)
		if !seen[k] {
			seen[k] = true
			keys = append(keys, k)
		}
		var skip json.RawMessage
		if err := dec.Decode(&skip); err != nil {
			break
		}
	}
	return keys
}

func (ds *jsonDecState) typeErr(what string, t types.Type) {
	if ds.firstErr == "" {
		ds.firstErr = "json: cannot unmarshal " + what + " into Go value of type " + t.String()
	}
}

// jsonDecode stores the JSON value raw into *addr of static type t.
func (fr *frame) jsonDecode(ds *jsonDecState, raw json.RawMessage, t types.Type, addr *value) {
	raw = bytes.TrimSpace(raw)
	isNull := bytes.Equal(raw, []byte("null"))
	// pointers: null => nil; otherwise allocate and descend
	if p, ok := t.Underlying().(*types.Pointer); ok {
		// Unmarshaler on the pointer type itself is reached after allocation
		if isNull {
			*addr = (*value)(nil)
			return
		}
		pv := (*addr).(*value)
		if pv == nil {
			cell := zero(p.Elem())
			pv = &cell
			*addr = pv
		}
		fr.jsonDecode(ds, raw, p.Elem(), pv)
		return
	}
	if _, isIface := t.Underlying().(*types.Interface); !isIface {
		if m := fr.hasMethod(types.NewPointer(t), "UnmarshalJSON", 1, 1); m != nil {
			r := call(fr.p, fr, token.NoPos, m, []value{addr, bytesVal(raw)}).(iface)
			if r.t != nil && ds.firstErr == "" {
				msg, _ := fr.callStringMethod(r, "Error")
				ds.firstErr, _ = msg.(string)
				if ds.firstErr == "" {
					ds.firstErr = "UnmarshalJSON error"
				}
			}
			return
		}
		if isNull {
			return // null into a non-pointer: no effect
		}
		if m := fr.hasMethod(types.NewPointer(t), "UnmarshalText", 1, 1); m != nil && len(raw) > 0 && raw[0] == '"' {
			var s string
			if err := json.Unmarshal(raw, &s); err != nil {
				ds.typeErr("string", t)
				return
			}
			r := call(fr.p, fr, token.NoPos, m, []value{addr, bytesVal([]byte(s))}).(iface)
			if r.t != nil && ds.firstErr == "" {
				msg, _ := fr.callStringMethod(r, "Error")
				ds.firstErr, _ = msg.(string)
				if ds.firstErr == "" {
					ds.firstErr = "UnmarshalText error"
				}
			}
			return
		}
	}
	if isNull {
		switch t.Underlying().(type) {
		case *types.Interface:
			*addr = iface{}
		case *types.Slice:
			*addr = []value(nil)
		case *types.Map:
			*addr = (*omap)(nil)
		}
		return
	}
	if len(raw) == 0 {
		return
	}
	kindName := func() string {
		switch raw[0] {
		case '"':
			return "string"
		case '{':
			return "object"
		case '[':
			return "array"
		case 't', 'f':
			return "bool"
		}
		return "number"
	}
	switch u := t.Underlying().(type) {
	case *types.Interface:
		if u.NumMethods() == 0 {
			*addr = fr.jsonGeneric(raw)
		} else {
			ds.typeErr(kindName(), t)
		}
	case *types.Basic:
		switch {
		case u.Kind() == types.Bool:
			if raw[0] != 't' && raw[0] != 'f' {
				ds.typeErr(kindName(), t)
				return
			}
			*addr = raw[0] == 't'
		case u.Kind() == types.String:
			if raw[0] != '"' {
				ds.typeErr(kindName(), t)
				return
			}
			var s string
			json.Unmarshal(raw, &s)
			*addr = s
		case u.Kind() == types.Float64 || u.Kind() == types.Float32:
			var f float64
			if raw[0] == '"' || json.Unmarshal(raw, &f) != nil {
				ds.typeErr(kindName(), t)
				return
			}
			if u.Kind() == types.Float32 {
				*addr = float32(f)
			} else {
				*addr = f
			}
		case kindWidth(u.Kind()) > 0:
			if raw[0] == '"' || raw[0] == '{' || raw[0] == '[' || raw[0] == 't' || raw[0] == 'f' {
				ds.typeErr(kindName(), t)
				return
			}
			w := kindWidth(u.Kind())
			if kindSigned(u.Kind()) {
				n, err := strconv.ParseInt(string(raw), 10, w)
				if err != nil {
					ds.typeErr("number "+string(raw), t)
					return
				}
				*addr = convC(t, types.Typ[types.Int64], n)
			} else {
				n, err := strconv.ParseUint(string(raw), 10, w)
				if err != nil {
					ds.typeErr("number "+string(raw), t)
					return
				}
				*addr = convC(t, types.Typ[types.Uint64], n)
			}
		default:
			ds.typeErr(kindName(), t)
		}
	case *types.Struct:
		if raw[0] != '{' {
			ds.typeErr(kindName(), t)
			return
		}
		var obj map[string]json.RawMessage
		if err := json.Unmarshal(raw, &obj); err != nil {
			ds.typeErr("object", t)
			return
		}
		fields := jsonFields(u)
		for _, k := range orderedKeys(raw) {
			var f *jsonField
			for i := range fields {
				if fields[i].name == k {
					f = &fields[i]
					break
				}
			}
			if f == nil {
				for i := range fields {
					if strings.EqualFold(fields[i].name, k) {
						f = &fields[i]
						break
					}
				}
			}
			if f == nil {
				continue
			}
			// walk to the field's address (allocating embedded pointers)
			cur := addr
			ct := t
			okWalk := true
			for _, i := range f.index {
				if p, isPtr := ct.Underlying().(*types.Pointer); isPtr {
					pv := (*cur).(*value)
					if pv == nil {
						cell := zero(p.Elem())
						pv = &cell
						*cur = pv
					}
					cur = pv
					ct = p.Elem()
				}
				st := ct.Underlying().(*types.Struct)
				cur = &(*cur).(structure)[i]
				ct = st.Field(i).Type()
			}
			if !okWalk {
				continue
			}
			val := obj[k]
			if f.quoted && len(val) > 0 && val[0] == '"' {
				var s string
				json.Unmarshal(val, &s)
				val = json.RawMessage(s)
			}
			fr.jsonDecode(ds, val, f.typ, cur)
		}
	case *types.Slice:
		if raw[0] == '"' {
			if b, ok := u.Elem().Underlying().(*types.Basic); ok && b.Kind() == types.Uint8 {
				var s string
				json.Unmarshal(raw, &s)
				dec, err := base64.StdEncoding.DecodeString(s)
				if err != nil {
					if ds.firstErr == "" {
						ds.firstErr = err.Error()
					}
					return
				}
				*addr = bytesVal(dec)
				if dec == nil {
					*addr = []value{}
				}
				return
			}
		}
		if raw[0] != '[' {
			ds.typeErr(kindName(), t)
			return
		}
		var elems []json.RawMessage
		if err := json.Unmarshal(raw, &elems); err != nil {
			ds.typeErr("array", t)
			return
		}
		out := make([]value, len(elems))
		for i := range elems {
			out[i] = zero(u.Elem())
			fr.jsonDecode(ds, elems[i], u.Elem(), &out[i])
		}
		*addr = out
	case *types.Array:
		if raw[0] != '[' {
			ds.typeErr(kindName(), t)
			return
		}
		var elems []json.RawMessage
		json.Unmarshal(raw, &elems)
		arr := (*addr).(array)
		for i := range arr {
			if i < len(elems) {
				fr.jsonDecode(ds, elems[i], u.Elem(), &arr[i])
			} else {
				arr[i] = zero(u.Elem())
			}
		}
	case *types.Map:
		if raw[0] != '{' {
			ds.typeErr(kindName(), t)
			return
		}
		var obj map[string]json.RawMessage
		if err := json.Unmarshal(raw, &obj); err != nil {
			ds.typeErr("object", t)
			return
		}
		m := (*addr).(*omap)
		if m == nil {
			m = newOmap()
			*addr = m
		}
		for _, k := range orderedKeys(raw) {
			var key value
			switch {
			case basicKind(u.Key()) == types.String:
				key = k
			case kindWidth(basicKind(u.Key())) > 0:
				n, err := strconv.ParseInt(k, 10, 64)
				if err != nil {
					ds.typeErr("number "+k, u.Key())
					continue
				}
				key = convC(u.Key(), types.Typ[types.Int64], n)
			default:
				ds.typeErr("object key", u.Key())
				continue
			}
			cell := zero(u.Elem())
			if old, ok := m.get(key); ok {
				cell = copyVal(old)
			}
			fr.jsonDecode(ds, obj[k], u.Elem(), &cell)
			m.set(key, cell)
		}
	default:
		ds.typeErr(kindName(), t)
	}
}

func registerJSONModels(e *Engine) {
	e.models["encoding/json.Marshal"] = func(fr *frame, fn *ssa.Function, args []value) (res value) {
		defer func() {
			if r := recover(); r != nil {
				if je, ok := r.(jsonEncErr); ok {
					res = tuple{[]value(nil), fr.p.eng.newErrorString(je.msg)}
					return
				}
				panic(r)
			}
		}()
		in := args[0].(iface)
		var buf bytes.Buffer
		if in.t == nil {
			buf.WriteString("null")
		} else {
			fr.jsonEncode(&buf, in.v, in.t, false, nil)
		}
		return tuple{bytesVal(buf.Bytes()), iface{}}
	}
	e.models["encoding/json.Unmarshal"] = func(fr *frame, fn *ssa.Function, args []value) value {
		data := fr.concreteBytes(args[0], "json text")
		target := args[1].(iface)
		if !json.Valid(data) {
			var probe interface{}
			err := json.Unmarshal(data, &probe)
			msg := "invalid JSON"
			if err != nil {
				msg = err.Error()
			}
			return fr.p.eng.newErrorString(msg)
		}
		pt, ok := func() (*types.Pointer, bool) {
			if target.t == nil {
				return nil, false
			}
			p, ok := target.t.Underlying().(*types.Pointer)
			return p, ok
		}()
		if !ok || target.v.(*value) == nil {
			return fr.p.eng.newErrorString("json: Unmarshal(non-pointer or nil)")
		}
		ds := &jsonDecState{}
		fr.jsonDecode(ds, data, pt.Elem(), target.v.(*value))
		if ds.firstErr != "" {
			return fr.p.eng.newErrorString(ds.firstErr)
		}
		return iface{}
	}
	_ = fmt.Sprint
}
