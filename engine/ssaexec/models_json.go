package ssaexec

// A tag-aware structural JSON codec over engine values and go/types types. It replaces the
// reflection-driven encoding/json: field selection, tag names, omitempty, "-", embedded structs,
// []byte as base64, Marshaler/Unmarshaler/TextMarshaler/TextUnmarshaler methods (executed as real
// code of the program under analysis). The text produced is real JSON (strings escaped by the real
// encoding/json), so galaxy's own slicing of raw JSON works and native replay sees the same bytes.
// Symbolic leaves are not supported: values are concretised before encoding.

import (
	"bytes"
	"encoding/base64"
	"encoding/json"
	"fmt"
	"go/token"
	"go/types"
	"math"
	"sort"
	"strconv"
	"strings"

	"golang.org/x/tools/go/ssa"
)

type jsonField struct {
	name      string
	index     []int
	typ       types.Type
	omitEmpty bool
	quoted    bool
	tagged    bool
}

func parseTag(tag string) (name string, opts string, ok bool) {
	// struct tag `json:"name,opt"`
	for tag != "" {
		i := 0
		for i < len(tag) && tag[i] == ' ' {
			i++
		}
		tag = tag[i:]
		if tag == "" {
			break
		}
		i = 0
		for i < len(tag) && tag[i] > ' ' && tag[i] != ':' && tag[i] != '"' && tag[i] != 0x7f {
			i++
		}
		if i == 0 || i+1 >= len(tag) || tag[i] != ':' || tag[i+1] != '"' {
			break
		}
		key := tag[:i]
		tag = tag[i+1:]
		i = 1
		for i < len(tag) && tag[i] != '"' {
			if tag[i] == '\\' {
				i++
			}
			i++
		}
		if i >= len(tag) {
			break
		}
		qvalue := tag[:i+1]
		tag = tag[i+1:]
		if key == "json" {
			v, err := strconv.Unquote(qvalue)
			if err != nil {
				break
			}
			if j := strings.IndexByte(v, ','); j >= 0 {
				return v[:j], v[j+1:], true
			}
			return v, "", true
		}
	}
	return "", "", false
}

// jsonFields computes the JSON-visible fields of a struct like encoding/json's typeFields.
func jsonFields(t *types.Struct) []jsonField {
	type cand struct {
		f     jsonField
		depth int
	}
	var all []cand
	var walk func(st *types.Struct, index []int, depth int, seen map[*types.Struct]bool)
	walk = func(st *types.Struct, index []int, depth int, seen map[*types.Struct]bool) {
		if seen[st] {
			return
		}
		seen[st] = true
		defer delete(seen, st)
		for i := 0; i < st.NumFields(); i++ {
			fv := st.Field(i)
			name, opts, has := parseTag(st.Tag(i))
			if has && name == "-" && opts == "" {
				continue
			}
			idx := append(append([]int{}, index...), i)
			ft := fv.Type()
			if fv.Anonymous() {
				et := ft
				if p, ok := et.Underlying().(*types.Pointer); ok {
					et = p.Elem()
				}
				inner, isStruct := et.Underlying().(*types.Struct)
				if !fv.Exported() && !isStruct {
					continue
				}
				if isStruct && name == "" {
					if _, isPtr := ft.Underlying().(*types.Pointer); isPtr {
						// embedded pointer to struct: supported for decoding only when non-nil; rare
					}
					walk(inner, idx, depth+1, seen)
					continue
				}
			} else if !fv.Exported() {
				continue
			}
			tagged := name != ""
			if name == "" {
				name = fv.Name()
			}
			jf := jsonField{name: name, index: idx, typ: ft, tagged: tagged}
			for _, o := range strings.Split(opts, ",") {
				switch o {
				case "omitempty":
					jf.omitEmpty = true
				case "string":
					jf.quoted = true
				}
			}
			all = append(all, cand{jf, depth})
		}
	}
	walk(t, nil, 0, map[*types.Struct]bool{})
	// dominance: per name, the shallowest wins; ties need exactly one tagged
	byName := map[string][]cand{}
	var order []string
	for _, c := range all {
		if _, ok := byName[c.f.name]; !ok {
			order = append(order, c.f.name)
		}
		byName[c.f.name] = append(byName[c.f.name], c)
	}
	var out []jsonField
	for _, n := range order {
		cs := byName[n]
		min := cs[0].depth
		for _, c := range cs {
			if c.depth < min {
				min = c.depth
			}
		}
		var best []cand
		for _, c := range cs {
			if c.depth == min {
				best = append(best, c)
			}
		}
		if len(best) == 1 {
			out = append(out, best[0].f)
			continue
		}
		var tagged []cand
		for _, c := range best {
			if c.f.tagged {
				tagged = append(tagged, c)
			}
		}
		if len(tagged) == 1 {
			out = append(out, tagged[0].f)
		}
	}
	sort.SliceStable(out, func(i, j int) bool {
		a, b := out[i].index, out[j].index
		for k := 0; k < len(a) && k < len(b); k++ {
			if a[k] != b[k] {
				return a[k] < b[k]
			}
		}
		return len(a) < len(b)
	})
	return out
}

type jsonEncErr struct{ msg string }

// fieldByIndex walks a struct value along index; returns nil,false if an embedded pointer is nil.
func fieldByIndex(v value, t types.Type, index []int) (value, bool) {
	for _, i := range index {
		if p, ok := t.Underlying().(*types.Pointer); ok {
			pv := v.(*value)
			if pv == nil {
				return nil, false
			}
			v = *pv
			t = p.Elem()
		}
		st := t.Underlying().(*types.Struct)
		v = v.(structure)[i]
		t = st.Field(i).Type()
	}
	return v, true
}

func (fr *frame) jsonIsEmpty(v value, t types.Type) bool {
	switch u := t.Underlying().(type) {
	case *types.Basic:
		switch x := v.(type) {
		case bool:
			return !x
		case string:
			return x == ""
		case float32:
			return x == 0
		case float64:
			return x == 0
		case sym:
			return false
		}
		return asInt64(v) == 0
	case *types.Slice:
		return len(v.([]value)) == 0
	case *types.Array:
		return u.Len() == 0
	case *types.Map:
		return v.(*omap).len() == 0
	case *types.Pointer:
		return v.(*value) == nil
	case *types.Interface:
		return v.(iface).t == nil
	}
	return false
}

func (fr *frame) hasMethod(t types.Type, name string, nparams, nresults int) *ssa.Function {
	m := fr.methodOf(t, name)
	if m == nil || m.Signature.Params().Len() != nparams || m.Signature.Results().Len() != nresults {
		return nil
	}
	return m
}

func (fr *frame) concreteBytes(v value, what string) []byte {
	sl, _ := v.([]value)
	out := make([]byte, len(sl))
	for i, e := range sl {
		out[i] = byte(fr.concreteInt(e))
	}
	return out
}

// ---------------------------------------------------------------- JSON value tree

// jnode is a JSON value whose leaves may be symbolic scalars.
type jnode struct {
	kind   byte // 'o' object, 'a' array, 's' string, 'n' number, 'b' bool, 'z' null
	names  []string
	vals   []*jnode
	leaf   value  // 's': string|sym, 'b': bool|sym, 'n': int/uint/float native value or sym
	numTxt string // 'n' parsed from text: the literal
	raw    []byte // original text when parsed from concrete JSON
}

func (n *jnode) symbolic() bool {
	switch n.kind {
	case 's', 'b', 'n':
		return isSym(n.leaf)
	}
	for _, v := range n.vals {
		if v.symbolic() {
			return true
		}
	}
	return false
}

// render writes the JSON text of a tree without symbolic leaves.
func (n *jnode) render(buf *bytes.Buffer) {
	switch n.kind {
	case 'z':
		buf.WriteString("null")
	case 'b':
		if n.leaf.(bool) {
			buf.WriteString("true")
		} else {
			buf.WriteString("false")
		}
	case 's':
		b, _ := json.Marshal(n.leaf.(string))
		buf.Write(b)
	case 'n':
		if n.numTxt != "" {
			buf.WriteString(n.numTxt)
			return
		}
		switch x := n.leaf.(type) {
		case float32:
			b, _ := json.Marshal(x)
			buf.Write(b)
		case float64:
			b, _ := json.Marshal(x)
			buf.Write(b)
		case uint, uint8, uint16, uint32, uint64, uintptr:
			buf.WriteString(strconv.FormatUint(uint64(asInt64(x)), 10))
		default:
			buf.WriteString(strconv.FormatInt(asInt64(x), 10))
		}
	case 'a':
		buf.WriteByte('[')
		for i, v := range n.vals {
			if i > 0 {
				buf.WriteByte(',')
			}
			v.render(buf)
		}
		buf.WriteByte(']')
	case 'o':
		buf.WriteByte('{')
		for i, v := range n.vals {
			if i > 0 {
				buf.WriteByte(',')
			}
			kb, _ := json.Marshal(n.names[i])
			buf.Write(kb)
			buf.WriteByte(':')
			v.render(buf)
		}
		buf.WriteByte('}')
	}
}

// parseJSON turns concrete JSON text into a tree (keeping raw text per node).
func parseJSON(raw []byte) (*jnode, error) {
	raw = bytes.TrimSpace(raw)
	if len(raw) == 0 {
		return nil, fmt.Errorf("unexpected end of JSON input")
	}
	n := &jnode{raw: raw}
	switch raw[0] {
	case 'n':
		n.kind = 'z'
	case 't', 'f':
		n.kind, n.leaf = 'b', raw[0] == 't'
	case '"':
		var s string
		if err := json.Unmarshal(raw, &s); err != nil {
			return nil, err
		}
		n.kind, n.leaf = 's', s
	case '[':
		var elems []json.RawMessage
		if err := json.Unmarshal(raw, &elems); err != nil {
			return nil, err
		}
		n.kind = 'a'
		n.vals = []*jnode{}
		for _, e := range elems {
			c, err := parseJSON(e)
			if err != nil {
				return nil, err
			}
			n.vals = append(n.vals, c)
		}
	case '{':
		var obj map[string]json.RawMessage
		if err := json.Unmarshal(raw, &obj); err != nil {
			return nil, err
		}
		n.kind = 'o'
		for _, k := range orderedKeys(raw) {
			c, err := parseJSON(obj[k])
			if err != nil {
				return nil, err
			}
			n.names = append(n.names, k)
			n.vals = append(n.vals, c)
		}
	default:
		n.kind, n.numTxt = 'n', string(raw)
	}
	return n, nil
}

// orderedKeys returns the keys of a JSON object in document order (last occurrence wins in value).
func orderedKeys(raw []byte) []string {
	dec := json.NewDecoder(bytes.NewReader(raw))
	var keys []string
	seen := map[string]bool{}
	if tok, err := dec.Token(); err != nil || tok != json.Delim('{') {
		return nil
	}
	for dec.More() {
		tok, err := dec.Token()
		if err != nil {
			break
		}
		k, _ := tok.(string)
		if !seen[k] {
			seen[k] = true
			keys = append(keys, k)
		}
		var skip json.RawMessage
		if err := dec.Decode(&skip); err != nil {
			break
		}
	}
	return keys
}

const jsonTokenPrefix = opaqueMark + "JSON#"

func (p *Path) jsonTable() map[string]*jnode {
	t, _ := p.sideTable["json"].(map[string]*jnode)
	if t == nil {
		t = map[string]*jnode{}
		p.sideTable["json"] = t
	}
	return t
}

// jsonText renders a tree: real JSON text if concrete, else a unique opaque token registered in the
// path's side table (abstract JSON: the text of a document with symbolic leaves is never inspected).
func (fr *frame) jsonText(n *jnode) []byte {
	if !n.symbolic() {
		var buf bytes.Buffer
		n.render(&buf)
		return buf.Bytes()
	}
	tab := fr.p.jsonTable()
	tok := fmt.Sprintf("%s%d%s", jsonTokenPrefix, len(tab), opaqueMark)
	tab[tok] = n
	return []byte(tok)
}

// jsonTree returns the tree for a JSON text (token or real text).
func (fr *frame) jsonTree(data []byte) (*jnode, error) {
	if bytes.HasPrefix(data, []byte(jsonTokenPrefix)) {
		if n, ok := fr.p.jsonTable()[string(data)]; ok {
			return n, nil
		}
		fr.unmodelled("JSON token text was modified before decoding")
	}
	if bytes.Contains(data, []byte(opaqueMark)) {
		fr.unmodelled("JSON text embeds a document with symbolic leaves")
	}
	if !json.Valid(data) {
		var probe interface{}
		err := json.Unmarshal(data, &probe)
		if err == nil {
			err = fmt.Errorf("invalid JSON")
		}
		return nil, err
	}
	return parseJSON(data)
}

// ---------------------------------------------------------------- encoding

// jsonEncode builds the JSON tree of v (static type t).
func (fr *frame) jsonEncode(v value, t types.Type, addressable bool, addr *value) *jnode {
	if _, isIface := t.Underlying().(*types.Interface); !isIface {
		isNilPtr := false
		if p, ok := v.(*value); ok && p == nil {
			if _, isPtr := t.Underlying().(*types.Pointer); isPtr {
				isNilPtr = true
			}
		}
		if !isNilPtr {
			recvV := v
			m := fr.hasMethod(t, "MarshalJSON", 0, 2)
			if m == nil && addressable && addr != nil {
				if m = fr.hasMethod(types.NewPointer(t), "MarshalJSON", 0, 2); m != nil {
					recvV = addr
				}
			}
			if m != nil {
				r := call(fr.p, fr, token.NoPos, m, []value{recvV}).(tuple)
				if err := r[1].(iface); err.t != nil {
					panic(jsonEncErr{"json: error calling MarshalJSON for type " + t.String()})
				}
				raw := fr.concreteBytes(r[0], "MarshalJSON result")
				n, err := fr.jsonTree(raw)
				if err != nil {
					panic(jsonEncErr{"json: error calling MarshalJSON for type " + t.String() + ": " + err.Error()})
				}
				return n
			}
			tm := fr.hasMethod(t, "MarshalText", 0, 2)
			recvV = v
			if tm == nil && addressable && addr != nil {
				if tm = fr.hasMethod(types.NewPointer(t), "MarshalText", 0, 2); tm != nil {
					recvV = addr
				}
			}
			if tm != nil {
				r := call(fr.p, fr, token.NoPos, tm, []value{recvV}).(tuple)
				if err := r[1].(iface); err.t != nil {
					panic(jsonEncErr{"json: error calling MarshalText for type " + t.String()})
				}
				return &jnode{kind: 's', leaf: string(fr.concreteBytes(r[0], "MarshalText result"))}
			}
		}
	}
	switch u := t.Underlying().(type) {
	case *types.Basic:
		switch {
		case u.Kind() == types.Bool:
			return &jnode{kind: 'b', leaf: v}
		case u.Kind() == types.String:
			if s, ok := v.(string); ok && hasOpaque(s) && !strings.HasPrefix(s, jsonTokenPrefix) {
				fr.unmodelled("JSON encoding of a string whose text was not computed")
			}
			return &jnode{kind: 's', leaf: v}
		case u.Kind() == types.Float32 || u.Kind() == types.Float64:
			f, _ := widen(v).(float64)
			if math.IsInf(f, 0) || math.IsNaN(f) {
				panic(jsonEncErr{"json: unsupported value"})
			}
			return &jnode{kind: 'n', leaf: v}
		case kindWidth(u.Kind()) > 0:
			return &jnode{kind: 'n', leaf: v}
		}
		panic(jsonEncErr{"json: unsupported type: " + t.String()})
	case *types.Pointer:
		p := v.(*value)
		if p == nil {
			return &jnode{kind: 'z'}
		}
		return fr.jsonEncode(load(u.Elem(), p), u.Elem(), true, p)
	case *types.Interface:
		i := v.(iface)
		if i.t == nil {
			return &jnode{kind: 'z'}
		}
		return fr.jsonEncode(i.v, i.t, false, nil)
	case *types.Struct:
		n := &jnode{kind: 'o'}
		for _, f := range jsonFields(u) {
			fv, ok := fieldByIndex(v, t, f.index)
			if !ok {
				continue
			}
			if f.omitEmpty && fr.jsonIsEmpty(fv, f.typ) {
				continue
			}
			var faddr *value
			if addressable && addr != nil && len(f.index) == 1 {
				faddr = &(*addr).(structure)[f.index[0]]
			}
			c := fr.jsonEncode(fv, f.typ, faddr != nil, faddr)
			if f.quoted && (c.kind == 'n' || c.kind == 'b' || c.kind == 's') {
				if c.symbolic() {
					fr.unmodelled("json ,string option on a symbolic value")
				}
				var inner bytes.Buffer
				c.render(&inner)
				c = &jnode{kind: 's', leaf: inner.String()}
			}
			n.names = append(n.names, f.name)
			n.vals = append(n.vals, c)
		}
		return n
	case *types.Slice:
		sl := v.([]value)
		if sl == nil {
			return &jnode{kind: 'z'}
		}
		if b, ok := u.Elem().Underlying().(*types.Basic); ok && b.Kind() == types.Uint8 &&
			fr.hasMethod(u.Elem(), "MarshalJSON", 0, 2) == nil && fr.hasMethod(u.Elem(), "MarshalText", 0, 2) == nil {
			raw := fr.concreteBytes(sl, "[]byte")
			return &jnode{kind: 's', leaf: base64.StdEncoding.EncodeToString(raw)}
		}
		n := &jnode{kind: 'a', vals: []*jnode{}}
		for i := range sl {
			n.vals = append(n.vals, fr.jsonEncode(sl[i], u.Elem(), true, &sl[i]))
		}
		return n
	case *types.Array:
		arr := v.(array)
		n := &jnode{kind: 'a', vals: []*jnode{}}
		for i := range arr {
			n.vals = append(n.vals, fr.jsonEncode(arr[i], u.Elem(), false, nil))
		}
		return n
	case *types.Map:
		m := v.(*omap)
		if m == nil {
			return &jnode{kind: 'z'}
		}
		type kv struct {
			k string
			v value
		}
		var kvs []kv
		for _, e := range m.ents {
			if e.dead {
				continue
			}
			var ks string
			switch k := e.k.(type) {
			case string:
				ks = k
			default:
				if kindWidth(kindOfValue(e.k)) > 0 {
					ks = strconv.FormatInt(asInt64(e.k), 10)
				} else {
					panic(jsonEncErr{"json: unsupported type: " + t.String()})
				}
			}
			kvs = append(kvs, kv{ks, e.v})
		}
		sort.Slice(kvs, func(i, j int) bool { return kvs[i].k < kvs[j].k })
		n := &jnode{kind: 'o'}
		for _, e := range kvs {
			n.names = append(n.names, e.k)
			n.vals = append(n.vals, fr.jsonEncode(e.v, u.Elem(), false, nil))
		}
		return n
	}
	panic(jsonEncErr{"json: unsupported type: " + t.String()})
}

func widthMask(w int) uint64 {
	if w >= 64 {
		return ^uint64(0)
	}
	return 1<<uint(w) - 1
}

// ---------------------------------------------------------------- decoding

type jsonDecState struct {
	firstErr string
}

var emptyIface = types.NewInterfaceType(nil, nil)

func (fr *frame) jsonGeneric(n *jnode) value {
	switch n.kind {
	case 'z':
		return iface{}
	case 'b':
		return iface{t: types.Typ[types.Bool], v: n.leaf}
	case 's':
		return iface{t: types.Typ[types.String], v: n.leaf}
	case 'n':
		if n.numTxt != "" {
			f, _ := strconv.ParseFloat(n.numTxt, 64)
			return iface{t: types.Typ[types.Float64], v: f}
		}
		if isSym(n.leaf) {
			fr.unmodelled("symbolic number decoded into interface{}")
		}
		switch x := n.leaf.(type) {
		case float64:
			return iface{t: types.Typ[types.Float64], v: x}
		case float32:
			return iface{t: types.Typ[types.Float64], v: float64(x)}
		}
		return iface{t: types.Typ[types.Float64], v: float64(asInt64(n.leaf))}
	case 'a':
		out := make([]value, len(n.vals))
		for i, e := range n.vals {
			out[i] = fr.jsonGeneric(e)
		}
		return iface{t: types.NewSlice(emptyIface), v: out}
	case 'o':
		m := newOmap()
		for i, k := range n.names {
			m.set(k, fr.jsonGeneric(n.vals[i]))
		}
		return iface{t: types.NewMap(types.Typ[types.String], emptyIface), v: m}
	}
	panic("jsonGeneric: bad node")
}

func (ds *jsonDecState) typeErr(what string, t types.Type) {
	if ds.firstErr == "" {
		ds.firstErr = "json: cannot unmarshal " + what + " into Go value of type " + t.String()
	}
}

func (ds *jsonDecState) methodErr(fr *frame, r iface, what string) {
	if r.t != nil && ds.firstErr == "" {
		msg, _ := fr.callStringMethod(r, "Error")
		ds.firstErr, _ = msg.(string)
		if ds.firstErr == "" {
			ds.firstErr = what + " error"
		}
	}
}

func (n *jnode) kindName() string {
	switch n.kind {
	case 's':
		return "string"
	case 'o':
		return "object"
	case 'a':
		return "array"
	case 'b':
		return "bool"
	case 'z':
		return "null"
	}
	return "number"
}

// jsonDecode stores the JSON value n into *addr of static type t.
func (fr *frame) jsonDecode(ds *jsonDecState, n *jnode, t types.Type, addr *value) {
	isNull := n.kind == 'z'
	if p, ok := t.Underlying().(*types.Pointer); ok {
		if isNull {
			*addr = (*value)(nil)
			return
		}
		pv := (*addr).(*value)
		if pv == nil {
			cell := zero(p.Elem())
			pv = &cell
			*addr = pv
		}
		fr.jsonDecode(ds, n, p.Elem(), pv)
		return
	}
	if _, isIface := t.Underlying().(*types.Interface); !isIface {
		if m := fr.hasMethod(types.NewPointer(t), "UnmarshalJSON", 1, 1); m != nil {
			raw := n.raw
			if raw == nil {
				raw = fr.jsonText(n)
			}
			r := call(fr.p, fr, token.NoPos, m, []value{addr, bytesVal(raw)}).(iface)
			ds.methodErr(fr, r, "UnmarshalJSON")
			return
		}
		if isNull {
			return // null into a non-pointer: no effect
		}
		if m := fr.hasMethod(types.NewPointer(t), "UnmarshalText", 1, 1); m != nil && n.kind == 's' {
			r := call(fr.p, fr, token.NoPos, m, []value{addr, bytesVal([]byte(fr.concreteString(n.leaf)))}).(iface)
			ds.methodErr(fr, r, "UnmarshalText")
			return
		}
	}
	if isNull {
		switch t.Underlying().(type) {
		case *types.Interface:
			*addr = iface{}
		case *types.Slice:
			*addr = []value(nil)
		case *types.Map:
			*addr = (*omap)(nil)
		}
		return
	}
	switch u := t.Underlying().(type) {
	case *types.Interface:
		if u.NumMethods() == 0 {
			*addr = fr.jsonGeneric(n)
		} else {
			ds.typeErr(n.kindName(), t)
		}
	case *types.Basic:
		switch {
		case u.Kind() == types.Bool:
			if n.kind != 'b' {
				ds.typeErr(n.kindName(), t)
				return
			}
			*addr = n.leaf
		case u.Kind() == types.String:
			if n.kind != 's' {
				ds.typeErr(n.kindName(), t)
				return
			}
			*addr = n.leaf
		case u.Kind() == types.Float64 || u.Kind() == types.Float32:
			if n.kind != 'n' {
				ds.typeErr(n.kindName(), t)
				return
			}
			var f float64
			if n.numTxt != "" {
				f, _ = strconv.ParseFloat(n.numTxt, 64)
			} else if x, ok := widen(n.leaf).(float64); ok {
				f = x
			} else {
				f = float64(asInt64(n.leaf))
			}
			if u.Kind() == types.Float32 {
				*addr = float32(f)
			} else {
				*addr = f
			}
		case kindWidth(u.Kind()) > 0:
			if n.kind != 'n' {
				ds.typeErr(n.kindName(), t)
				return
			}
			w := kindWidth(u.Kind())
			if n.numTxt == "" {
				// number that never left the engine: convert between integer kinds
				if s, ok := n.leaf.(sym); ok {
					if kindWidth(s.K) != w {
						fr.unmodelled("symbolic JSON number decoded into an integer of another width")
					}
					*addr = sym{s.T, u.Kind()}
					return
				}
				if _, isF := widen(n.leaf).(float64); isF {
					ds.typeErr("number", t)
					return
				}
				n = &jnode{kind: 'n', numTxt: func() string {
					var b bytes.Buffer
					n.render(&b)
					return b.String()
				}()}
			}
			if kindSigned(u.Kind()) {
				x, err := strconv.ParseInt(n.numTxt, 10, w)
				if err != nil {
					ds.typeErr("number "+n.numTxt, t)
					return
				}
				*addr = convC(t, types.Typ[types.Int64], x)
			} else {
				x, err := strconv.ParseUint(n.numTxt, 10, w)
				if err != nil {
					ds.typeErr("number "+n.numTxt, t)
					return
				}
				*addr = convC(t, types.Typ[types.Uint64], x)
			}
		default:
			ds.typeErr(n.kindName(), t)
		}
	case *types.Struct:
		if n.kind != 'o' {
			ds.typeErr(n.kindName(), t)
			return
		}
		fields := jsonFields(u)
		for ki, k := range n.names {
			var f *jsonField
			for i := range fields {
				if fields[i].name == k {
					f = &fields[i]
					break
				}
			}
			if f == nil {
				for i := range fields {
					if strings.EqualFold(fields[i].name, k) {
						f = &fields[i]
						break
					}
				}
			}
			if f == nil {
				continue
			}
			cur := addr
			ct := t
			for _, i := range f.index {
				if p, isPtr := ct.Underlying().(*types.Pointer); isPtr {
					pv := (*cur).(*value)
					if pv == nil {
						cell := zero(p.Elem())
						pv = &cell
						*cur = pv
					}
					cur = pv
					ct = p.Elem()
				}
				st := ct.Underlying().(*types.Struct)
				cur = &(*cur).(structure)[i]
				ct = st.Field(i).Type()
			}
			val := n.vals[ki]
			if f.quoted && val.kind == 's' {
				inner, err := parseJSON([]byte(fr.concreteString(val.leaf)))
				if err == nil {
					val = inner
				}
			}
			fr.jsonDecode(ds, val, f.typ, cur)
		}
	case *types.Slice:
		if n.kind == 's' {
			if b, ok := u.Elem().Underlying().(*types.Basic); ok && b.Kind() == types.Uint8 {
				dec, err := base64.StdEncoding.DecodeString(fr.concreteString(n.leaf))
				if err != nil {
					if ds.firstErr == "" {
						ds.firstErr = err.Error()
					}
					return
				}
				*addr = bytesVal(dec)
				if dec == nil {
					*addr = []value{}
				}
				return
			}
		}
		if n.kind != 'a' {
			ds.typeErr(n.kindName(), t)
			return
		}
		// as encoding/json does: elements are decoded into the slice's existing backing array as far as its capacity
		// reaches, WITHOUT being zeroed first (a field the text omits keeps what the slot held before); beyond the
		// capacity the slice grows with zero elements
		prev, _ := (*addr).([]value)
		out := prev[:0]
		for i := range n.vals {
			if i < cap(prev) {
				out = prev[:i+1]
				if out[i] == nil {
					out[i] = zero(u.Elem())
				}
			} else {
				out = append(out, zero(u.Elem()))
				prev = out
			}
			fr.jsonDecode(ds, n.vals[i], u.Elem(), &out[i])
		}
		if len(n.vals) == 0 {
			out = []value{}
		}
		*addr = out
	case *types.Array:
		if n.kind != 'a' {
			ds.typeErr(n.kindName(), t)
			return
		}
		arr := (*addr).(array)
		for i := range arr {
			if i < len(n.vals) {
				fr.jsonDecode(ds, n.vals[i], u.Elem(), &arr[i])
			} else {
				arr[i] = zero(u.Elem())
			}
		}
	case *types.Map:
		if n.kind != 'o' {
			ds.typeErr(n.kindName(), t)
			return
		}
		m := (*addr).(*omap)
		if m == nil {
			m = newOmap()
			*addr = m
		}
		for ki, k := range n.names {
			var key value
			switch {
			case basicKind(u.Key()) == types.String:
				key = k
			case kindWidth(basicKind(u.Key())) > 0:
				x, err := strconv.ParseInt(k, 10, 64)
				if err != nil {
					ds.typeErr("number "+k, u.Key())
					continue
				}
				key = convC(u.Key(), types.Typ[types.Int64], x)
			default:
				ds.typeErr("object key", u.Key())
				continue
			}
			cell := zero(u.Elem())
			if old, ok := m.get(key); ok {
				cell = copyVal(old)
			}
			fr.jsonDecode(ds, n.vals[ki], u.Elem(), &cell)
			m.set(key, cell)
		}
	default:
		ds.typeErr(n.kindName(), t)
	}
}

func registerJSONModels(e *Engine) {
	e.models["encoding/json.Marshal"] = func(fr *frame, fn *ssa.Function, args []value) (res value) {
		defer func() {
			if r := recover(); r != nil {
				if je, ok := r.(jsonEncErr); ok {
					res = tuple{[]value(nil), fr.p.eng.newErrorString(je.msg)}
					return
				}
				panic(r)
			}
		}()
		in := args[0].(iface)
		n := &jnode{kind: 'z'}
		if in.t != nil {
			n = fr.jsonEncode(in.v, in.t, false, nil)
		}
		return tuple{bytesVal(fr.jsonText(n)), iface{}}
	}
	e.models["encoding/json.Unmarshal"] = func(fr *frame, fn *ssa.Function, args []value) value {
		data := fr.concreteBytes(args[0], "json text")
		target := args[1].(iface)
		n, err := fr.jsonTree(data)
		if err != nil {
			return fr.p.eng.newErrorString(err.Error())
		}
		var pt *types.Pointer
		if target.t != nil {
			pt, _ = target.t.Underlying().(*types.Pointer)
		}
		if pt == nil || target.v.(*value) == nil {
			return fr.p.eng.newErrorString("json: Unmarshal(non-pointer or nil)")
		}
		ds := &jsonDecState{}
		fr.jsonDecode(ds, n, pt.Elem(), target.v.(*value))
		if ds.firstErr != "" {
			return fr.p.eng.newErrorString(ds.firstErr)
		}
		return iface{}
	}
}
