package ssaexec

import (
	"go/token"
	"go/types"

	"golang.org/x/tools/go/ssa"
)

const unixToInternal int64 = (1969*365 + 1969/4 - 1969/100 + 1969/400) * 86400

func registerSyncTimeModels(e *Engine) {
	// ---- sync.Mutex / RWMutex: explicit lock objects keyed by address; single-threaded semantics:
	// acquiring a lock that is already held can never succeed => self-deadlock.
	e.models["(*sync.Mutex).Lock"] = func(fr *frame, fn *ssa.Function, args []value) value {
		l := fr.p.lockOf(fr.derefPtr(args[0]), "Mutex")
		if l.writer {
			panic(abortPath{kind: "deadlock", reason: "Lock of a mutex already held by this thread (" + l.name + ") @ " + fr.stack()})
		}
		l.writer = true
		return nil
	}
	e.models["(*sync.Mutex).TryLock"] = func(fr *frame, fn *ssa.Function, args []value) value {
		l := fr.p.lockOf(fr.derefPtr(args[0]), "Mutex")
		if l.writer {
			return false
		}
		l.writer = true
		return true
	}
	e.models["(*sync.Mutex).Unlock"] = func(fr *frame, fn *ssa.Function, args []value) value {
		l := fr.p.lockOf(fr.derefPtr(args[0]), "Mutex")
		if !l.writer {
			panic(targetPanic{msg: "fatal error: sync: unlock of unlocked mutex", pos: fr.stack()})
		}
		l.writer = false
		return nil
	}
	e.models["(*sync.RWMutex).Lock"] = func(fr *frame, fn *ssa.Function, args []value) value {
		l := fr.p.lockOf(fr.derefPtr(args[0]), "RWMutex")
		if l.writer || l.readers > 0 {
			panic(abortPath{kind: "deadlock", reason: "Lock of an RWMutex already held by this thread (" + l.name + ") @ " + fr.stack()})
		}
		l.writer = true
		return nil
	}
	e.models["(*sync.RWMutex).Unlock"] = func(fr *frame, fn *ssa.Function, args []value) value {
		l := fr.p.lockOf(fr.derefPtr(args[0]), "RWMutex")
		if !l.writer {
			panic(targetPanic{msg: "fatal error: sync: Unlock of unlocked RWMutex", pos: fr.stack()})
		}
		l.writer = false
		return nil
	}
	e.models["(*sync.RWMutex).RLock"] = func(fr *frame, fn *ssa.Function, args []value) value {
		l := fr.p.lockOf(fr.derefPtr(args[0]), "RWMutex")
		if l.writer {
			panic(abortPath{kind: "deadlock", reason: "RLock of an RWMutex write-held by this thread (" + l.name + ") @ " + fr.stack()})
		}
		l.readers++
		return nil
	}
	e.models["(*sync.RWMutex).RUnlock"] = func(fr *frame, fn *ssa.Function, args []value) value {
		l := fr.p.lockOf(fr.derefPtr(args[0]), "RWMutex")
		if l.readers == 0 {
			panic(targetPanic{msg: "fatal error: sync: RUnlock of unlocked RWMutex", pos: fr.stack()})
		}
		l.readers--
		return nil
	}
	e.models["(*sync.Once).Do"] = func(fr *frame, fn *ssa.Function, args []value) value {
		key := fr.derefPtr(args[0])
		tab, _ := fr.p.sideTable["once"].(map[*value]bool)
		if tab == nil {
			tab = map[*value]bool{}
			fr.p.sideTable["once"] = tab
		}
		if !tab[key] {
			tab[key] = true
			call(fr.p, fr, token.NoPos, args[1], nil)
		}
		return nil
	}
	e.models["(*sync.WaitGroup).Add"] = modelNoop
	e.models["(*sync.WaitGroup).Done"] = modelNoop
	e.models["(*sync.WaitGroup).Wait"] = modelNoop

	// ---- time: a deterministic, strictly increasing clock (one second per call).
	e.models["time.Now"] = func(fr *frame, fn *ssa.Function, args []value) value {
		fr.p.clock++
		return structure{uint64(0), fr.p.clock + unixToInternal, (*value)(nil)}
	}
	e.models["time.Sleep"] = modelNoop
	e.models["time.After"] = func(fr *frame, fn *ssa.Function, args []value) value {
		return &channel{cap: 1, buf: []value{structure{uint64(0), fr.p.clock + unixToInternal, (*value)(nil)}}}
	}
	e.models["(time.Time).Format"] = func(fr *frame, fn *ssa.Function, args []value) value {
		return opaqueMark + "time"
	}
	e.models["(time.Time).String"] = func(fr *frame, fn *ssa.Function, args []value) value {
		return opaqueMark + "time"
	}
	_ = types.Typ
}
