package ssaexec

import (
	"go/token"
	"go/types"
	"time"

	"golang.org/x/tools/go/ssa"
)

const unixToInternal int64 = (1969*365 + 1969/4 - 1969/100 + 1969/400) * 86400

func registerSyncTimeModels(e *Engine) {
	// ---- sync.Mutex / RWMutex: explicit lock objects keyed by address; single-threaded semantics:
	// acquiring a lock that is already held can never succeed => self-deadlock.
	wouldBlock := func(fr *frame, l *lockState) {
		// held by another logical thread: this interleaving cannot happen at this point (the caller would wait)
		panic(abortPath{kind: "infeasible", reason: "would block on " + l.name + " held by another logical thread"})
	}
	selfDeadlock := func(fr *frame, l *lockState, what string) {
		panic(abortPath{kind: "deadlock", reason: what + " of a lock already held by the same thread (" + l.name + ") @ " + fr.stack()})
	}
	lockW := func(kind string) modelFn {
		return func(fr *frame, fn *ssa.Function, args []value) value {
			l := fr.p.lockOf(fr.derefPtr(args[0]), kind)
			me := fr.p.thread
			if l.writer {
				if l.owner == me {
					selfDeadlock(fr, l, "Lock")
				}
				wouldBlock(fr, l)
			}
			if l.readers > 0 {
				if l.rby[me] > 0 {
					selfDeadlock(fr, l, "Lock")
				}
				wouldBlock(fr, l)
			}
			l.writer, l.owner = true, me
			return nil
		}
	}
	unlockW := func(kind string) modelFn {
		return func(fr *frame, fn *ssa.Function, args []value) value {
			l := fr.p.lockOf(fr.derefPtr(args[0]), kind)
			if !l.writer {
				panic(targetPanic{msg: "fatal error: sync: unlock of unlocked " + kind, pos: fr.stack()})
			}
			l.writer = false
			return nil
		}
	}
	e.models["(*sync.Mutex).Lock"] = lockW("Mutex")
	e.models["(*sync.Mutex).Unlock"] = unlockW("Mutex")
	e.models["(*sync.Mutex).TryLock"] = func(fr *frame, fn *ssa.Function, args []value) value {
		l := fr.p.lockOf(fr.derefPtr(args[0]), "Mutex")
		if l.writer {
			return false
		}
		l.writer, l.owner = true, fr.p.thread
		return true
	}
	e.models["(*sync.RWMutex).Lock"] = lockW("RWMutex")
	e.models["(*sync.RWMutex).Unlock"] = unlockW("RWMutex")
	e.models["(*sync.RWMutex).RLock"] = func(fr *frame, fn *ssa.Function, args []value) value {
		l := fr.p.lockOf(fr.derefPtr(args[0]), "RWMutex")
		me := fr.p.thread
		if l.writer {
			if l.owner == me {
				selfDeadlock(fr, l, "RLock")
			}
			wouldBlock(fr, l)
		}
		if l.rby == nil {
			l.rby = map[int]int{}
		}
		if l.rby[me] > 0 && fr.p.race != nil && fr.p.race.active && !fr.p.race.rlockReported {
			// a goroutine read-locking a RWMutex it already read-holds deadlocks as soon as a writer queues up between
			// the two RLock calls (sync.RWMutex blocks new readers while a writer waits); reported inside verifRace,
			// where the native replay runs the other closure (a writer) concurrently in a stress loop
			fr.p.race.rlockReported = true
			fr.p.violationCandidate(fr, "deadlock", fr.p.h.Prop+"/recursive-rlock", "recursive read lock: RLock of "+l.name+" by a goroutine that already read-holds it @ "+fr.stack())
		}
		l.rby[me]++
		l.readers++
		return nil
	}
	e.models["(*sync.RWMutex).RUnlock"] = func(fr *frame, fn *ssa.Function, args []value) value {
		l := fr.p.lockOf(fr.derefPtr(args[0]), "RWMutex")
		if l.readers == 0 {
			panic(targetPanic{msg: "fatal error: sync: RUnlock of unlocked RWMutex", pos: fr.stack()})
		}
		l.rby[fr.p.thread]--
		l.readers--
		return nil
	}
	e.models["(*sync.Once).Do"] = func(fr *frame, fn *ssa.Function, args []value) value {
		key := fr.derefPtr(args[0])
		tab, _ := fr.p.sideTable["once"].(map[*value]bool)
		if tab == nil {
			tab = map[*value]bool{}
			fr.p.sideTable["once"] = tab
		}
		if !tab[key] {
			tab[key] = true
			call(fr.p, fr, token.NoPos, args[1], nil)
		}
		return nil
	}
	e.models["(*sync.WaitGroup).Add"] = modelNoop
	e.models["(*sync.WaitGroup).Done"] = modelNoop
	e.models["(*sync.WaitGroup).Wait"] = func(fr *frame, fn *ssa.Function, args []value) value {
		fr.p.runQueuedGoroutines(fr)
		return nil
	}

	// ---- time: a deterministic, strictly increasing clock (one second per call).
	e.models["time.Now"] = func(fr *frame, fn *ssa.Function, args []value) value {
		fr.p.clock++
		return structure{uint64(0), fr.p.clock + unixToInternal, (*value)(nil)}
	}
	e.models["time.Sleep"] = modelNoop
	e.models["time.After"] = func(fr *frame, fn *ssa.Function, args []value) value {
		return &channel{cap: 1, buf: []value{structure{uint64(0), fr.p.clock + unixToInternal, (*value)(nil)}}}
	}
	e.models["(time.Time).Format"] = func(fr *frame, fn *ssa.Function, args []value) value {
		return opaqueMark + "time"
	}
	// JSON form of the engine's time values (whole seconds, UTC)
	e.models["(time.Time).MarshalJSON"] = func(fr *frame, fn *ssa.Function, args []value) value {
		t := args[0].(structure)
		sec := fr.concreteInt(t[1])
		b, err := time.Unix(sec-unixToInternal, 0).UTC().MarshalJSON()
		if err != nil {
			return tuple{[]value(nil), fr.p.eng.newErrorString(err.Error())}
		}
		return tuple{bytesVal(b), iface{}}
	}
	e.models["(*time.Time).UnmarshalJSON"] = func(fr *frame, fn *ssa.Function, args []value) value {
		b, ok := bytesOf(fr, args[1])
		if !ok {
			fr.unmodelled("time.UnmarshalJSON of symbolic text")
		}
		var t time.Time
		if err := t.UnmarshalJSON(b); err != nil {
			return fr.p.eng.newErrorString(err.Error())
		}
		*fr.derefPtr(args[0]) = structure{uint64(0), t.Unix() + unixToInternal, (*value)(nil)}
		return iface{}
	}
	e.models["(time.Time).String"] = func(fr *frame, fn *ssa.Function, args []value) value {
		return opaqueMark + "time"
	}
	_ = types.Typ
}
