package ssaexec

import (
	"regexp"

	"golang.org/x/tools/go/ssa"
)

// regexp: compiled expressions are opaque handles (pointer to a zero regexp.Regexp) whose pattern is kept in a
// per-path table; the methods galaxy uses are evaluated with the real regexp package on concrete strings.
func registerRegexpModels(e *Engine) {
	pats := func(fr *frame) map[*value]*regexp.Regexp {
		m, _ := fr.p.sideTable["regexp"].(map[*value]*regexp.Regexp)
		if m == nil {
			m = map[*value]*regexp.Regexp{}
			fr.p.sideTable["regexp"] = m
		}
		return m
	}
	compile := func(must bool) modelFn {
		return func(fr *frame, fn *ssa.Function, args []value) value {
			pat := fr.concreteString(args[0])
			re, err := regexp.Compile(pat)
			var rt = fn.Signature.Results().At(0).Type()
			if err != nil {
				if must {
					panic(targetPanic{msg: "regexp: Compile(" + pat + "): " + err.Error(), pos: fr.stack()})
				}
				return tuple{zero(rt), fr.p.eng.newErrorString(err.Error())}
			}
			cell := zero(mustDeref(rt))
			pats(fr)[&cell] = re
			if must {
				return &cell
			}
			return tuple{&cell, iface{}}
		}
	}
	e.models["regexp.MustCompile"] = compile(true)
	e.models["regexp.Compile"] = compile(false)
	get := func(fr *frame, v value) *regexp.Regexp {
		re := pats(fr)[v.(*value)]
		if re == nil {
			fr.unmodelled("method call on a regexp that was not compiled on this path")
		}
		return re
	}
	strs := func(ss []string) value {
		if ss == nil {
			return []value(nil)
		}
		out := make([]value, len(ss))
		for i, s := range ss {
			out[i] = s
		}
		return out
	}
	e.models["(*regexp.Regexp).MatchString"] = func(fr *frame, fn *ssa.Function, args []value) value {
		return get(fr, args[0]).MatchString(fr.concreteString(args[1]))
	}
	e.models["(*regexp.Regexp).FindString"] = func(fr *frame, fn *ssa.Function, args []value) value {
		return get(fr, args[0]).FindString(fr.concreteString(args[1]))
	}
	e.models["(*regexp.Regexp).FindStringSubmatch"] = func(fr *frame, fn *ssa.Function, args []value) value {
		return strs(get(fr, args[0]).FindStringSubmatch(fr.concreteString(args[1])))
	}
	e.models["(*regexp.Regexp).FindAllString"] = func(fr *frame, fn *ssa.Function, args []value) value {
		return strs(get(fr, args[0]).FindAllString(fr.concreteString(args[1]), int(fr.concreteInt(args[2]))))
	}
	e.models["(*regexp.Regexp).FindAllStringSubmatch"] = func(fr *frame, fn *ssa.Function, args []value) value {
		res := get(fr, args[0]).FindAllStringSubmatch(fr.concreteString(args[1]), int(fr.concreteInt(args[2])))
		if res == nil {
			return []value(nil)
		}
		out := make([]value, len(res))
		for i, r := range res {
			out[i] = strs(r)
		}
		return out
	}
	e.models["(*regexp.Regexp).ReplaceAllString"] = func(fr *frame, fn *ssa.Function, args []value) value {
		return get(fr, args[0]).ReplaceAllString(fr.concreteString(args[1]), fr.concreteString(args[2]))
	}
	e.models["(*regexp.Regexp).String"] = func(fr *frame, fn *ssa.Function, args []value) value {
		return get(fr, args[0]).String()
	}
	e.models["(*regexp.Regexp).Match"] = func(fr *frame, fn *ssa.Function, args []value) value {
		return get(fr, args[0]).Match(fr.concreteBytes(args[1], "regexp input"))
	}
}
