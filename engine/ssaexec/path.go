package ssaexec

import (
	"fmt"
	"go/token"
	"go/types"
	"sort"
	"strings"

	"golang.org/x/tools/go/ssa"

	"gosym/smt"
)

// Decision is one recorded outcome at a point where execution depends on symbolic data.
type Decision struct {
	K byte   // 'b' branch, 'c' choice, 'e' concretize-equal, 'n' concretize-not-equal
	V int64  // branch: 0/1; choice: index; concretize: integer value
	S string // concretize: string value
	N int    // choice: number of alternatives
}

func (d Decision) String() string {
	switch d.K {
	case 'b':
		return fmt.Sprintf("b%d", d.V)
	case 'c':
		return fmt.Sprintf("c%d/%d", d.V, d.N)
	case 'e':
		return fmt.Sprintf("e(%d%q)", d.V, d.S)
	case 'n':
		return fmt.Sprintf("n(%d%q)", d.V, d.S)
	}
	return "?"
}

// TapeEntry is one value handed to the harness by a nondet* primitive, in call order.
type TapeEntry struct {
	K string `json:"k"`           // bool,u8,u16,u32,u64,int,choice,str
	V uint64 `json:"v"`           // numeric value (two's complement for int)
	S string `json:"s,omitempty"` // string value
}

type nondetRec struct {
	kind string
	term *smt.Term // nil for choices
	val  int64     // for choices
}

type lockState struct {
	writer  bool
	owner   int         // logical thread holding the write lock
	readers int
	rby     map[int]int // read holds per logical thread
	name    string
}

// Violation is a counterexample candidate produced by the solver; it still has to be replayed.
type Violation struct {
	Harness   string      `json:"harness"`
	AssertID  string      `json:"assert_id"`
	Msg       string      `json:"msg"`
	Kind      string      `json:"kind"` // assert | panic | lock-held | unwind | deadlock | race
	RaceSig   string      `json:"race_sig,omitempty"`
	Tape      []TapeEntry `json:"tape"`
	Decisions string      `json:"decisions"`
	Where     string      `json:"where"`
	Known     string      `json:"known,omitempty"` // known-finding id matching this instance
	PathCond  string      `json:"path_condition,omitempty"`
}

type PathStats struct {
	Steps      int64
	Branches   int
	Forks      int
	Queries    int
	Unknowns   int
	GoStmts    int
	Concretize int
	Fallbacks  int
	RaceAccesses int
	RaceShared   int
}

// Path is the state of one execution.
type Path struct {
	eng    *Engine
	h      *Harness
	solver *smt.Solver
	fallback func(kind string) *smt.Solver // lazily started secondary solvers of this worker
	st     *smt.Store

	prefix []Decision
	pos    int
	taken  []Decision

	pc       []*smt.Term
	asserted int
	pushed   bool

	nondets []nondetRec
	globals map[*ssa.Global]*value
	inited  map[*ssa.Package]bool
	locks   map[*value]*lockState
	lockSeq int
	co      *coState // second logical thread (coroutine), if any
	thread  int // current logical thread (verifThread); interference windows run another operation as thread 2
	clock   int64
	depth   int
	stats   PathStats
	unwind  map[ssa.Instruction]int
	unwindBound int
	stepBudget  int64

	race       *raceRec
	goQueue    []queuedGo // goroutines of a fork-join function, spawned and not yet run
	lazyInit   map[*ssa.Package]bool // dependency packages whose initialiser was run on demand on this path
	forceExec  *ssa.Function         // a package initialiser that is executed although initialisers are skipped by default
	knownPreds []knownPred
	sideTable  map[string]interface{} // per-path model state (json side table, once, waitgroups …)
	trace      []string

	violations []Violation
	reach      map[string]int
	asserts    map[string]int
	inconclusive []string
	siblings   [][]Decision
	execFns    map[*ssa.Function]int
	modelFns   map[*ssa.Function]int
}

func (p *Path) noteExec(fn *ssa.Function)  { p.execFns[fn]++ }
func (p *Path) noteModel(fn *ssa.Function) { p.modelFns[fn]++ }

type knownPred struct {
	id   string
	pred *smt.Term
}

func (p *Path) step(fr *frame) {
	p.stats.Steps++
	if p.stats.Steps > p.stepBudget {
		panic(abortPath{kind: "steps", reason: fmt.Sprintf("step budget %d exhausted @ %s", p.stepBudget, fr.stack())})
	}
}

func (p *Path) addPC(c *smt.Term) {
	if c.IsTrue() {
		return
	}
	p.pc = append(p.pc, c)
}

func (p *Path) sync() {
	if !p.pushed {
		p.solver.Push()
		p.pushed = true
	}
	for ; p.asserted < len(p.pc); p.asserted++ {
		p.solver.Assert(p.st, p.pc[p.asserted])
	}
}

func (p *Path) check(extra ...*smt.Term) smt.Result {
	p.sync()
	p.stats.Queries++
	r := p.solver.Check(p.st, extra...)
	if r == smt.Unknown {
		r = p.fallbackCheck(extra...)
	}
	if r == smt.Unknown {
		p.stats.Unknowns++
	}
	return r
}

// fallbackCheck re-runs a query the primary solver gave up on with the other installed solvers
// (a portfolio: the path condition is re-asserted from scratch in each of them).
func (p *Path) fallbackCheck(extra ...*smt.Term) smt.Result {
	if p.fallback == nil {
		return smt.Unknown
	}
	for _, kind := range []string{"z3-new", "cvc5", "z3"} {
		if kind == p.solver.Kind {
			continue
		}
		fs := p.fallback(kind)
		if fs == nil {
			continue
		}
		fs.Reset()
		fs.Push()
		for _, c := range p.pc {
			fs.Assert(p.st, c)
		}
		r := fs.Check(p.st, extra...)
		fs.Reset()
		p.stats.Fallbacks++
		if r != smt.Unknown {
			return r
		}
	}
	return smt.Unknown
}

func (p *Path) countUnwind(fr *frame, instr ssa.Instruction) {
	if instr == nil {
		return
	}
	if fr.unwind == nil {
		fr.unwind = map[ssa.Instruction]int{}
	}
	fr.unwind[instr]++
	if fr.unwind[instr] > p.unwindBound {
		panic(abortPath{kind: "unwind", reason: fmt.Sprintf("symbolic branch taken more than %d times in one function activation @ %s", p.unwindBound, fr.stack())})
	}
}

// branchValue decides an If condition.
func (p *Path) branchValue(fr *frame, instr ssa.Instruction, c value) bool {
	if b, ok := c.(bool); ok {
		return b
	}
	return p.branch(fr, instr, c.(sym).T)
}

// branch decides a symbolic condition, forking if both outcomes are feasible.
func (p *Path) branch(fr *frame, instr ssa.Instruction, cond *smt.Term) bool {
	if cond.IsConst() {
		return cond.U == 1
	}
	p.stats.Branches++
	p.countUnwind(fr, instr)
	if p.pos < len(p.prefix) {
		d := p.prefix[p.pos]
		if d.K != 'b' {
			panic(engineBug{fmt.Sprintf("prefix mismatch: expected branch, have %v @ %s", d, fr.stack())})
		}
		p.pos++
		p.taken = append(p.taken, d)
		if d.V == 1 {
			p.addPC(cond)
			return true
		}
		p.addPC(p.st.Not(cond))
		return false
	}
	rt := p.check(cond)
	if rt == smt.Unsat {
		p.taken = append(p.taken, Decision{K: 'b', V: 0})
		p.addPC(p.st.Not(cond))
		return false
	}
	rf := p.check(p.st.Not(cond))
	if rf == smt.Unsat {
		p.taken = append(p.taken, Decision{K: 'b', V: 1})
		p.addPC(cond)
		return true
	}
	// both feasible (or unknown): fork
	p.stats.Forks++
	sib := append(append([]Decision{}, p.taken...), Decision{K: 'b', V: 0})
	p.siblings = append(p.siblings, sib)
	p.taken = append(p.taken, Decision{K: 'b', V: 1})
	p.addPC(cond)
	return true
}

// choose forks n ways without consulting the solver.
func (p *Path) choose(fr *frame, n int) int {
	if n <= 0 {
		panic(abortPath{kind: "infeasible", reason: "choice among zero alternatives"})
	}
	if n == 1 {
		return 0
	}
	if p.pos < len(p.prefix) {
		d := p.prefix[p.pos]
		if d.K != 'c' {
			panic(engineBug{fmt.Sprintf("prefix mismatch: expected choice, have %v @ %s", d, fr.stack())})
		}
		p.pos++
		p.taken = append(p.taken, d)
		return int(d.V)
	}
	p.stats.Forks++
	for k := 1; k < n; k++ {
		sib := append(append([]Decision{}, p.taken...), Decision{K: 'c', V: int64(k), N: n})
		p.siblings = append(p.siblings, sib)
	}
	p.taken = append(p.taken, Decision{K: 'c', V: 0, N: n})
	return 0
}

const concretizeLimit = 64

// concretize forks over the feasible values of a symbolic scalar.
func (p *Path) concretize(fr *frame, s sym) value {
	st := p.st
	p.stats.Concretize++
	constOf := func(d Decision) *smt.Term {
		switch s.K {
		case types.String:
			return st.StrC(d.S)
		case types.Bool:
			return st.BoolC(d.V == 1)
		}
		if s.T.Sort.K == smt.KInt {
			return st.IntC(d.V)
		}
		return st.BVC(kindWidth(s.K), uint64(d.V))
	}
	nExcluded := 0
	for {
		if p.pos < len(p.prefix) {
			d := p.prefix[p.pos]
			if d.K != 'e' && d.K != 'n' {
				panic(engineBug{fmt.Sprintf("prefix mismatch: expected concretize, have %v @ %s", d, fr.stack())})
			}
			p.pos++
			p.taken = append(p.taken, d)
			c := constOf(d)
			if d.K == 'e' {
				p.addPC(st.Eq(s.T, c))
				return fromTerm(c, s.K)
			}
			p.addPC(st.Not(st.Eq(s.T, c)))
			nExcluded++
			continue
		}
		if nExcluded >= concretizeLimit {
			panic(abortPath{kind: "unwind", reason: fmt.Sprintf("more than %d feasible values while concretising %s @ %s", concretizeLimit, s.T.Pretty(200), fr.stack())})
		}
		// ask for a model value
		p.sync()
		p.stats.Queries++
		v := st.Var(fmt.Sprintf("cz%d", len(p.taken)), s.T.Sort)
		r := p.solver.CheckKeep(st, st.Eq(v, s.T))
		if r == smt.Unsat {
			p.solver.Pop()
			panic(abortPath{kind: "infeasible", reason: "no further value while concretising"})
		}
		if r == smt.Unknown {
			p.solver.Pop()
			p.stats.Unknowns++
			panic(abortPath{kind: "unknown", reason: "solver unknown while concretising @ " + fr.stack()})
		}
		vals, err := p.solver.GetValues([]*smt.Term{v})
		p.solver.Pop()
		if err != nil {
			panic(abortPath{kind: "unknown", reason: "get-value failed: " + err.Error()})
		}
		mv := vals[v.S]
		d := Decision{K: 'e'}
		switch {
		case s.K == types.String:
			d.S = mv.S
		case s.T.Sort.K == smt.KInt:
			d.V = mv.I
		default:
			d.V = int64(mv.U)
		}
		c := constOf(d)
		// is any other value feasible?
		if p.check(st.Not(st.Eq(s.T, c))) != smt.Unsat {
			p.stats.Forks++
			sib := append(append([]Decision{}, p.taken...), Decision{K: 'n', V: d.V, S: d.S})
			p.siblings = append(p.siblings, sib)
		}
		p.taken = append(p.taken, d)
		p.addPC(st.Eq(s.T, c))
		return fromTerm(c, s.K)
	}
}

// ---------------------------------------------------------------- nondet / assume / assert

func (p *Path) nondetTerm(kind string, sort smt.Sort) *smt.Term {
	t := p.st.Var(fmt.Sprintf("n%d_%s", len(p.nondets), kind), sort)
	p.nondets = append(p.nondets, nondetRec{kind: kind, term: t})
	return t
}

func (p *Path) assume(fr *frame, c value) {
	if b, ok := c.(bool); ok {
		if !b {
			panic(abortPath{kind: "infeasible", reason: "assume(false)"})
		}
		return
	}
	t := c.(sym).T
	if p.pos < len(p.prefix) {
		// still replaying a known-feasible prefix: no query needed
		p.addPC(t)
		return
	}
	r := p.check(t)
	if r == smt.Unsat {
		panic(abortPath{kind: "infeasible", reason: "assumption unsatisfiable"})
	}
	p.addPC(t)
}

// model extracts the tape for the current solver frame (must follow a Sat answer).
func (p *Path) model() ([]TapeEntry, error) {
	var vars []*smt.Term
	for _, n := range p.nondets {
		if n.term != nil {
			p.solver.Define(p.st, n.term)
			vars = append(vars, n.term)
		}
	}
	tape := make([]TapeEntry, 0, len(p.nondets))
	var vals map[string]smt.Value
	if len(vars) > 0 {
		// declarations made after the check-sat need a fresh check in some solvers
		var err error
		vals, err = p.solver.GetValues(vars)
		if err != nil {
			return nil, err
		}
	}
	for _, n := range p.nondets {
		if n.term == nil {
			tape = append(tape, TapeEntry{K: "choice", V: uint64(n.val)})
			continue
		}
		mv := vals[n.term.S]
		e := TapeEntry{K: n.kind}
		if n.term.Sort.K == smt.KStr {
			e.S = mv.S
		} else {
			e.V = mv.U
		}
		tape = append(tape, e)
	}
	return tape, nil
}

func (p *Path) decisionsString() string {
	var b strings.Builder
	for _, d := range p.taken {
		b.WriteString(d.String())
		b.WriteByte(' ')
	}
	return b.String()
}

func (p *Path) pcString(limit int) string {
	var b strings.Builder
	for i, c := range p.pc {
		if i > 0 {
			b.WriteString(" ∧ ")
		}
		b.WriteString(c.Pretty(300))
		if b.Len() > limit {
			b.WriteString(" …")
			break
		}
	}
	return b.String()
}

// declareAllNondets makes every nondet variable known to the solver before a check whose model is read.
func (p *Path) declareAllNondets() {
	p.sync()
	for _, n := range p.nondets {
		if n.term != nil {
			p.solver.Define(p.st, n.term)
		}
	}
}

// violationCandidate records a counterexample for the current path condition plus extra.
func (p *Path) violationCandidate(fr *frame, kind, id, msg string, extra ...*smt.Term) smt.Result {
	p.declareAllNondets()
	p.stats.Queries++
	r := p.solver.CheckKeep(p.st, extra...)
	defer p.solver.Pop()
	switch r {
	case smt.Unsat:
		return r
	case smt.Unknown:
		if fr2 := p.fallbackCheck(extra...); fr2 == smt.Unsat {
			return smt.Unsat
		}
		// sat or unknown in the portfolio as well: without a model from the primary solver it stays inconclusive
		p.stats.Unknowns++
		p.inconclusive = append(p.inconclusive, fmt.Sprintf("%s: solver unknown for %s", p.h.Name, id))
		return r
	}
	tape, err := p.model()
	if err != nil {
		p.inconclusive = append(p.inconclusive, fmt.Sprintf("%s: model extraction failed for %s: %v", p.h.Name, id, err))
		return smt.Unknown
	}
	where := ""
	if fr != nil {
		where = fr.stack()
	}
	p.violations = append(p.violations, Violation{Harness: p.h.Name, AssertID: id, Msg: msg, Kind: kind, Tape: tape,
		Decisions: p.decisionsString(), Where: where, PathCond: p.pcString(1500)})
	return r
}

func (p *Path) assert(fr *frame, id string, c value, msg string) {
	p.asserts[id]++
	st := p.st
	known := p.knownPreds
	p.knownPreds = nil
	if b, ok := c.(bool); ok && b {
		return
	}
	neg := st.Not(fr.boolTerm(c))
	// instances covered by a listed known finding
	notKnown := st.BoolC(true)
	for _, k := range known {
		if !p.eng.KnownIDs[k.id] {
			continue
		}
		n0 := len(p.violations)
		if p.violationCandidate(fr, "assert", id, msg, neg, k.pred) == smt.Sat {
			p.violations[n0].Known = k.id
		}
		notKnown = st.And(notKnown, st.Not(k.pred))
	}
	p.violationCandidate(fr, "assert", id, msg, neg, notKnown)
	if b, ok := c.(bool); ok && !b {
		panic(abortPath{kind: "done", reason: "assertion " + id + " is false on this path"})
	}
	// continue under the assumption that the assertion held
	if p.check(c.(sym).T) == smt.Unsat {
		panic(abortPath{kind: "done", reason: "assertion " + id + " cannot hold on this path"})
	}
	p.addPC(c.(sym).T)
}

// ---------------------------------------------------------------- globals

// lazyInitDenied: dependency packages whose initialiser is never run lazily (registration-heavy; reading their
// initialised globals stays unmodelled).
func lazyInitDenied(path string) bool {
	for _, pre := range []string{"k8s.io/client-go/kubernetes/scheme", "k8s.io/api/", "google.golang.org/", "github.com/golang/protobuf", "github.com/gogo/protobuf", "net/http", "crypto/", "runtime", "reflect", "syscall", "os", "unicode"} {
		if path == pre || strings.HasPrefix(path, pre) {
			return true
		}
	}
	return false
}

func (p *Path) globalAddr(g *ssa.Global) *value {
	if a, ok := p.globals[g]; ok {
		return a
	}
	if g.Pkg != nil && !p.eng.initRuns(g.Pkg.Pkg) {
		if p.eng.hasInitializer(g) {
			name := g.Pkg.Pkg.Path() + "." + g.Name()
			if v, ok := p.eng.globalModel(p, g); ok {
				cell := v
				p.globals[g] = &cell
				return &cell
			}
			// lazily: the first read of an initialised global of a dependency package runs that package's
			// initialiser (variable initialisers and init functions; the initialisers of the packages it imports stay
			// skipped and run the same way when one of their globals is read). What the initialiser cannot execute
			// ends the path as unmodelled, as the read itself did before.
			if !p.lazyInit[g.Pkg] {
				if p.lazyInit == nil {
					p.lazyInit = map[*ssa.Package]bool{}
				}
				p.lazyInit[g.Pkg] = true
				if initFn := g.Pkg.Func("init"); initFn != nil && !lazyInitDenied(g.Pkg.Pkg.Path()) {
					g.Pkg.Build()
					func() {
						defer func() {
							if r := recover(); r != nil {
								if ab, ok := r.(abortPath); ok && ab.kind == "unmodelled" {
									panic(abortPath{kind: "unmodelled", reason: "read of dependency global " + name + ": its package initialiser could not be executed: " + ab.reason})
								}
								if tp, ok := r.(targetPanic); ok {
									panic(abortPath{kind: "unmodelled", reason: "read of dependency global " + name + ": panic in its package initialiser: " + tp.String()})
								}
								panic(r)
							}
						}()
						prev, prevThread := p.forceExec, p.thread
						p.forceExec = initFn
						// the initialiser's own accesses are not part of any thread of a race harness
						call(p, nil, token.NoPos, initFn, nil)
						p.forceExec, p.thread = prev, prevThread
					}()
					if a, ok := p.globals[g]; ok {
						return a
					}
				} else {
					panic(abortPath{kind: "unmodelled", reason: "read of dependency global with initialiser (package init not executed): " + name})
				}
			}
		}
	}
	cell := zero(mustDeref(g.Type()))
	p.globals[g] = &cell
	return &cell
}

// ---------------------------------------------------------------- locks

func (p *Path) lockOf(addr *value, name string) *lockState {
	l, ok := p.locks[addr]
	if !ok {
		p.lockSeq++
		l = &lockState{name: fmt.Sprintf("%s#%d", name, p.lockSeq)}
		p.locks[addr] = l
	}
	return l
}

func (p *Path) heldLocks() []string {
	var out []string
	for _, l := range p.locks {
		if l.writer || l.readers > 0 {
			out = append(out, l.name)
		}
	}
	sort.Strings(out)
	return out
}
