package ssaexec

import (
	"bytes"
	"fmt"
	"go/token"
	"go/types"
	"strings"

	"golang.org/x/tools/go/ssa"

	"gosym/smt"
)

// ---------------------------------------------------------------- kinds

func kindWidth(k types.BasicKind) int {
	switch k {
	case types.Int8, types.Uint8:
		return 8
	case types.Int16, types.Uint16:
		return 16
	case types.Int32, types.Uint32:
		return 32
	case types.Int, types.Int64, types.Uint, types.Uint64, types.Uintptr:
		return 64
	}
	return 0
}

func kindSigned(k types.BasicKind) bool {
	switch k {
	case types.Int, types.Int8, types.Int16, types.Int32, types.Int64:
		return true
	}
	return false
}

func basicKind(t types.Type) types.BasicKind {
	if b, ok := t.Underlying().(*types.Basic); ok {
		k := b.Kind()
		switch k {
		case types.UntypedBool:
			return types.Bool
		case types.UntypedInt:
			return types.Int
		case types.UntypedRune:
			return types.Int32
		case types.UntypedString:
			return types.String
		}
		return k
	}
	return types.Invalid
}

func kindOfValue(v value) types.BasicKind {
	switch v := v.(type) {
	case bool:
		return types.Bool
	case int:
		return types.Int
	case int8:
		return types.Int8
	case int16:
		return types.Int16
	case int32:
		return types.Int32
	case int64:
		return types.Int64
	case uint:
		return types.Uint
	case uint8:
		return types.Uint8
	case uint16:
		return types.Uint16
	case uint32:
		return types.Uint32
	case uint64:
		return types.Uint64
	case uintptr:
		return types.Uintptr
	case string:
		return types.String
	case sym:
		return v.K
	}
	return types.Invalid
}

// toSym lifts a concrete scalar to a term of kind k (x may already be symbolic).
func (fr *frame) toSym(x value, k types.BasicKind) sym {
	st := fr.p.st
	switch x := x.(type) {
	case sym:
		return x
	case bool:
		return sym{st.BoolC(x), types.Bool}
	case string:
		return sym{st.StrC(x), types.String}
	}
	if w := kindWidth(k); w > 0 {
		return sym{st.BVC(w, uint64(asInt64(x))), k}
	}
	panic(fmt.Sprintf("toSym: cannot lift %T to kind %v", x, k))
}

func isIntSort(v value) bool {
	s, ok := v.(sym)
	return ok && s.T.Sort.K == smt.KInt
}

// intTerm returns the mathematical-integer term of an integer value (Int-sorted symbol, BV symbol or concrete).
func (fr *frame) intTerm(v value) *smt.Term {
	st := fr.p.st
	if s, ok := v.(sym); ok {
		if s.T.Sort.K == smt.KInt {
			return s.T
		}
		if kindSigned(s.K) {
			fr.unmodelled("mixing a signed bit-vector symbol with a mathematical integer symbol")
		}
		return st.Bv2Nat(s.T)
	}
	return st.IntC(asInt64(v))
}

// fromTerm converts a constant term back into a native Go value of kind k; otherwise wraps it.
func fromTerm(t *smt.Term, k types.BasicKind) value {
	if !t.IsConst() {
		return sym{t, k}
	}
	if t.Sort.K == smt.KInt {
		t = &smt.Term{Op: smt.OConst, Sort: smt.BV(64), U: uint64(t.I)}
	}
	switch k {
	case types.Bool:
		return t.U == 1
	case types.String:
		return t.S
	case types.Int:
		return int(int64(t.U))
	case types.Int8:
		return int8(t.U)
	case types.Int16:
		return int16(t.U)
	case types.Int32:
		return int32(t.U)
	case types.Int64:
		return int64(t.U)
	case types.Uint:
		return uint(t.U)
	case types.Uint8:
		return uint8(t.U)
	case types.Uint16:
		return uint16(t.U)
	case types.Uint32:
		return uint32(t.U)
	case types.Uint64:
		return t.U
	case types.Uintptr:
		return uintptr(t.U)
	}
	panic(fmt.Sprintf("fromTerm: kind %v", k))
}

func (fr *frame) symEq(x, y sym) value {
	return fromTerm(fr.p.st.Eq(x.T, y.T), types.Bool)
}

// and is a fork-free conjunction over bool|sym values.
func (fr *frame) and(a, b value) value {
	if ab, ok := a.(bool); ok {
		if !ab {
			return false
		}
		return b
	}
	if bb, ok := b.(bool); ok {
		if !bb {
			return false
		}
		return a
	}
	return fromTerm(fr.p.st.And(a.(sym).T, b.(sym).T), types.Bool)
}

func (fr *frame) or(a, b value) value {
	if ab, ok := a.(bool); ok {
		if ab {
			return true
		}
		return b
	}
	if bb, ok := b.(bool); ok {
		if bb {
			return true
		}
		return a
	}
	return fromTerm(fr.p.st.Or(a.(sym).T, b.(sym).T), types.Bool)
}

func (fr *frame) not(a value) value {
	if ab, ok := a.(bool); ok {
		return !ab
	}
	return fromTerm(fr.p.st.Not(a.(sym).T), types.Bool)
}

func (fr *frame) boolTerm(a value) *smt.Term {
	if ab, ok := a.(bool); ok {
		return fr.p.st.BoolC(ab)
	}
	return a.(sym).T
}

// ---------------------------------------------------------------- binop / unop / conv

func binop(fr *frame, op token.Token, t types.Type, x, y value) value {
	sx, okx := x.(sym)
	sy, oky := y.(sym)
	if !okx && !oky {
		if xs, isStr := x.(string); isStr && op != token.ADD {
			ys := y.(string)
			if hasOpaque(xs) || hasOpaque(ys) {
				// a JSON document with symbolic leaves is never the empty string
				if (op == token.EQL || op == token.NEQ) && (xs == "" || ys == "") &&
					(strings.HasPrefix(xs, jsonTokenPrefix) || strings.HasPrefix(ys, jsonTokenPrefix)) {
					return op == token.NEQ
				}
				fr.unmodelled("comparison of a string whose text was not computed exactly")
			}
		}
		switch op {
		case token.EQL:
			return eqnil(fr, t, x, y)
		case token.NEQ:
			return fr.not(eqnil(fr, t, x, y))
		}
		return binopC(op, t, x, y)
	}
	st := fr.p.st
	// shifts: operand kinds may differ
	if op == token.SHL || op == token.SHR {
		kx := kindOfValue(x)
		if !okx {
			sx = fr.toSym(x, kx)
		}
		ky := kindOfValue(y)
		if !oky {
			sy = fr.toSym(y, ky)
		}
		w, wy := kindWidth(kx), kindWidth(ky)
		cnt := sy.T
		if kindSigned(ky) {
			neg := st.BvCmp(smt.OBvSlt, cnt, st.BVC(wy, 0))
			if fr.p.branch(fr, nil, neg) {
				fr.runtimePanic("negative shift amount")
			}
		}
		var over *smt.Term // count >= w
		if wy > w {
			over = st.BvCmp(smt.OBvUle, st.BVC(wy, uint64(w)), cnt)
			cnt = st.Extract(cnt, w-1, 0)
		} else {
			cnt = st.Zext(cnt, w-wy)
			over = st.BvCmp(smt.OBvUle, st.BVC(w, uint64(w)), cnt)
		}
		var r, sat *smt.Term
		if op == token.SHL {
			r = st.BvBin(smt.OBvShl, sx.T, cnt)
			sat = st.BVC(w, 0)
		} else if kindSigned(kx) {
			r = st.BvBin(smt.OBvAshr, sx.T, cnt)
			sat = st.BvBin(smt.OBvAshr, sx.T, st.BVC(w, uint64(w-1)))
		} else {
			r = st.BvBin(smt.OBvLshr, sx.T, cnt)
			sat = st.BVC(w, 0)
		}
		return fromTerm(st.Ite(over, sat, r), kx)
	}
	if isIntSort(x) || isIntSort(y) {
		// mathematical integers (string lengths and indexes): linear integer arithmetic, no wrap-around modelled
		k := kindOfValue(x)
		if !okx {
			k = kindOfValue(y)
		}
		a, b := fr.intTerm(x), fr.intTerm(y)
		switch op {
		case token.ADD:
			return fromTerm(st.IntBin(smt.OIntAdd, a, b), k)
		case token.SUB:
			return fromTerm(st.IntBin(smt.OIntSub, a, b), k)
		case token.EQL:
			return fromTerm(st.Eq(a, b), types.Bool)
		case token.NEQ:
			return fromTerm(st.Not(st.Eq(a, b)), types.Bool)
		case token.LSS:
			return fromTerm(st.IntBin(smt.OIntLt, a, b), types.Bool)
		case token.LEQ:
			return fromTerm(st.IntBin(smt.OIntLe, a, b), types.Bool)
		case token.GTR:
			return fromTerm(st.IntBin(smt.OIntLt, b, a), types.Bool)
		case token.GEQ:
			return fromTerm(st.IntBin(smt.OIntLe, b, a), types.Bool)
		}
		fr.unmodelled("operator %s on a mathematical integer symbol (string length/index)", op)
	}
	var k types.BasicKind
	if okx {
		k = sx.K
		sy = fr.toSym(y, k)
	} else {
		k = sy.K
		sx = fr.toSym(x, k)
	}
	a, b := sx.T, sy.T
	switch k {
	case types.Bool:
		switch op {
		case token.EQL:
			return fromTerm(st.Eq(a, b), types.Bool)
		case token.NEQ:
			return fromTerm(st.Not(st.Eq(a, b)), types.Bool)
		}
	case types.String:
		switch op {
		case token.ADD:
			return fromTerm(st.StrConcat(a, b), types.String)
		case token.EQL:
			return fromTerm(st.Eq(a, b), types.Bool)
		case token.NEQ:
			return fromTerm(st.Not(st.Eq(a, b)), types.Bool)
		case token.LSS:
			return fromTerm(st.StrOp(smt.OStrLt, smt.Bool, a, b), types.Bool)
		case token.LEQ:
			return fromTerm(st.StrOp(smt.OStrLe, smt.Bool, a, b), types.Bool)
		case token.GTR:
			return fromTerm(st.StrOp(smt.OStrLt, smt.Bool, b, a), types.Bool)
		case token.GEQ:
			return fromTerm(st.StrOp(smt.OStrLe, smt.Bool, b, a), types.Bool)
		}
	default:
		w := kindWidth(k)
		if w == 0 {
			fr.unmodelled("symbolic operand of kind %v in %s", k, op)
		}
		signed := kindSigned(k)
		switch op {
		case token.ADD:
			return fromTerm(st.BvBin(smt.OBvAdd, a, b), k)
		case token.SUB:
			return fromTerm(st.BvBin(smt.OBvSub, a, b), k)
		case token.MUL:
			return fromTerm(st.BvBin(smt.OBvMul, a, b), k)
		case token.AND:
			return fromTerm(st.BvBin(smt.OBvAnd, a, b), k)
		case token.OR:
			return fromTerm(st.BvBin(smt.OBvOr, a, b), k)
		case token.XOR:
			return fromTerm(st.BvBin(smt.OBvXor, a, b), k)
		case token.AND_NOT:
			return fromTerm(st.BvBin(smt.OBvAnd, a, st.BvNot(b)), k)
		case token.QUO, token.REM:
			if fr.p.branch(fr, nil, st.Eq(b, st.BVC(w, 0))) {
				fr.runtimePanic("integer divide by zero")
			}
			var o smt.Op
			switch {
			case op == token.QUO && signed:
				o = smt.OBvSdiv
			case op == token.QUO:
				o = smt.OBvUdiv
			case signed:
				o = smt.OBvSrem
			default:
				o = smt.OBvUrem
			}
			return fromTerm(st.BvBin(o, a, b), k)
		case token.EQL:
			return fromTerm(st.Eq(a, b), types.Bool)
		case token.NEQ:
			return fromTerm(st.Not(st.Eq(a, b)), types.Bool)
		case token.LSS, token.LEQ, token.GTR, token.GEQ:
			lt, le := smt.OBvUlt, smt.OBvUle
			if signed {
				lt, le = smt.OBvSlt, smt.OBvSle
			}
			switch op {
			case token.LSS:
				return fromTerm(st.BvCmp(lt, a, b), types.Bool)
			case token.LEQ:
				return fromTerm(st.BvCmp(le, a, b), types.Bool)
			case token.GTR:
				return fromTerm(st.BvCmp(lt, b, a), types.Bool)
			default:
				return fromTerm(st.BvCmp(le, b, a), types.Bool)
			}
		}
	}
	fr.unmodelled("symbolic binop %s on kind %v", op, k)
	return nil
}

// eqnil returns the comparison x == y for type t (bool or sym).
func eqnil(fr *frame, t types.Type, x, y value) value {
	switch t.Underlying().(type) {
	case *types.Map, *types.Signature, *types.Slice:
		// only comparable with nil
		return isNilRef(x) == isNilRef(y) && (isNilRef(x) || isNilRef(y))
	}
	return equals(fr, t, x, y)
}

func isNilRef(x value) bool {
	switch x := x.(type) {
	case *omap:
		return x == nil
	case *ssa.Function:
		return x == nil
	case *closure:
		return x == nil
	case []value:
		return x == nil
	case *ssa.Builtin:
		return x == nil
	case *noopCall:
		return x == nil
	}
	panic(fmt.Sprintf("isNilRef: illegal dynamic type: %T", x))
}

func unop(fr *frame, instr *ssa.UnOp, x value) value {
	switch instr.Op {
	case token.ARROW: // receive
		ch := x.(*channel)
		elem := instr.X.Type().Underlying().(*types.Chan).Elem()
		v, ok := chanRecv(fr, ch, elem)
		if instr.CommaOk {
			return tuple{v, ok}
		}
		return v
	case token.MUL:
		if fr.p.race != nil {
			fr.raceNoteCells(mustDeref(instr.X.Type()), fr.derefPtr(x), false, describeAddr(instr.X))
		}
		return load(mustDeref(instr.X.Type()), fr.derefPtr(x))
	}
	if sx, ok := x.(sym); ok {
		st := fr.p.st
		switch instr.Op {
		case token.NOT:
			return fromTerm(st.Not(sx.T), types.Bool)
		case token.SUB:
			return fromTerm(st.BvNeg(sx.T), sx.K)
		case token.XOR:
			return fromTerm(st.BvNot(sx.T), sx.K)
		}
		fr.unmodelled("symbolic unop %s", instr.Op)
	}
	switch instr.Op {
	case token.NOT:
		return !x.(bool)
	case token.SUB:
		switch x := x.(type) {
		case int:
			return -x
		case int8:
			return -x
		case int16:
			return -x
		case int32:
			return -x
		case int64:
			return -x
		case uint:
			return -x
		case uint8:
			return -x
		case uint16:
			return -x
		case uint32:
			return -x
		case uint64:
			return -x
		case uintptr:
			return -x
		case float32:
			return -x
		case float64:
			return -x
		}
	case token.XOR:
		switch x := x.(type) {
		case int:
			return ^x
		case int8:
			return ^x
		case int16:
			return ^x
		case int32:
			return ^x
		case int64:
			return ^x
		case uint:
			return ^x
		case uint8:
			return ^x
		case uint16:
			return ^x
		case uint32:
			return ^x
		case uint64:
			return ^x
		case uintptr:
			return ^x
		}
	}
	panic(fmt.Sprintf("invalid unary op %s %T", instr.Op, x))
}

func conv(fr *frame, tDst, tSrc types.Type, x value) value {
	sx, ok := x.(sym)
	if !ok {
		// []byte -> string with symbolic bytes?
		if sl, isSl := x.([]value); isSl {
			for _, e := range sl {
				if isSym(e) {
					fr.unmodelled("conversion %s -> %s of a slice holding symbolic elements", tSrc, tDst)
				}
			}
		}
		return convC(tDst, tSrc, x)
	}
	st := fr.p.st
	kd := basicKind(tDst)
	if sx.K == types.String {
		if kd == types.String {
			return x
		}
		fr.unmodelled("conversion of symbolic string to %s", tDst)
	}
	if sx.T.Sort.K == smt.KInt {
		if kindWidth(kd) > 0 {
			return sym{sx.T, kd}
		}
		fr.unmodelled("conversion of a mathematical integer symbol to %s", tDst)
	}
	ws, wd := kindWidth(sx.K), kindWidth(kd)
	if ws == 0 || wd == 0 {
		fr.unmodelled("conversion of symbolic %v to %s", sx.K, tDst)
	}
	switch {
	case wd == ws:
		return sym{sx.T, kd}
	case wd < ws:
		return fromTerm(st.Extract(sx.T, wd-1, 0), kd)
	case kindSigned(sx.K):
		return fromTerm(st.Sext(sx.T, wd-ws), kd)
	default:
		return fromTerm(st.Zext(sx.T, wd-ws), kd)
	}
}

// ---------------------------------------------------------------- indexing, slicing, maps

// concreteInt forces an integer value to be concrete on this path (forking over its feasible values).
func (fr *frame) concreteInt(v value) int64 {
	if s, ok := v.(sym); ok {
		c := fr.p.concretize(fr, s)
		return asInt64(c)
	}
	return asInt64(v)
}

func (fr *frame) concreteString(v value) string {
	if s, ok := v.(sym); ok {
		return fr.p.concretize(fr, s).(string)
	}
	return v.(string)
}

func (fr *frame) concreteBool(v value) bool {
	if s, ok := v.(sym); ok {
		return fr.p.branch(fr, nil, s.T)
	}
	return v.(bool)
}

// concreteKey makes a map key concrete (scalars only; aggregates must not hold symbols).
func (fr *frame) concreteKey(v value) value {
	switch k := v.(type) {
	case sym:
		return fr.p.concretize(fr, k)
	case structure:
		out := make(structure, len(k))
		for i := range k {
			out[i] = fr.concreteKey(k[i])
		}
		return out
	case array:
		out := make(array, len(k))
		for i := range k {
			out[i] = fr.concreteKey(k[i])
		}
		return out
	case iface:
		return iface{k.t, fr.concreteKey(k.v)}
	}
	return v
}

// index checks 0 <= idx < n (forking on the symbolic case) and returns a concrete index.
func (fr *frame) index(idx value, n int) int {
	if s, ok := idx.(sym); ok {
		st := fr.p.st
		w := kindWidth(s.K)
		var inRange *smt.Term
		if s.T.Sort.K == smt.KInt {
			inRange = st.And(st.IntBin(smt.OIntLe, st.IntC(0), s.T), st.IntBin(smt.OIntLt, s.T, st.IntC(int64(n))))
		} else if kindSigned(s.K) {
			inRange = st.And(st.BvCmp(smt.OBvSle, st.BVC(w, 0), s.T), st.BvCmp(smt.OBvSlt, s.T, st.BVC(w, uint64(n))))
		} else {
			inRange = st.BvCmp(smt.OBvUlt, s.T, st.BVC(w, uint64(n)))
		}
		if !fr.p.branch(fr, nil, inRange) {
			fr.runtimePanic("index out of range [symbolic] with length %d", n)
		}
		return int(fr.concreteInt(s))
	}
	i := asInt64(idx)
	if i < 0 || i >= int64(n) {
		fr.runtimePanic("index out of range [%d] with length %d", i, n)
	}
	return int(i)
}

func (fr *frame) symStrIndex(s sym, idx value) value {
	st := fr.p.st
	// s[i] as a byte: (str.to_code (str.at s i)) -- requires i < len; bytes only (ASCII alphabet assumed)
	i := fr.concreteInt(idx)
	ln := st.StrOp(smt.OStrLen, smt.Int, s.T)
	if !fr.p.branch(fr, nil, st.IntBin(smt.OIntLt, st.IntC(i), ln)) {
		fr.runtimePanic("index out of range [%d] of symbolic string", i)
	}
	fr.unmodelled("byte index into symbolic string")
	return nil
}

func sliceOp(fr *frame, x, lo, hi, max value) value {
	if s, ok := x.(sym); ok {
		return fr.symSubstr(s, lo, hi)
	}
	if cs, ok := x.(string); ok && (isIntSort(lo) || isIntSort(hi)) {
		return fr.symSubstr(fr.toSym(cs, types.String), lo, hi)
	}
	var Len, Cap int
	switch x := x.(type) {
	case string:
		Len = len(x)
		Cap = Len
	case []value:
		Len = len(x)
		Cap = cap(x)
	case *value: // *array
		a := (*fr.derefPtr(x)).(array)
		Len = len(a)
		Cap = cap(a)
	}
	l := int64(0)
	if lo != nil {
		l = fr.concreteInt(lo)
	}
	h := int64(Len)
	if hi != nil {
		h = fr.concreteInt(hi)
	}
	m := int64(Cap)
	if max != nil {
		m = fr.concreteInt(max)
	}
	if _, isStr := x.(string); isStr {
		if l < 0 || h < l || h > int64(Len) {
			fr.runtimePanic("slice bounds out of range [%d:%d] with length %d", l, h, Len)
		}
	} else if l < 0 || h < l || m < h || m > int64(Cap) {
		fr.runtimePanic("slice bounds out of range [%d:%d:%d] with capacity %d", l, h, m, Cap)
	}
	switch x := x.(type) {
	case string:
		return x[l:h]
	case []value:
		return x[l:h:m]
	case *value: // *array
		a := (*x).(array)
		return []value(a)[l:h:m]
	}
	panic(fmt.Sprintf("slice: unexpected X type: %T", x))
}

// lookup returns x[idx] where x is a map.
func lookup(fr *frame, instr *ssa.Lookup, x, idx value) value {
	switch x := x.(type) {
	case *omap:
		key := fr.concreteKey(idx)
		if fr.p.race != nil && x != nil {
			fr.raceNote(x, false, "map "+describeAddr(instr.X))
		}
		v, ok := x.get(key)
		if !ok {
			v = zero(instr.X.Type().Underlying().(*types.Map).Elem())
		} else {
			v = copyVal(v)
		}
		if instr.CommaOk {
			return tuple{v, ok}
		}
		return v
	case string:
		return x[fr.index(idx, len(x))]
	}
	panic(fmt.Sprintf("unexpected x type in Lookup: %T", x))
}

func rangeIter(fr *frame, x value, t types.Type) iter {
	switch x := x.(type) {
	case *omap:
		return newMapIter(fr, x)
	case string:
		return &stringIter{Reader: strings.NewReader(x)}
	case sym:
		fr.unmodelled("range over symbolic string")
	}
	panic(fmt.Sprintf("cannot range over %T", x))
}

func typeAssert(fr *frame, instr *ssa.TypeAssert, itf iface) value {
	var v value
	err := ""
	if itf.t == nil {
		err = fmt.Sprintf("interface conversion: interface is nil, not %s", instr.AssertedType)
	} else if idst, ok := instr.AssertedType.Underlying().(*types.Interface); ok {
		v = itf
		err = checkInterface(idst, itf)
	} else if types.Identical(itf.t, instr.AssertedType) {
		v = itf.v // extract value
	} else {
		err = fmt.Sprintf("interface conversion: interface is %s, not %s", itf.t, instr.AssertedType)
	}
	if err != "" {
		if !instr.CommaOk {
			panic(targetPanic{msg: "runtime error: " + err, pos: fr.stack()})
		}
		return tuple{zero(instr.AssertedType), false}
	}
	if instr.CommaOk {
		return tuple{v, true}
	}
	return v
}

// ---------------------------------------------------------------- channels (sequential model)

func chanSend(fr *frame, ch *channel, v value) {
	if ch == nil {
		panic(abortPath{kind: "deadlock", reason: "send on nil channel @ " + fr.stack()})
	}
	if ch.closed {
		panic(targetPanic{msg: "send on closed channel", pos: fr.stack()})
	}
	if ch.cap > 0 && len(ch.buf) >= ch.cap {
		panic(abortPath{kind: "deadlock", reason: "send on full channel in sequential model @ " + fr.stack()})
	}
	// unbuffered channels: the value is queued; the (sequentialised) receiver picks it up later
	ch.buf = append(ch.buf, v)
}

func chanRecv(fr *frame, ch *channel, elem types.Type) (value, bool) {
	if ch == nil {
		panic(abortPath{kind: "deadlock", reason: "receive from nil channel @ " + fr.stack()})
	}
	if len(ch.buf) > 0 {
		v := ch.buf[0]
		ch.buf = ch.buf[1:]
		return v, true
	}
	if ch.closed {
		return zero(elem), false
	}
	panic(abortPath{kind: "deadlock", reason: "receive from empty channel in sequential model @ " + fr.stack()})
}

func selectOp(fr *frame, instr *ssa.Select) value {
	chosen := -1
	var recv value
	recvOk := false
	for i, st := range instr.States {
		ch := fr.get(st.Chan).(*channel)
		if ch == nil {
			continue
		}
		if st.Dir == types.RecvOnly {
			if len(ch.buf) > 0 || ch.closed {
				chosen = i
				recv, recvOk = chanRecv(fr, ch, st.Chan.Type().Underlying().(*types.Chan).Elem())
				break
			}
		} else if ch.cap == 0 || len(ch.buf) < ch.cap {
			chosen = i
			chanSend(fr, ch, fr.get(st.Send))
			break
		}
	}
	if chosen < 0 && instr.Blocking {
		panic(abortPath{kind: "deadlock", reason: "blocking select with no ready case in sequential model @ " + fr.stack()})
	}
	r := tuple{chosen, recvOk}
	for i, st := range instr.States {
		if st.Dir == types.RecvOnly {
			var v value
			if i == chosen && recvOk {
				v = recv
			} else {
				v = zero(st.Chan.Type().Underlying().(*types.Chan).Elem())
			}
			r = append(r, v)
		}
	}
	return r
}

// ---------------------------------------------------------------- builtins

func callBuiltin(caller *frame, callpos token.Pos, fn *ssa.Builtin, args []value) value {
	fr := caller
	switch fn.Name() {
	case "append":
		if len(args) == 1 {
			return args[0]
		}
		if s, ok := args[1].(string); ok {
			arg0 := args[0].([]value)
			for i := 0; i < len(s); i++ {
				arg0 = append(arg0, s[i])
			}
			return arg0
		}
		if _, ok := args[1].(sym); ok {
			fr.unmodelled("append of symbolic string to []byte")
		}
		src := args[1].([]value)
		dst := args[0].([]value)
		if fr.p.race != nil {
			// elements written into the spare capacity of the existing backing array, elements read from the source
			full := dst[:cap(dst)]
			for i := len(dst); i < len(full) && i < len(dst)+len(src); i++ {
				fr.raceNoteUntyped(&full[i], true, "slice element (append into spare capacity)")
			}
			for i := range src {
				fr.raceNoteUntyped(&src[i], false, "slice element")
			}
		}
		for _, e := range src {
			dst = append(dst, copyVal(e))
		}
		return dst

	case "copy":
		src := args[1]
		if s, ok := src.(string); ok {
			dst := args[0].([]value)
			n := 0
			for n < len(dst) && n < len(s) {
				dst[n] = s[n]
				n++
			}
			return n
		}
		d, s := args[0].([]value), src.([]value)
		n := len(d)
		if len(s) < n {
			n = len(s)
		}
		if fr.p.race != nil {
			for i := 0; i < n; i++ {
				fr.raceNoteUntyped(&d[i], true, "slice element (copy)")
				fr.raceNoteUntyped(&s[i], false, "slice element")
			}
		}
		tmp := make([]value, n)
		for i := 0; i < n; i++ {
			tmp[i] = copyVal(s[i])
		}
		copy(d, tmp)
		return n

	case "close":
		ch := args[0].(*channel)
		if ch == nil || ch.closed {
			panic(targetPanic{msg: "close of nil or closed channel", pos: fr.stack()})
		}
		ch.closed = true
		return nil

	case "delete":
		m := args[0].(*omap)
		if fr.p.race != nil && m != nil {
			fr.raceNote(m, true, "map")
		}
		m.del(fr.concreteKey(args[1]))
		return nil

	case "print", "println":
		return nil

	case "len":
		switch x := args[0].(type) {
		case string:
			return len(x)
		case sym:
			st := fr.p.st
			if smt.LeafCount(x.T, 64) > 0 {
				return fromTerm(st.MapLeaves(x.T, func(leaf *smt.Term) *smt.Term { return st.BVC(64, uint64(len(leaf.S))) }), types.Int)
			}
			return fromTerm(st.StrOp(smt.OStrLen, smt.Int, x.T), types.Int)
		case array:
			return len(x)
		case *value:
			return len((*x).(array))
		case []value:
			return len(x)
		case *omap:
			if fr.p.race != nil && x != nil {
				fr.raceNote(x, false, "map (len)")
			}
			return x.len()
		case *channel:
			if x == nil {
				return 0
			}
			return len(x.buf)
		default:
			panic(fmt.Sprintf("len: illegal operand: %T", x))
		}

	case "cap":
		switch x := args[0].(type) {
		case array:
			return cap(x)
		case *value:
			return cap((*x).(array))
		case []value:
			return cap(x)
		case *channel:
			if x == nil {
				return 0
			}
			return x.cap
		default:
			panic(fmt.Sprintf("cap: illegal operand: %T", x))
		}

	case "min", "max":
		for _, a := range args {
			if isSym(a) {
				fr.unmodelled("min/max over symbolic values")
			}
		}
		if fn.Name() == "min" {
			return foldLeft(min, args)
		}
		return foldLeft(max, args)

	case "panic":
		panic(targetPanic{v: args[0], pos: fr.stack()})

	case "recover":
		return doRecover(caller)

	case "ssa:wrapnilchk":
		recv := args[0]
		if recv.(*value) == nil {
			fr.runtimePanic("value method %v.%v called using nil pointer", args[1], args[2])
		}
		return recv

	case "ssa:deferstack":
		return &caller.defers
	}
	panic("unknown built-in: " + fn.Name())
}

var _ = bytes.MinRead

// symSubstr is s[lo:hi] on a symbolic string (bounds may be symbolic integers).
func (fr *frame) symSubstr(s sym, lo, hi value) value {
	st := fr.p.st
	// finite-domain string with concrete bounds: slice every leaf (no string theory)
	if smt.LeafCount(s.T, 64) > 0 && !isSym(lo) && !isSym(hi) {
		l0 := int64(0)
		if lo != nil {
			l0 = asInt64(lo)
		}
		inRange := st.MapLeaves(s.T, func(leaf *smt.Term) *smt.Term {
			h0 := int64(len(leaf.S))
			if hi != nil {
				h0 = asInt64(hi)
			}
			return st.BoolC(0 <= l0 && l0 <= h0 && h0 <= int64(len(leaf.S)))
		})
		if !fr.p.branch(fr, nil, inRange) {
			fr.runtimePanic("slice bounds out of range on a string")
		}
		return fromTerm(st.MapLeaves(s.T, func(leaf *smt.Term) *smt.Term {
			h0 := int64(len(leaf.S))
			if hi != nil {
				h0 = asInt64(hi)
			}
			if 0 <= l0 && l0 <= h0 && h0 <= int64(len(leaf.S)) {
				return st.StrC(leaf.S[l0:h0])
			}
			return st.StrC("")
		}), types.String)
	}
	ln := st.StrOp(smt.OStrLen, smt.Int, s.T)
	var l *smt.Term = st.IntC(0)
	if lo != nil {
		l = fr.intTerm(lo)
	}
	h := ln
	if hi != nil {
		h = fr.intTerm(hi)
	}
	// structural cases on a concatenation that starts with a constant
	if s.T.Op == smt.OStrConcat && s.T.Args[0].IsConst() && l.IsConst() {
		c0 := s.T.Args[0].S
		if hi == nil && l.I >= 0 && int(l.I) <= len(c0) {
			return fromTerm(st.StrConcat(append([]*smt.Term{st.StrC(c0[l.I:])}, s.T.Args[1:]...)...), types.String)
		}
		if h.IsConst() && l.I >= 0 && l.I <= h.I && int(h.I) <= len(c0) {
			return c0[l.I:h.I]
		}
	}
	if l.IsConst() && l.I == 0 {
		if pre, ok := fr.p.sideTable[fmt.Sprintf("prefix:%d:%d", s.T.ID, h.ID)].(*smt.Term); ok {
			return fromTerm(pre, types.String)
		}
	}
	okc := st.And(st.IntBin(smt.OIntLe, st.IntC(0), l), st.And(st.IntBin(smt.OIntLe, l, h), st.IntBin(smt.OIntLe, h, ln)))
	if !fr.p.branch(fr, nil, okc) {
		fr.runtimePanic("slice bounds out of range on symbolic string")
	}
	return fromTerm(st.StrOp(smt.OStrSubstr, smt.Str, s.T, l, st.IntBin(smt.OIntSub, h, l)), types.String)
}
