// Derived from golang.org/x/tools/go/ssa/interp (BSD-style license, The Go Authors); extended with
// symbolic scalars, ordered maps and explicit path state.

package ssaexec

// Values
//
// All interpreter values are "boxed" in the empty interface, value.
// - bool, intN, uintN, floatN, string         concrete scalars (native Go values)
// - sym                                        symbolic scalar (bool / intN / uintN / string): an SMT term
// - *omap                                      maps (insertion ordered)
// - *channel                                   channels (FIFO model)
// - []value                                    slices
// - iface                                      interfaces
// - structure, array                           aggregates
// - *value                                     pointers
// - *ssa.Function, *ssa.Builtin, *closure      functions
// - tuple, iter

import (
	"bytes"
	"fmt"
	"go/types"
	"io"
	"strings"
	"unsafe"

	"golang.org/x/tools/go/ssa"

	"gosym/smt"
)

type value interface{}

type tuple []value

type array []value

type iface struct {
	t types.Type // never an "untyped" type
	v value
}

type structure []value

// sym is a symbolic scalar. K is the basic kind of its Go type (after Underlying()).
type sym struct {
	T *smt.Term
	K types.BasicKind
}

type iter interface {
	next(fr *frame) tuple
}

type closure struct {
	Fn  *ssa.Function
	Env []value
}

type bad struct{}

// channel is a sequential FIFO model of a Go channel.
type channel struct {
	buf    []value
	cap    int
	closed bool
}

// ---------------------------------------------------------------- ordered map

type ment struct {
	k, v value
	dead bool
}

type omap struct {
	idx    map[interface{}]int
	ents   []ment
	live   int
	rotate   bool            // range starts at a nondeterministic offset (models Go's random iteration start)
	rotateIn map[string]bool // if non-empty: only for range statements inside functions with these names
}

func newOmap() *omap { return &omap{idx: map[interface{}]int{}} }

// mapKey canonicalises a concrete key value into something usable as a native Go map key.
func mapKey(v value) interface{} {
	switch v := v.(type) {
	case bool, int, int8, int16, int32, int64, uint, uint8, uint16, uint32, uint64, uintptr, float32, float64, string, *value, *channel:
		return v
	case iface:
		if v.t == nil {
			return "iface:nil"
		}
		return fmt.Sprintf("iface:%s:%v", v.t.String(), mapKey(v.v))
	case structure:
		var b strings.Builder
		b.WriteString("struct{")
		for _, f := range v {
			fmt.Fprintf(&b, "%T:%v;", mapKey(f), mapKey(f))
		}
		b.WriteString("}")
		return b.String()
	case array:
		var b strings.Builder
		b.WriteString("array[")
		for _, f := range v {
			fmt.Fprintf(&b, "%T:%v;", mapKey(f), mapKey(f))
		}
		b.WriteString("]")
		return b.String()
	case sym:
		panic(abortPath{kind: "unmodelled", reason: "symbolic map key reached mapKey"})
	}
	panic(fmt.Sprintf("unhashable map key %T", v))
}

func (m *omap) get(k value) (value, bool) {
	if m == nil {
		return nil, false
	}
	i, ok := m.idx[mapKey(k)]
	if !ok {
		return nil, false
	}
	return m.ents[i].v, true
}

func (m *omap) set(k, v value) {
	mk := mapKey(k)
	if i, ok := m.idx[mk]; ok {
		m.ents[i].v = v
		return
	}
	m.idx[mk] = len(m.ents)
	m.ents = append(m.ents, ment{k: k, v: v})
	m.live++
}

func (m *omap) del(k value) {
	if m == nil {
		return
	}
	mk := mapKey(k)
	if i, ok := m.idx[mk]; ok {
		m.ents[i].dead = true
		m.ents[i].v = nil
		delete(m.idx, mk)
		m.live--
	}
}

func (m *omap) len() int {
	if m == nil {
		return 0
	}
	return m.live
}

type mapIter struct {
	m     *omap
	i     int
	start int
	wrap  bool
}

func (it *mapIter) next(fr *frame) tuple {
	if it.m != nil {
		for {
			if !it.wrap && it.i >= len(it.m.ents) {
				// entries inserted during iteration are visited; then wrap around to the part before start
				it.wrap = true
				it.i = 0
			}
			if it.wrap && it.i >= it.start {
				break
			}
			e := it.m.ents[it.i]
			it.i++
			if !e.dead {
				return tuple{true, e.k, e.v}
			}
		}
	}
	return tuple{false, nil, nil}
}

func newMapIter(fr *frame, m *omap) *mapIter {
	it := &mapIter{m: m}
	if m != nil && m.rotate && m.live > 1 && (len(m.rotateIn) == 0 || m.rotateIn[fr.fn.Name()]) {
		// choose which live entry comes first
		k := fr.p.choose(fr, m.live)
		for i, e := range m.ents {
			if e.dead {
				continue
			}
			if k == 0 {
				it.start, it.i = i, i
				break
			}
			k--
		}
	}
	return it
}

type stringIter struct {
	*strings.Reader
	i int
}

func (it *stringIter) next(fr *frame) tuple {
	okv := make(tuple, 3)
	ch, n, err := it.ReadRune()
	ok := err != io.EOF
	okv[0] = ok
	if ok {
		okv[1] = it.i
		okv[2] = ch
	}
	it.i += n
	return okv
}

// ---------------------------------------------------------------- equality

// nil-tolerant variant of types.Identical.
func sameType(x, y types.Type) bool {
	if x == nil {
		return y == nil
	}
	return y != nil && types.Identical(x, y)
}

func isSym(v value) bool { _, ok := v.(sym); return ok }

// equals returns x == y as a value: a Go bool, or a sym Bool when symbolic scalars are involved.
func equals(fr *frame, t types.Type, x, y value) value {
	if sx, ok := x.(sym); ok {
		return fr.symEq(sx, fr.toSym(y, sx.K))
	}
	if sy, ok := y.(sym); ok {
		return fr.symEq(fr.toSym(x, sy.K), sy)
	}
	switch x := x.(type) {
	case bool:
		return x == y.(bool)
	case int:
		return x == y.(int)
	case int8:
		return x == y.(int8)
	case int16:
		return x == y.(int16)
	case int32:
		return x == y.(int32)
	case int64:
		return x == y.(int64)
	case uint:
		return x == y.(uint)
	case uint8:
		return x == y.(uint8)
	case uint16:
		return x == y.(uint16)
	case uint32:
		return x == y.(uint32)
	case uint64:
		return x == y.(uint64)
	case uintptr:
		return x == y.(uintptr)
	case float32:
		return x == y.(float32)
	case float64:
		return x == y.(float64)
	case complex64:
		return x == y.(complex64)
	case complex128:
		return x == y.(complex128)
	case string:
		return x == y.(string)
	case *value:
		return x == y.(*value)
	case *channel:
		return x == y.(*channel)
	case unsafe.Pointer:
		return x == y.(unsafe.Pointer)
	case structure:
		y := y.(structure)
		tStruct := t.Underlying().(*types.Struct)
		var acc value = true
		for i, n := 0, tStruct.NumFields(); i < n; i++ {
			f := tStruct.Field(i)
			if f.Name() == "_" {
				continue
			}
			acc = fr.and(acc, equals(fr, f.Type(), x[i], y[i]))
			if acc == false {
				return false
			}
		}
		return acc
	case array:
		y := y.(array)
		tElt := t.Underlying().(*types.Array).Elem()
		var acc value = true
		for i := range x {
			acc = fr.and(acc, equals(fr, tElt, x[i], y[i]))
			if acc == false {
				return false
			}
		}
		return acc
	case iface:
		y := y.(iface)
		if !sameType(x.t, y.t) {
			return false
		}
		if x.t == nil {
			return true
		}
		return equals(fr, x.t, x.v, y.v)
	}
	// map, func and slice are only comparable with nil (handled in eqnil) or via interface{} values.
	panic(targetPanic{v: iface{}, msg: fmt.Sprintf("runtime error: comparing uncomparable type %s", t)})
}

// load returns the value of type T in *addr.
func load(T types.Type, addr *value) value {
	switch T := T.Underlying().(type) {
	case *types.Struct:
		v := (*addr).(structure)
		a := make(structure, len(v))
		for i := range a {
			a[i] = load(T.Field(i).Type(), &v[i])
		}
		return a
	case *types.Array:
		v := (*addr).(array)
		a := make(array, len(v))
		for i := range a {
			a[i] = load(T.Elem(), &v[i])
		}
		return a
	default:
		return *addr
	}
}

// store stores value v of type T into *addr.
func store(T types.Type, addr *value, v value) {
	switch T := T.Underlying().(type) {
	case *types.Struct:
		lhs := (*addr).(structure)
		rhs := v.(structure)
		for i := range lhs {
			store(T.Field(i).Type(), &lhs[i], rhs[i])
		}
	case *types.Array:
		lhs := (*addr).(array)
		rhs := v.(array)
		for i := range lhs {
			store(T.Elem(), &lhs[i], rhs[i])
		}
	default:
		*addr = v
	}
}

// copyVal deep-copies aggregates (value semantics) without type information.
func copyVal(v value) value {
	switch v := v.(type) {
	case structure:
		a := make(structure, len(v))
		for i := range v {
			a[i] = copyVal(v[i])
		}
		return a
	case array:
		a := make(array, len(v))
		for i := range v {
			a[i] = copyVal(v[i])
		}
		return a
	}
	return v
}

func writeValue(buf *bytes.Buffer, v value, depth int) {
	if depth > 6 {
		buf.WriteString("…")
		return
	}
	switch v := v.(type) {
	case nil, bool, int, int8, int16, int32, int64, uint, uint8, uint16, uint32, uint64, uintptr, float32, float64, complex64, complex128:
		fmt.Fprintf(buf, "%v", v)
	case string:
		fmt.Fprintf(buf, "%q", v)
	case sym:
		fmt.Fprintf(buf, "sym(%s)", v.T.Pretty(120))
	case *omap:
		buf.WriteString("map[")
		if v != nil {
			sep := ""
			for _, e := range v.ents {
				if e.dead {
					continue
				}
				buf.WriteString(sep)
				sep = " "
				writeValue(buf, e.k, depth+1)
				buf.WriteString(":")
				writeValue(buf, e.v, depth+1)
			}
		}
		buf.WriteString("]")
	case *channel:
		fmt.Fprintf(buf, "chan(%p)", v)
	case *value:
		if v == nil {
			buf.WriteString("<nil>")
		} else {
			buf.WriteString("&")
			writeValue(buf, *v, depth+1)
		}
	case iface:
		if v.t == nil {
			buf.WriteString("<nil iface>")
			return
		}
		fmt.Fprintf(buf, "(%s)", v.t)
		writeValue(buf, v.v, depth+1)
	case structure:
		buf.WriteString("{")
		for i, e := range v {
			if i > 0 {
				buf.WriteString(" ")
			}
			writeValue(buf, e, depth+1)
		}
		buf.WriteString("}")
	case array:
		buf.WriteString("[")
		for i, e := range v {
			if i > 0 {
				buf.WriteString(" ")
			}
			writeValue(buf, e, depth+1)
		}
		buf.WriteString("]")
	case []value:
		buf.WriteString("[")
		for i, e := range v {
			if i > 0 {
				buf.WriteString(" ")
			}
			writeValue(buf, e, depth+1)
		}
		buf.WriteString("]")
	case *ssa.Function:
		if v == nil {
			buf.WriteString("<nil func>")
		} else {
			buf.WriteString(v.String())
		}
	case *ssa.Builtin, *closure:
		fmt.Fprintf(buf, "%p", v)
	case tuple:
		buf.WriteString("(")
		for i, e := range v {
			if i > 0 {
				buf.WriteString(", ")
			}
			writeValue(buf, e, depth+1)
		}
		buf.WriteString(")")
	default:
		fmt.Fprintf(buf, "<%T>", v)
	}
}

func toString(v value) string {
	var b bytes.Buffer
	writeValue(&b, v, 0)
	return b.String()
}
