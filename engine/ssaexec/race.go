package ssaexec

// Lock-set analysis over symbolic paths (property C19).
//
// verifRace(roots, f1, f2) marks every memory cell reachable from the roots (and from the package-level variables
// of the module under analysis) as shared, runs f1 as logical thread 1 and f2 as logical thread 2 one after the other
// (every feasible path of both, decided by the solver as usual) and records, for every load / store / map operation
// on a shared cell executed by the code under analysis (not by harness code), the locks the logical thread holds at
// that instruction.  Two accesses to one cell by different threads, at least one a write, with no common lock that
// one of them holds exclusively, are a race candidate; the candidate is confirmed by running both closures
// concurrently under the Go race detector (go test -race) and matching the reported source positions.

import (
	"fmt"
	"go/token"
	"go/types"
	"path/filepath"
	"sort"
	"strings"

	"golang.org/x/tools/go/ssa"
)

type raceAccess struct {
	thread int
	write  bool
	locks  map[*lockState]bool // lock -> held exclusively
	pos    string              // file:line of the access
	fn     string
	what   string // field / map description
}

type raceRec struct {
	active bool
	shared map[interface{}]bool
	acc    map[interface{}][]raceAccess
	order  []interface{}
	seen   map[string]bool
	nAcc   int
	nextThread int
	rlockReported bool
}

func (fr *frame) inHarnessCode() bool {
	for f := fr; f != nil; f = f.caller {
		if f.fn == nil {
			continue
		}
		pos := f.fn.Pos()
		if pos == token.NoPos && f.fn.Parent() != nil {
			pos = f.fn.Parent().Pos()
		}
		if pos != token.NoPos {
			name := filepath.Base(f.fn.Prog.Fset.Position(pos).Filename)
			return strings.HasPrefix(name, "zz_verif") || strings.HasPrefix(name, "zz_gosym")
		}
	}
	return false
}

func (p *Path) heldBy(thread int) map[*lockState]bool {
	out := map[*lockState]bool{}
	for _, l := range p.locks {
		if l.writer && l.owner == thread {
			out[l] = true
		} else if l.rby[thread] > 0 {
			out[l] = false
		}
	}
	return out
}

// raceNote records one access to a location if it is shared.
func (fr *frame) raceNote(loc interface{}, write bool, what string) {
	r := fr.p.race
	if r == nil || !r.active || !r.shared[loc] {
		return
	}
	// position: the innermost frame that lies in the repository (an access made inside a dependency is attributed
	// to the call site in the code under analysis, the way the race reports are read)
	pos, inFn := "", fr.fn.String()
	for f := fr; f != nil; f = f.caller {
		if f.curInstr == nil || f.curInstr.Pos() == token.NoPos {
			continue
		}
		ps := f.fn.Prog.Fset.Position(f.curInstr.Pos())
		if pos == "" {
			pos = fmt.Sprintf("%s:%d", ps.Filename, ps.Line)
		}
		if strings.HasPrefix(ps.Filename, RepoPrefix) {
			if base := filepath.Base(ps.Filename); strings.HasPrefix(base, "zz_verif") || strings.HasPrefix(base, "zz_gosym") || strings.Contains(ps.Filename, "/testing/") {
				return // made by harness code or by the repository's test doubles (or by a dependency on their behalf)
			}
			pos, inFn = fmt.Sprintf("%s:%d", ps.Filename, ps.Line), f.fn.String()
			break
		}
	}
	locks := fr.p.heldBy(fr.p.thread)
	var names []string
	for l, x := range locks {
		names = append(names, fmt.Sprintf("%s/%v", l.name, x))
	}
	sort.Strings(names)
	key := fmt.Sprintf("%p|%d|%v|%s|%s", loc, fr.p.thread, write, pos, strings.Join(names, ","))
	if r.seen[key] {
		return
	}
	r.seen[key] = true
	if _, ok := r.acc[loc]; !ok {
		r.order = append(r.order, loc)
	}
	r.acc[loc] = append(r.acc[loc], raceAccess{thread: fr.p.thread, write: write, locks: locks, pos: pos, fn: inFn, what: what})
	r.nAcc++
}

// raceNoteCells records an access to every leaf cell of the value of type T stored at addr.
func (fr *frame) raceNoteCells(T types.Type, addr *value, write bool, what string) {
	r := fr.p.race
	if r == nil || !r.active || addr == nil {
		return
	}
	switch T := T.Underlying().(type) {
	case *types.Struct:
		if v, ok := (*addr).(structure); ok {
			for i := range v {
				fr.raceNoteCells(T.Field(i).Type(), &v[i], write, what+"."+T.Field(i).Name())
			}
			return
		}
	case *types.Array:
		if v, ok := (*addr).(array); ok {
			for i := range v {
				fr.raceNoteCells(T.Elem(), &v[i], write, what)
			}
			return
		}
	}
	fr.raceNote(addr, write, what)
}

// raceNoteUntyped records an access to the cell and, if it holds an aggregate stored inline, to all its leaves.
func (fr *frame) raceNoteUntyped(addr *value, write bool, what string) {
	switch x := (*addr).(type) {
	case structure:
		for i := range x {
			fr.raceNoteUntyped(&x[i], write, what)
		}
		fr.raceNote(addr, write, what)
	case array:
		for i := range x {
			fr.raceNoteUntyped(&x[i], write, what)
		}
		fr.raceNote(addr, write, what)
	default:
		fr.raceNote(addr, write, what)
	}
}

// describeAddr names the location an address operand denotes (field of a struct type, element, global).
func describeAddr(v ssa.Value) string {
	switch a := v.(type) {
	case *ssa.FieldAddr:
		st := mustDeref(a.X.Type()).Underlying().(*types.Struct)
		return strings.TrimPrefix(types.TypeString(mustDeref(a.X.Type()), func(p *types.Package) string { return p.Name() }), "*") + "." + st.Field(a.Field).Name()
	case *ssa.IndexAddr:
		return describeAddr(a.X) + "[i]"
	case *ssa.Global:
		return a.Pkg.Pkg.Name() + "." + a.Name()
	case *ssa.UnOp:
		if a.Op == token.MUL {
			return describeAddr(a.X)
		}
	case *ssa.Field:
		return describeAddr(a.X)
	}
	return types.TypeString(v.Type(), func(p *types.Package) string { return p.Name() })
}

// markShared walks everything reachable from v.
func (r *raceRec) markShared(v value, depth int) {
	if depth > 64 {
		return
	}
	switch v := v.(type) {
	case *value:
		if v == nil || r.shared[v] {
			return
		}
		r.shared[v] = true
		r.markAggregate(v, depth+1)
	case *omap:
		if v == nil || r.shared[v] {
			return
		}
		r.shared[v] = true
		for i := range v.ents {
			if !v.ents[i].dead {
				r.markShared(v.ents[i].k, depth+1)
				r.markInline(v.ents[i].v, depth+1)
			}
		}
	default:
		r.markInline(v, depth)
	}
}

// markAggregate marks the sub-cells of the aggregate stored in *addr and follows what it contains.
func (r *raceRec) markAggregate(addr *value, depth int) {
	switch x := (*addr).(type) {
	case structure:
		for i := range x {
			r.shared[&x[i]] = true
			r.markAggregate(&x[i], depth+1)
		}
	case array:
		for i := range x {
			r.shared[&x[i]] = true
			r.markAggregate(&x[i], depth+1)
		}
	default:
		r.markInline(x, depth)
	}
}

// markInline follows a value that is stored by value inside a cell.
func (r *raceRec) markInline(v value, depth int) {
	if depth > 64 {
		return
	}
	switch x := v.(type) {
	case *value, *omap:
		r.markShared(x, depth+1)
	case []value:
		for i := range x {
			if r.shared[&x[i]] {
				return
			}
			r.shared[&x[i]] = true
			r.markAggregate(&x[i], depth+1)
		}
	case iface:
		r.markInline(x.v, depth+1)
	case structure:
		for i := range x {
			r.markInline(x[i], depth+1)
		}
	case array:
		for i := range x {
			r.markInline(x[i], depth+1)
		}
	case tuple:
		for i := range x {
			r.markInline(x[i], depth+1)
		}
	case *closure:
		for _, e := range x.Env {
			r.markInline(e, depth+1)
		}
	}
}

// RaceCandidate is one unprotected pair.
type RaceCandidate struct {
	What   string
	A, B   raceAccess
	Sig    string // stable signature: field + function pair
	PosKey string // "fileA:line|fileB:line" (sorted)
}

func protectedPair(a, b raceAccess) bool {
	for l, xa := range a.locks {
		if xb, ok := b.locks[l]; ok && (xa || xb) {
			return true
		}
	}
	return false
}

// RepoPrefix is the directory of the code under analysis with a trailing slash (set by Load from Config.RepoDir).
var RepoPrefix = "/repo/"

func shortPos(pos string) string {
	return strings.TrimPrefix(pos, RepoPrefix)
}

func (r *raceRec) candidates() []RaceCandidate {
	var out []RaceCandidate
	seen := map[string]bool{}
	for _, loc := range r.order {
		accs := r.acc[loc]
		for i := range accs {
			for j := i + 1; j < len(accs); j++ {
				a, b := accs[i], accs[j]
				if a.thread == b.thread || !(a.write || b.write) || protectedPair(a, b) {
					continue
				}
				pk := []string{shortPos(a.pos), shortPos(b.pos)}
				sort.Strings(pk)
				fk := []string{a.fn, b.fn}
				sort.Strings(fk)
				what := a.what
				if what == "" {
					what = b.what
				}
				c := RaceCandidate{What: what, A: a, B: b, Sig: what + ":" + strings.Join(fk, "|"), PosKey: strings.Join(pk, "|")}
				if seen[c.PosKey] {
					continue
				}
				seen[c.PosKey] = true
				out = append(out, c)
			}
		}
	}
	return out
}

func lockNames(m map[*lockState]bool) string {
	var n []string
	for l, x := range m {
		mode := "R"
		if x {
			mode = "W"
		}
		n = append(n, l.name+":"+mode)
	}
	sort.Strings(n)
	if len(n) == 0 {
		return "none"
	}
	return strings.Join(n, ",")
}

func rw(w bool) string {
	if w {
		return "write"
	}
	return "read"
}

func registerRaceModels(e *Engine, own func(string, modelFn)) {
	// verifRace(roots []interface{}, f1, f2 func())
	own("verifRace", func(fr *frame, fn *ssa.Function, args []value) value {
		p := fr.p
		r := &raceRec{shared: map[interface{}]bool{}, acc: map[interface{}][]raceAccess{}, seen: map[string]bool{}}
		if roots, ok := args[0].([]value); ok {
			for _, x := range roots {
				r.markInline(x, 0)
			}
		}
		for g, cell := range p.globals {
			if g.Pkg != nil && strings.HasPrefix(g.Pkg.Pkg.Path(), "tkestack.io/galaxy") {
				r.shared[cell] = true
				r.markAggregate(cell, 0)
			}
		}
		p.race = r
		saved := p.thread
		r.active = true
		p.thread = 1
		call(p, fr, token.NoPos, args[1], nil)
		p.thread = 2
		call(p, fr, token.NoPos, args[2], nil)
		r.active = false
		p.thread = saved
		p.race = nil
		p.reach["race-pair-completed"]++
		p.stats.RaceAccesses += r.nAcc
		p.stats.RaceShared = len(r.shared)
		for _, c := range r.candidates() {
			id := p.h.Prop + "/race " + c.PosKey
			msg := fmt.Sprintf("%s: %s by thread %d in %s at %s holding {%s} and %s by thread %d in %s at %s holding {%s}", c.What,
				rw(c.A.write), c.A.thread, c.A.fn, shortPos(c.A.pos), lockNames(c.A.locks), rw(c.B.write), c.B.thread, c.B.fn, shortPos(c.B.pos), lockNames(c.B.locks))
			n0 := len(p.violations)
			p.violationCandidate(fr, "race", id, msg)
			if len(p.violations) > n0 {
				kid := "kf-race:" + c.Sig
				if p.eng.KnownIDs[kid] {
					p.violations[n0].Known = kid
				}
				p.violations[n0].RaceSig = c.Sig
			}
		}
		return nil
	})
}
