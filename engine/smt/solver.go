package smt

import (
	"bufio"
	"fmt"
	"io"
	"os"
	"os/exec"
	"strconv"
	"strings"
	"time"
)

type Result int

const (
	Unsat Result = iota
	Sat
	Unknown
)

func (r Result) String() string { return [...]string{"unsat", "sat", "unknown"}[r] }

// Solver is one persistent solver process (z3 -in / cvc5 --incremental).
type Solver struct {
	Kind    string // "z3", "z3-new", "cvc5"
	cmd     *exec.Cmd
	in      io.WriteCloser
	out     *bufio.Reader
	Queries int
	Seconds float64
	MaxSeconds float64
	Errors  []string
	Log     io.Writer // optional transcript
	depth   int
	defined []map[int]bool // per push frame: term ids defined
	declared []map[string]bool
	timeoutMs int
}

func NewSolver(kind string, timeoutMs int) (*Solver, error) {
	var cmd *exec.Cmd
	switch kind {
	case "z3":
		cmd = exec.Command("/usr/bin/z3", "-in", "-smt2", fmt.Sprintf("-t:%d", timeoutMs))
	case "z3-new":
		cmd = exec.Command("z3-new", "-in", "-smt2", fmt.Sprintf("-t:%d", timeoutMs))
	case "cvc5":
		cmd = exec.Command("cvc5", "--incremental", "--lang=smt2", "--strings-exp", "--produce-models",
			fmt.Sprintf("--tlimit-per=%d", timeoutMs))
	default:
		return nil, fmt.Errorf("unknown solver %q", kind)
	}
	in, err := cmd.StdinPipe()
	if err != nil {
		return nil, err
	}
	outp, err := cmd.StdoutPipe()
	if err != nil {
		return nil, err
	}
	cmd.Stderr = cmd.Stdout
	if err := cmd.Start(); err != nil {
		return nil, err
	}
	s := &Solver{Kind: kind, cmd: cmd, in: in, out: bufio.NewReaderSize(outp, 1<<16), timeoutMs: timeoutMs}
	if dir := os.Getenv("GOSYM_SMTLOG"); dir != "" {
		if f, err := os.CreateTemp(dir, kind+"-*.smt2"); err == nil {
			s.Log = f
		}
	}
	s.defined = []map[int]bool{{}}
	s.declared = []map[string]bool{{}}
	s.send("(set-option :produce-models true)")
	s.send("(set-logic ALL)")
	return s, nil
}

func (s *Solver) Close() {
	if s == nil || s.cmd == nil {
		return
	}
	io.WriteString(s.in, "(exit)\n")
	s.in.Close()
	done := make(chan struct{})
	go func() { s.cmd.Wait(); close(done) }()
	select {
	case <-done:
	case <-time.After(2 * time.Second):
		s.cmd.Process.Kill()
	}
	s.cmd = nil
}

func (s *Solver) send(line string) {
	if s.Log != nil {
		fmt.Fprintln(s.Log, line)
	}
	io.WriteString(s.in, line)
	io.WriteString(s.in, "\n")
}

func (s *Solver) Push() {
	s.send("(push 1)")
	s.depth++
	s.defined = append(s.defined, map[int]bool{})
	s.declared = append(s.declared, map[string]bool{})
}

func (s *Solver) Pop() {
	s.send("(pop 1)")
	s.depth--
	s.defined = s.defined[:len(s.defined)-1]
	s.declared = s.declared[:len(s.declared)-1]
}

// Reset pops every frame (used between paths).
func (s *Solver) Reset() {
	for s.depth > 0 {
		s.Pop()
	}
}

func (s *Solver) isDefined(id int) bool {
	for _, m := range s.defined {
		if m[id] {
			return true
		}
	}
	return false
}
func (s *Solver) isDeclared(n string) bool {
	for _, m := range s.declared {
		if m[n] {
			return true
		}
	}
	return false
}

// Define makes sure t and all its sub-terms are known to the solver in the current frame.
func (s *Solver) Define(st *Store, t *Term) {
	for _, d := range st.FunDecls() {
		if !s.isDeclared(d) {
			s.declared[len(s.declared)-1][d] = true
			s.send(d)
		}
	}
	var rec func(x *Term)
	rec = func(x *Term) {
		switch x.Op {
		case OConst:
			return
		case OVar:
			if !s.isDeclared(x.S) {
				s.declared[len(s.declared)-1][x.S] = true
				s.send(fmt.Sprintf("(declare-const %s %s)", x.S, x.Sort))
			}
			return
		}
		if s.isDefined(x.ID) {
			return
		}
		for _, a := range x.Args {
			rec(a)
		}
		s.defined[len(s.defined)-1][x.ID] = true
		s.send(fmt.Sprintf("(define-fun %s () %s %s)", x.Name(), x.Sort, x.Body()))
	}
	rec(t)
}

func (s *Solver) Assert(st *Store, t *Term) {
	s.Define(st, t)
	s.send("(assert " + t.Name() + ")")
}

func (s *Solver) readLine() (string, error) {
	for {
		line, err := s.out.ReadString('\n')
		if err != nil {
			return "", err
		}
		line = strings.TrimSpace(line)
		if line == "" || line == "success" {
			continue
		}
		return line, nil
	}
}

// Check runs (check-sat) under the current assertions plus the extra (temporary) ones.
func (s *Solver) Check(st *Store, extra ...*Term) Result {
	t0 := time.Now()
	defer func() {
		d := time.Since(t0).Seconds()
		s.Seconds += d
		if d > s.MaxSeconds {
			s.MaxSeconds = d
		}
		s.Queries++
	}()
	if len(extra) > 0 {
		s.Push()
		for _, e := range extra {
			s.Assert(st, e)
		}
		defer s.Pop()
	}
	s.send("(check-sat)")
	return s.readResult()
}

// CheckKeep is like Check with extras but leaves the frame pushed on Sat so that a model can be read;
// the caller must Pop().
func (s *Solver) CheckKeep(st *Store, extra ...*Term) Result {
	t0 := time.Now()
	defer func() {
		d := time.Since(t0).Seconds()
		s.Seconds += d
		if d > s.MaxSeconds {
			s.MaxSeconds = d
		}
		s.Queries++
	}()
	s.Push()
	for _, e := range extra {
		s.Assert(st, e)
	}
	s.send("(check-sat)")
	return s.readResult()
}

func (s *Solver) readResult() Result {
	for {
		line, err := s.readLine()
		if err != nil {
			s.Errors = append(s.Errors, "solver died: "+err.Error())
			return Unknown
		}
		switch {
		case line == "sat":
			return Sat
		case line == "unsat":
			return Unsat
		case line == "unknown" || line == "timeout":
			return Unknown
		case strings.HasPrefix(line, "(error"):
			s.Errors = append(s.Errors, line)
			// keep reading: the check-sat answer still follows, but the verdict is not trusted
			for {
				l2, err := s.readLine()
				if err != nil || l2 == "sat" || l2 == "unsat" || l2 == "unknown" {
					break
				}
			}
			return Unknown
		default:
			// warnings etc.
			s.Errors = append(s.Errors, "unexpected: "+line)
			if len(s.Errors) > 50 {
				return Unknown
			}
		}
	}
}

// Value is a model value.
type Value struct {
	Sort Sort
	U    uint64
	S    string
	I    int64
}

// GetValues reads model values of the given variable terms; must follow a Sat answer.
func (s *Solver) GetValues(vars []*Term) (map[string]Value, error) {
	res := map[string]Value{}
	if len(vars) == 0 {
		return res, nil
	}
	// ask in chunks to keep lines short
	for i := 0; i < len(vars); i += 64 {
		j := i + 64
		if j > len(vars) {
			j = len(vars)
		}
		var b strings.Builder
		b.WriteString("(get-value (")
		for _, v := range vars[i:j] {
			b.WriteString(v.S)
			b.WriteByte(' ')
		}
		b.WriteString("))")
		s.send(b.String())
		txt, err := s.readSexp()
		if err != nil {
			return nil, err
		}
		if strings.HasPrefix(txt, "(error") {
			return nil, fmt.Errorf("get-value: %s", txt)
		}
		toks := tokenize(txt)
		p := &parser{toks: toks}
		top := p.parse()
		for _, pair := range top.kids {
			if len(pair.kids) != 2 {
				continue
			}
			name := pair.kids[0].atom
			var sort Sort
			for _, v := range vars[i:j] {
				if v.S == name {
					sort = v.Sort
				}
			}
			val, err := parseValue(pair.kids[1], sort)
			if err != nil {
				return nil, fmt.Errorf("get-value %s: %v (%s)", name, err, txt)
			}
			res[name] = val
		}
	}
	return res, nil
}

func (s *Solver) readSexp() (string, error) {
	var b strings.Builder
	depth := 0
	inStr := false
	started := false
	for {
		line, err := s.out.ReadString('\n')
		if err != nil {
			return "", err
		}
		for i := 0; i < len(line); i++ {
			c := line[i]
			if inStr {
				if c == '"' {
					inStr = false
				}
				continue
			}
			switch c {
			case '"':
				inStr = true
			case '(':
				depth++
				started = true
			case ')':
				depth--
			}
		}
		b.WriteString(line)
		if started && depth <= 0 && !inStr {
			return strings.TrimSpace(b.String()), nil
		}
		if !started && strings.TrimSpace(line) != "" {
			return strings.TrimSpace(b.String()), nil
		}
	}
}

type sexp struct {
	atom string
	kids []*sexp
	list bool
}

func tokenize(s string) []string {
	var toks []string
	for i := 0; i < len(s); {
		c := s[i]
		switch {
		case c == ' ' || c == '\n' || c == '\t' || c == '\r':
			i++
		case c == '(' || c == ')':
			toks = append(toks, string(c))
			i++
		case c == '"':
			j := i + 1
			for j < len(s) {
				if s[j] == '"' {
					if j+1 < len(s) && s[j+1] == '"' {
						j += 2
						continue
					}
					break
				}
				j++
			}
			toks = append(toks, s[i:j+1])
			i = j + 1
		default:
			j := i
			for j < len(s) && !strings.ContainsRune(" \n\t\r()", rune(s[j])) {
				j++
			}
			toks = append(toks, s[i:j])
			i = j
		}
	}
	return toks
}

type parser struct {
	toks []string
	pos  int
}

func (p *parser) parse() *sexp {
	if p.pos >= len(p.toks) {
		return &sexp{}
	}
	t := p.toks[p.pos]
	p.pos++
	if t == "(" {
		n := &sexp{list: true}
		for p.pos < len(p.toks) && p.toks[p.pos] != ")" {
			n.kids = append(n.kids, p.parse())
		}
		p.pos++
		return n
	}
	return &sexp{atom: t}
}

func unquoteSMT(a string) string {
	a = a[1 : len(a)-1]
	a = strings.ReplaceAll(a, `""`, `"`)
	var b strings.Builder
	for i := 0; i < len(a); i++ {
		if a[i] == '\\' && i+1 < len(a) && a[i+1] == 'u' {
			// \u{X..} or \uXXXX
			if i+2 < len(a) && a[i+2] == '{' {
				j := strings.IndexByte(a[i:], '}')
				if j > 0 {
					if v, err := strconv.ParseUint(a[i+3:i+j], 16, 32); err == nil {
						if v < 256 {
							b.WriteByte(byte(v))
						} else {
							b.WriteRune(rune(v))
						}
						i += j
						continue
					}
				}
			} else if i+5 < len(a) {
				if v, err := strconv.ParseUint(a[i+2:i+6], 16, 32); err == nil {
					if v < 256 {
						b.WriteByte(byte(v))
					} else {
						b.WriteRune(rune(v))
					}
					i += 5
					continue
				}
			}
		}
		if a[i] == '\\' && i+1 < len(a) && a[i+1] == 'x' && i+3 < len(a) {
			if v, err := strconv.ParseUint(a[i+2:i+4], 16, 8); err == nil {
				b.WriteByte(byte(v))
				i += 3
				continue
			}
		}
		b.WriteByte(a[i])
	}
	return b.String()
}

func parseValue(e *sexp, sort Sort) (Value, error) {
	v := Value{Sort: sort}
	if !e.list {
		a := e.atom
		switch {
		case a == "true":
			v.U = 1
			return v, nil
		case a == "false":
			return v, nil
		case strings.HasPrefix(a, "#x"):
			u, err := strconv.ParseUint(a[2:], 16, 64)
			v.U = u
			return v, err
		case strings.HasPrefix(a, "#b"):
			u, err := strconv.ParseUint(a[2:], 2, 64)
			v.U = u
			return v, err
		case strings.HasPrefix(a, `"`):
			v.S = unquoteSMT(a)
			return v, nil
		default:
			i, err := strconv.ParseInt(a, 10, 64)
			v.I = i
			return v, err
		}
	}
	// (_ bvN w) or (- n)
	if len(e.kids) == 3 && e.kids[0].atom == "_" && strings.HasPrefix(e.kids[1].atom, "bv") {
		u, err := strconv.ParseUint(e.kids[1].atom[2:], 10, 64)
		v.U = u
		return v, err
	}
	if len(e.kids) == 2 && e.kids[0].atom == "-" {
		i, err := strconv.ParseInt(e.kids[1].atom, 10, 64)
		v.I = -i
		return v, err
	}
	return v, fmt.Errorf("unparsed model value")
}
