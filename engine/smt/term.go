// Package smt is a small hash-consed term DAG with eager simplification and an
// SMT-LIB2 printer. Sorts: Bool, (_ BitVec w), String, Int (only as glue for string lengths).
package smt

import (
	"fmt"
	"math/bits"
	"strconv"
	"strings"
)

type SortKind uint8

const (
	KBool SortKind = iota
	KBV
	KStr
	KInt
)

type Sort struct {
	K SortKind
	W int
}

var (
	Bool = Sort{K: KBool}
	Str  = Sort{K: KStr}
	Int  = Sort{K: KInt}
)

func BV(w int) Sort { return Sort{K: KBV, W: w} }

func (s Sort) String() string {
	switch s.K {
	case KBool:
		return "Bool"
	case KBV:
		return fmt.Sprintf("(_ BitVec %d)", s.W)
	case KStr:
		return "String"
	case KInt:
		return "Int"
	}
	return "?"
}

type Op uint8

const (
	OConst Op = iota
	OVar
	ONot
	OAnd
	OOr
	OEq
	OIte
	OBvAdd
	OBvSub
	OBvMul
	OBvUdiv
	OBvUrem
	OBvSdiv
	OBvSrem
	OBvAnd
	OBvOr
	OBvXor
	OBvShl
	OBvLshr
	OBvAshr
	OBvNeg
	OBvNot
	OBvUlt
	OBvUle
	OBvSlt
	OBvSle
	OExtract // A=hi B=lo
	OConcat
	OZext // A = extra bits
	OSext // A = extra bits
	// strings
	OStrConcat
	OStrLen      // -> Int
	OStrPrefixOf // (prefix, s)
	OStrSuffixOf
	OStrContains // (s, sub)
	OStrIndexOf  // (s, sub, from Int) -> Int
	OStrSubstr   // (s, off Int, len Int)
	OStrAt
	OStrReplace
	OStrLt
	OStrLe
	OStrFromInt // Int -> String
	OStrToInt
	OStrInRe // (s) with SVal = regex s-expr
	OStrToLower
	// ints
	OIntAdd
	OIntSub
	OIntLe
	OIntLt
	OBv2Nat  // BV -> Int
	OInt2Bv  // Int -> BV(A)
	OApp     // uninterpreted function application, Name = fn
)

var opNames = map[Op]string{
	ONot: "not", OAnd: "and", OOr: "or", OEq: "=", OIte: "ite",
	OBvAdd: "bvadd", OBvSub: "bvsub", OBvMul: "bvmul", OBvUdiv: "bvudiv", OBvUrem: "bvurem",
	OBvSdiv: "bvsdiv", OBvSrem: "bvsrem", OBvAnd: "bvand", OBvOr: "bvor", OBvXor: "bvxor",
	OBvShl: "bvshl", OBvLshr: "bvlshr", OBvAshr: "bvashr", OBvNeg: "bvneg", OBvNot: "bvnot",
	OBvUlt: "bvult", OBvUle: "bvule", OBvSlt: "bvslt", OBvSle: "bvsle", OConcat: "concat",
	OStrConcat: "str.++", OStrLen: "str.len", OStrPrefixOf: "str.prefixof", OStrSuffixOf: "str.suffixof",
	OStrContains: "str.contains", OStrIndexOf: "str.indexof", OStrSubstr: "str.substr", OStrAt: "str.at",
	OStrReplace: "str.replace", OStrLt: "str.<", OStrLe: "str.<=", OStrFromInt: "str.from_int", OStrToInt: "str.to_int",
	OStrToLower: "str.to_lower",
	OIntAdd: "+", OIntSub: "-", OIntLe: "<=", OIntLt: "<", OBv2Nat: "bv2nat",
}

type Term struct {
	Op   Op
	Args []*Term
	Sort Sort
	U    uint64 // BV const (masked) / Bool const (0/1)
	S    string // string const / var name / regex / fn name
	I    int64  // Int const
	A, B int
	ID   int
}

func (t *Term) IsConst() bool { return t.Op == OConst }
func (t *Term) IsTrue() bool  { return t.Op == OConst && t.Sort.K == KBool && t.U == 1 }
func (t *Term) IsFalse() bool { return t.Op == OConst && t.Sort.K == KBool && t.U == 0 }

// Store hash-conses terms. Not safe for concurrent use; one per path.
type Store struct {
	tab   map[string]*Term
	next  int
	Vars  []*Term
	Funs  map[string]string // uninterpreted fn name -> declaration
	funOrder []string
}

func NewStore() *Store {
	return &Store{tab: map[string]*Term{}, Funs: map[string]string{}}
}

func (st *Store) FunDecls() []string {
	out := make([]string, 0, len(st.funOrder))
	for _, n := range st.funOrder {
		out = append(out, st.Funs[n])
	}
	return out
}

func (st *Store) mk(t Term) *Term {
	var b strings.Builder
	b.WriteByte(byte(t.Op))
	b.WriteByte(byte(t.Sort.K))
	b.WriteString(strconv.Itoa(t.Sort.W))
	b.WriteByte('|')
	for _, a := range t.Args {
		b.WriteString(strconv.Itoa(a.ID))
		b.WriteByte(',')
	}
	b.WriteByte('|')
	b.WriteString(strconv.FormatUint(t.U, 16))
	b.WriteByte('|')
	b.WriteString(strconv.FormatInt(t.I, 10))
	b.WriteByte('|')
	b.WriteString(strconv.Itoa(t.A))
	b.WriteByte('|')
	b.WriteString(strconv.Itoa(t.B))
	b.WriteByte('|')
	b.WriteString(t.S)
	k := b.String()
	if x, ok := st.tab[k]; ok {
		return x
	}
	nt := new(Term)
	*nt = t
	nt.ID = st.next
	st.next++
	st.tab[k] = nt
	return nt
}

func mask(w int) uint64 {
	if w >= 64 {
		return ^uint64(0)
	}
	return (uint64(1) << uint(w)) - 1
}

func (st *Store) BoolC(b bool) *Term {
	u := uint64(0)
	if b {
		u = 1
	}
	return st.mk(Term{Op: OConst, Sort: Bool, U: u})
}
func (st *Store) BVC(w int, v uint64) *Term {
	return st.mk(Term{Op: OConst, Sort: BV(w), U: v & mask(w)})
}
func (st *Store) StrC(s string) *Term { return st.mk(Term{Op: OConst, Sort: Str, S: s}) }
func (st *Store) IntC(i int64) *Term  { return st.mk(Term{Op: OConst, Sort: Int, I: i}) }

func (st *Store) Var(name string, s Sort) *Term {
	t := st.mk(Term{Op: OVar, Sort: s, S: name})
	if t.ID == st.next-1 { // freshly created
		st.Vars = append(st.Vars, t)
	}
	return t
}

func (st *Store) Not(a *Term) *Term {
	if a.IsConst() {
		return st.BoolC(a.U == 0)
	}
	if a.Op == ONot {
		return a.Args[0]
	}
	return st.mk(Term{Op: ONot, Sort: Bool, Args: []*Term{a}})
}

func (st *Store) And(a, b *Term) *Term {
	if a.IsFalse() || b.IsFalse() {
		return st.BoolC(false)
	}
	if a.IsTrue() {
		return b
	}
	if b.IsTrue() {
		return a
	}
	if a == b {
		return a
	}
	if st.Not(a) == b {
		return st.BoolC(false)
	}
	return st.mk(Term{Op: OAnd, Sort: Bool, Args: []*Term{a, b}})
}

func (st *Store) Or(a, b *Term) *Term {
	if a.IsTrue() || b.IsTrue() {
		return st.BoolC(true)
	}
	if a.IsFalse() {
		return b
	}
	if b.IsFalse() {
		return a
	}
	if a == b {
		return a
	}
	if st.Not(a) == b {
		return st.BoolC(true)
	}
	return st.mk(Term{Op: OOr, Sort: Bool, Args: []*Term{a, b}})
}

func (st *Store) Implies(a, b *Term) *Term { return st.Or(st.Not(a), b) }

func (st *Store) Eq(a, b *Term) *Term {
	if a.Sort != b.Sort {
		panic(fmt.Sprintf("smt.Eq: sort mismatch %v vs %v", a.Sort, b.Sort))
	}
	if a == b {
		return st.BoolC(true)
	}
	if a.IsConst() && b.IsConst() {
		return st.BoolC(false) // hash-consed: distinct constants
	}
	if a.Op == OIte || b.Op == OIte {
		if r, ok := st.EqFinite(a, b); ok {
			return r
		}
	}
	if a.Sort.K == KBool {
		if a.IsConst() {
			a, b = b, a
		}
		if b.IsTrue() {
			return a
		}
		if b.IsFalse() {
			return st.Not(a)
		}
	}
	if a.ID > b.ID {
		a, b = b, a
	}
	return st.mk(Term{Op: OEq, Sort: Bool, Args: []*Term{a, b}})
}

func (st *Store) Ite(c, a, b *Term) *Term {
	if c.IsTrue() {
		return a
	}
	if c.IsFalse() {
		return b
	}
	if a == b {
		return a
	}
	if a.Sort.K == KBool {
		if a.IsTrue() && b.IsFalse() {
			return c
		}
		if a.IsFalse() && b.IsTrue() {
			return st.Not(c)
		}
	}
	return st.mk(Term{Op: OIte, Sort: a.Sort, Args: []*Term{c, a, b}})
}

func sext64(v uint64, w int) int64 {
	if w >= 64 {
		return int64(v)
	}
	sh := uint(64 - w)
	return int64(v<<sh) >> sh
}

// BvBin builds a binary bit-vector operation with constant folding.
func (st *Store) BvBin(op Op, a, b *Term) *Term {
	w := a.Sort.W
	if a.Sort != b.Sort || a.Sort.K != KBV {
		panic(fmt.Sprintf("smt.BvBin %s: sort mismatch %v vs %v", opNames[op], a.Sort, b.Sort))
	}
	if a.IsConst() && b.IsConst() {
		x, y := a.U, b.U
		switch op {
		case OBvAdd:
			return st.BVC(w, x+y)
		case OBvSub:
			return st.BVC(w, x-y)
		case OBvMul:
			return st.BVC(w, x*y)
		case OBvAnd:
			return st.BVC(w, x&y)
		case OBvOr:
			return st.BVC(w, x|y)
		case OBvXor:
			return st.BVC(w, x^y)
		case OBvShl:
			if y >= uint64(w) {
				return st.BVC(w, 0)
			}
			return st.BVC(w, x<<y)
		case OBvLshr:
			if y >= uint64(w) {
				return st.BVC(w, 0)
			}
			return st.BVC(w, x>>y)
		case OBvAshr:
			sx := sext64(x, w)
			if y >= uint64(w) {
				y = uint64(w - 1)
			}
			return st.BVC(w, uint64(sx>>y))
		case OBvUdiv:
			if y == 0 {
				return st.BVC(w, mask(w))
			}
			return st.BVC(w, x/y)
		case OBvUrem:
			if y == 0 {
				return st.BVC(w, x)
			}
			return st.BVC(w, x%y)
		case OBvSdiv:
			if y != 0 {
				sx, sy := sext64(x, w), sext64(y, w)
				if !(sx == -1<<63 && sy == -1) {
					return st.BVC(w, uint64(sx/sy))
				}
			}
		case OBvSrem:
			if y != 0 {
				sx, sy := sext64(x, w), sext64(y, w)
				if sy != -1 {
					return st.BVC(w, uint64(sx%sy))
				}
				return st.BVC(w, 0)
			}
		}
	}
	// identities
	switch op {
	case OBvAdd, OBvOr, OBvXor:
		if a.IsConst() && a.U == 0 {
			return b
		}
		if b.IsConst() && b.U == 0 {
			return a
		}
	case OBvSub, OBvShl, OBvLshr, OBvAshr:
		if b.IsConst() && b.U == 0 {
			return a
		}
	case OBvAnd:
		if a.IsConst() && a.U == 0 || b.IsConst() && b.U == 0 {
			return st.BVC(w, 0)
		}
		if a.IsConst() && a.U == mask(w) {
			return b
		}
		if b.IsConst() && b.U == mask(w) {
			return a
		}
	case OBvMul:
		if a.IsConst() && a.U == 1 {
			return b
		}
		if b.IsConst() && b.U == 1 {
			return a
		}
	}
	// shifts by constants become extract/concat so that byte (dis)assembly folds
	if b.IsConst() && b.U < uint64(w) && b.U > 0 {
		k := int(b.U)
		switch op {
		case OBvLshr:
			return st.Zext(st.Extract(a, w-1, k), k)
		case OBvShl:
			return st.Concat(st.Extract(a, w-1-k, 0), st.BVC(k, 0))
		}
	}
	if (op == OBvLshr || op == OBvShl) && b.IsConst() && b.U >= uint64(w) {
		return st.BVC(w, 0)
	}
	if op == OBvOr {
		if r := st.orConcat(a, b); r != nil {
			return r
		}
	}
	if op == OBvAnd && (a.IsConst() || b.IsConst()) {
		c, x := a, b
		if !c.IsConst() {
			c, x = b, a
		}
		// low-bit mask: x & (2^k-1)  ==> zext(extract(k-1,0,x))
		if c.U != 0 && c.U&(c.U+1) == 0 {
			k := bits.Len64(c.U)
			if k < w {
				return st.Zext(st.Extract(x, k-1, 0), w-k)
			}
		}
	}
	return st.mk(Term{Op: op, Sort: a.Sort, Args: []*Term{a, b}})
}

// segs decomposes a term into concat segments (msb first).
func segs(t *Term, out []*Term) []*Term {
	if t.Op == OConcat {
		out = segs(t.Args[0], out)
		return segs(t.Args[1], out)
	}
	if t.Op == OZext {
		// zero segment then arg
		return segs(t.Args[0], append(out, &Term{Op: OConst, Sort: BV(t.A), U: 0, ID: -1}))
	}
	return append(out, t)
}

func isZeroSeg(t *Term) bool { return t.Op == OConst && t.U == 0 }

// orConcat: bitwise-or of two terms whose concat segmentations have disjoint non-zero parts.
func (st *Store) orConcat(a, b *Term) *Term {
	if !(a.Op == OConcat || a.Op == OZext) || !(b.Op == OConcat || b.Op == OZext) {
		return nil
	}
	sa, sb := segs(a, nil), segs(b, nil)
	// split into aligned pieces
	var res []*Term
	ia, ib := 0, 0
	var ra, rb *Term // remaining pieces
	for {
		if ra == nil {
			if ia == len(sa) {
				break
			}
			ra = sa[ia]
			ia++
		}
		if rb == nil {
			if ib == len(sb) {
				return nil
			}
			rb = sb[ib]
			ib++
		}
		wa, wb := ra.Sort.W, rb.Sort.W
		wm := wa
		if wb < wm {
			wm = wb
		}
		pa, pb := ra, rb
		if wa > wm {
			if !isZeroSeg(ra) {
				pa = st.Extract(st.intern(ra), wa-1, wa-wm)
				ra = st.Extract(st.intern(ra), wa-wm-1, 0)
			} else {
				pa = &Term{Op: OConst, Sort: BV(wm), ID: -1}
				ra = &Term{Op: OConst, Sort: BV(wa - wm), ID: -1}
			}
		} else {
			ra = nil
		}
		if wb > wm {
			if !isZeroSeg(rb) {
				pb = st.Extract(st.intern(rb), wb-1, wb-wm)
				rb = st.Extract(st.intern(rb), wb-wm-1, 0)
			} else {
				pb = &Term{Op: OConst, Sort: BV(wm), ID: -1}
				rb = &Term{Op: OConst, Sort: BV(wb - wm), ID: -1}
			}
		} else {
			rb = nil
		}
		switch {
		case isZeroSeg(pa):
			res = append(res, st.intern(pb))
		case isZeroSeg(pb):
			res = append(res, st.intern(pa))
		default:
			return nil
		}
	}
	if rb != nil || ib != len(sb) {
		return nil
	}
	out := res[0]
	for _, s := range res[1:] {
		out = st.Concat(out, s)
	}
	return out
}

func (st *Store) intern(t *Term) *Term {
	if t.ID >= 0 {
		return t
	}
	return st.BVC(t.Sort.W, t.U)
}

func (st *Store) BvNeg(a *Term) *Term {
	if a.IsConst() {
		return st.BVC(a.Sort.W, -a.U)
	}
	return st.mk(Term{Op: OBvNeg, Sort: a.Sort, Args: []*Term{a}})
}
func (st *Store) BvNot(a *Term) *Term {
	if a.IsConst() {
		return st.BVC(a.Sort.W, ^a.U)
	}
	if a.Op == OBvNot {
		return a.Args[0]
	}
	return st.mk(Term{Op: OBvNot, Sort: a.Sort, Args: []*Term{a}})
}

func (st *Store) BvCmp(op Op, a, b *Term) *Term {
	if a.Sort != b.Sort || a.Sort.K != KBV {
		panic(fmt.Sprintf("smt.BvCmp: sort mismatch %v vs %v", a.Sort, b.Sort))
	}
	w := a.Sort.W
	if a.IsConst() && b.IsConst() {
		switch op {
		case OBvUlt:
			return st.BoolC(a.U < b.U)
		case OBvUle:
			return st.BoolC(a.U <= b.U)
		case OBvSlt:
			return st.BoolC(sext64(a.U, w) < sext64(b.U, w))
		case OBvSle:
			return st.BoolC(sext64(a.U, w) <= sext64(b.U, w))
		}
	}
	if a == b {
		return st.BoolC(op == OBvUle || op == OBvSle)
	}
	return st.mk(Term{Op: op, Sort: Bool, Args: []*Term{a, b}})
}

func (st *Store) Extract(a *Term, hi, lo int) *Term {
	w := a.Sort.W
	if hi >= w || lo < 0 || hi < lo {
		panic(fmt.Sprintf("smt.Extract [%d:%d] of width %d", hi, lo, w))
	}
	if lo == 0 && hi == w-1 {
		return a
	}
	if a.IsConst() {
		return st.BVC(hi-lo+1, a.U>>uint(lo))
	}
	switch a.Op {
	case OExtract:
		return st.Extract(a.Args[0], a.B+hi, a.B+lo)
	case OConcat:
		wl := a.Args[1].Sort.W
		if hi < wl {
			return st.Extract(a.Args[1], hi, lo)
		}
		if lo >= wl {
			return st.Extract(a.Args[0], hi-wl, lo-wl)
		}
		return st.Concat(st.Extract(a.Args[0], hi-wl, 0), st.Extract(a.Args[1], wl-1, lo))
	case OZext:
		wi := a.Args[0].Sort.W
		if hi < wi {
			return st.Extract(a.Args[0], hi, lo)
		}
		if lo >= wi {
			return st.BVC(hi-lo+1, 0)
		}
		return st.Zext(st.Extract(a.Args[0], wi-1, lo), hi-wi+1)
	case OSext:
		wi := a.Args[0].Sort.W
		if hi < wi {
			return st.Extract(a.Args[0], hi, lo)
		}
	}
	return st.mk(Term{Op: OExtract, Sort: BV(hi - lo + 1), Args: []*Term{a}, A: hi, B: lo})
}

func (st *Store) Concat(a, b *Term) *Term {
	if a.IsConst() && b.IsConst() && a.Sort.W+b.Sort.W <= 64 {
		return st.BVC(a.Sort.W+b.Sort.W, a.U<<uint(b.Sort.W)|b.U)
	}
	if a.IsConst() && a.U == 0 {
		return st.Zext(b, a.Sort.W)
	}
	// adjacent extracts of the same term
	if a.Op == OExtract && b.Op == OExtract && a.Args[0] == b.Args[0] && a.B == b.A+1 {
		return st.Extract(a.Args[0], a.A, b.B)
	}
	// (concat x (concat (extract..) y)) re-association for byte assembly
	if b.Op == OConcat && a.Op == OExtract && b.Args[0].Op == OExtract &&
		a.Args[0] == b.Args[0].Args[0] && a.B == b.Args[0].A+1 {
		return st.Concat(st.Extract(a.Args[0], a.A, b.Args[0].B), b.Args[1])
	}
	if a.Op == OConcat && b.Op == OExtract && a.Args[1].Op == OExtract &&
		a.Args[1].Args[0] == b.Args[0] && a.Args[1].B == b.A+1 {
		return st.Concat(a.Args[0], st.Extract(b.Args[0], a.Args[1].A, b.B))
	}
	return st.mk(Term{Op: OConcat, Sort: BV(a.Sort.W + b.Sort.W), Args: []*Term{a, b}})
}

func (st *Store) Zext(a *Term, extra int) *Term {
	if extra == 0 {
		return a
	}
	if a.IsConst() {
		return st.BVC(a.Sort.W+extra, a.U)
	}
	if a.Op == OZext {
		return st.Zext(a.Args[0], a.A+extra)
	}
	return st.mk(Term{Op: OZext, Sort: BV(a.Sort.W + extra), Args: []*Term{a}, A: extra})
}

func (st *Store) Sext(a *Term, extra int) *Term {
	if extra == 0 {
		return a
	}
	if a.IsConst() {
		return st.BVC(a.Sort.W+extra, uint64(sext64(a.U, a.Sort.W)))
	}
	return st.mk(Term{Op: OSext, Sort: BV(a.Sort.W + extra), Args: []*Term{a}, A: extra})
}

// ---- strings / ints ----

func (st *Store) StrConcat(parts ...*Term) *Term {
	// distribute over finite ite-trees so that finite-domain strings stay finite
	prod, anyIte := 1, false
	for _, p := range parts {
		n := LeafCount(p, 64)
		if n == 0 {
			prod = 0
			break
		}
		if p.Op == OIte {
			anyIte = true
		}
		prod *= n
		if prod > 256 {
			prod = 0
			break
		}
	}
	if anyIte && prod > 0 {
		var rec func(i int, acc string) *Term
		rec = func(i int, acc string) *Term {
			if i == len(parts) {
				return st.StrC(acc)
			}
			return st.MapLeaves(parts[i], func(l *Term) *Term { return rec(i+1, acc+l.S) })
		}
		return rec(0, "")
	}
	var out []*Term
	for _, p := range parts {
		if p.Op == OStrConcat {
			out = append(out, p.Args...)
			continue
		}
		if p.IsConst() && p.S == "" {
			continue
		}
		if n := len(out); n > 0 && out[n-1].IsConst() && p.IsConst() {
			out[n-1] = st.StrC(out[n-1].S + p.S)
			continue
		}
		out = append(out, p)
	}
	switch len(out) {
	case 0:
		return st.StrC("")
	case 1:
		return out[0]
	}
	return st.mk(Term{Op: OStrConcat, Sort: Str, Args: out})
}

func (st *Store) StrOp(op Op, sort Sort, args ...*Term) *Term {
	switch op {
	case OStrContains:
		a, b := args[0], args[1]
		if b.IsConst() {
			if a.IsConst() {
				return st.BoolC(strings.Contains(a.S, b.S))
			}
			if b.S == "" {
				return st.BoolC(true)
			}
			if a.Op == OStrConcat {
				for _, p := range a.Args {
					if p.IsConst() && strings.Contains(p.S, b.S) {
						return st.BoolC(true)
					}
				}
				if len(b.S) == 1 {
					// a single character cannot straddle parts: disjunction over the symbolic parts
					r := st.BoolC(false)
					for _, p := range a.Args {
						if !p.IsConst() {
							r = st.Or(r, st.mk(Term{Op: OStrContains, Sort: Bool, Args: []*Term{p, b}}))
						}
					}
					return r
				}
			}
		}
	case OStrPrefixOf:
		pre, s := args[0], args[1]
		if pre.IsConst() {
			if s.IsConst() {
				return st.BoolC(strings.HasPrefix(s.S, pre.S))
			}
			if s.Op == OStrConcat && s.Args[0].IsConst() {
				h := s.Args[0].S
				if len(h) >= len(pre.S) {
					return st.BoolC(strings.HasPrefix(h, pre.S))
				}
				if !strings.HasPrefix(pre.S, h) {
					return st.BoolC(false)
				}
			}
		}
	case OStrLen:
		if args[0].IsConst() {
			return st.IntC(int64(len(args[0].S)))
		}
	case OStrToLower:
		if args[0].IsConst() {
			return st.StrC(strings.ToLower(args[0].S))
		}
	case OStrSubstr:
		// substr(c ++ rest, len(c), len(whole)) = rest   (cutting a constant prefix)
		if args[1].IsConst() && args[0].Op == OStrConcat && args[0].Args[0].IsConst() &&
			int(args[1].I) == len(args[0].Args[0].S) && args[2].Op == OStrLen && args[2].Args[0] == args[0] {
			return st.StrConcat(args[0].Args[1:]...)
		}
		if args[0].IsConst() && args[1].IsConst() && args[2].IsConst() {
			s0, off, n := args[0].S, int(args[1].I), int(args[2].I)
			if off < 0 || off > len(s0) || n <= 0 {
				return st.StrC("")
			}
			if off+n > len(s0) {
				n = len(s0) - off
			}
			return st.StrC(s0[off : off+n])
		}
	}
	return st.mk(Term{Op: op, Sort: sort, Args: args})
}

func (st *Store) StrInRe(s *Term, re string) *Term {
	return st.mk(Term{Op: OStrInRe, Sort: Bool, Args: []*Term{s}, S: re})
}

func (st *Store) IntBin(op Op, a, b *Term) *Term {
	if a.IsConst() && b.IsConst() {
		switch op {
		case OIntAdd:
			return st.IntC(a.I + b.I)
		case OIntSub:
			return st.IntC(a.I - b.I)
		case OIntLe:
			return st.BoolC(a.I <= b.I)
		case OIntLt:
			return st.BoolC(a.I < b.I)
		}
	}
	s := Int
	if op == OIntLe || op == OIntLt {
		s = Bool
	}
	return st.mk(Term{Op: op, Sort: s, Args: []*Term{a, b}})
}

func (st *Store) Bv2Nat(a *Term) *Term {
	if a.IsConst() {
		return st.IntC(int64(a.U))
	}
	return st.mk(Term{Op: OBv2Nat, Sort: Int, Args: []*Term{a}})
}

func (st *Store) Int2Bv(a *Term, w int) *Term {
	if a.IsConst() {
		return st.BVC(w, uint64(a.I))
	}
	if a.Op == OBv2Nat && a.Args[0].Sort.W == w {
		return a.Args[0]
	}
	return st.mk(Term{Op: OInt2Bv, Sort: BV(w), Args: []*Term{a}, A: w})
}

// App is an uninterpreted function application; decl is the full declare-fun line.
func (st *Store) App(name, decl string, sort Sort, args ...*Term) *Term {
	if _, ok := st.Funs[name]; !ok {
		st.Funs[name] = decl
		st.funOrder = append(st.funOrder, name)
	}
	return st.mk(Term{Op: OApp, Sort: sort, Args: args, S: name})
}

// ---- printing ----

func quoteStr(s string) string {
	var b strings.Builder
	b.WriteByte('"')
	for i := 0; i < len(s); i++ {
		c := s[i]
		switch {
		case c == '"':
			b.WriteString(`""`)
		case c == '\\' || c < 0x20 || c > 0x7e:
			fmt.Fprintf(&b, "\\u{%x}", c)
		default:
			b.WriteByte(c)
		}
	}
	b.WriteByte('"')
	return b.String()
}

func (t *Term) leafString() (string, bool) {
	switch t.Op {
	case OConst:
		switch t.Sort.K {
		case KBool:
			if t.U == 1 {
				return "true", true
			}
			return "false", true
		case KBV:
			if t.Sort.W%4 == 0 {
				return fmt.Sprintf("#x%0*x", t.Sort.W/4, t.U), true
			}
			return fmt.Sprintf("#b%0*b", t.Sort.W, t.U), true
		case KStr:
			return quoteStr(t.S), true
		case KInt:
			if t.I < 0 {
				return fmt.Sprintf("(- %d)", -t.I), true
			}
			return strconv.FormatInt(t.I, 10), true
		}
	case OVar:
		return t.S, true
	}
	return "", false
}

// Name returns the SMT-LIB symbol by which the term is referred to once defined.
func (t *Term) Name() string {
	if s, ok := t.leafString(); ok {
		return s
	}
	return "$t" + strconv.Itoa(t.ID)
}

// Body returns the operator application with children referred to by name.
func (t *Term) Body() string {
	var b strings.Builder
	switch t.Op {
	case OExtract:
		fmt.Fprintf(&b, "((_ extract %d %d) %s)", t.A, t.B, t.Args[0].Name())
		return b.String()
	case OZext:
		fmt.Fprintf(&b, "((_ zero_extend %d) %s)", t.A, t.Args[0].Name())
		return b.String()
	case OSext:
		fmt.Fprintf(&b, "((_ sign_extend %d) %s)", t.A, t.Args[0].Name())
		return b.String()
	case OInt2Bv:
		fmt.Fprintf(&b, "((_ int2bv %d) %s)", t.A, t.Args[0].Name())
		return b.String()
	case OStrInRe:
		fmt.Fprintf(&b, "(str.in_re %s %s)", t.Args[0].Name(), t.S)
		return b.String()
	case OApp:
		b.WriteString("(" + t.S)
	default:
		n, ok := opNames[t.Op]
		if !ok {
			panic(fmt.Sprintf("smt: no name for op %d", t.Op))
		}
		b.WriteString("(" + n)
	}
	for _, a := range t.Args {
		b.WriteByte(' ')
		b.WriteString(a.Name())
	}
	b.WriteByte(')')
	return b.String()
}

// Pretty prints a (possibly large) term fully expanded up to a size limit, for evidence samples.
func (t *Term) Pretty(limit int) string {
	var b strings.Builder
	var rec func(x *Term)
	rec = func(x *Term) {
		if b.Len() > limit {
			return
		}
		if s, ok := x.leafString(); ok {
			b.WriteString(s)
			return
		}
		switch x.Op {
		case OExtract:
			fmt.Fprintf(&b, "((_ extract %d %d) ", x.A, x.B)
		case OZext:
			fmt.Fprintf(&b, "((_ zero_extend %d) ", x.A)
		case OSext:
			fmt.Fprintf(&b, "((_ sign_extend %d) ", x.A)
		case OInt2Bv:
			fmt.Fprintf(&b, "((_ int2bv %d) ", x.A)
		case OStrInRe:
			b.WriteString("(str.in_re ")
		case OApp:
			b.WriteString("(" + x.S + " ")
		default:
			b.WriteString("(" + opNames[x.Op] + " ")
		}
		for i, a := range x.Args {
			if i > 0 {
				b.WriteByte(' ')
			}
			rec(a)
		}
		if x.Op == OStrInRe {
			b.WriteString(" " + x.S)
		}
		b.WriteByte(')')
	}
	rec(t)
	s := b.String()
	if len(s) > limit {
		s = s[:limit] + "…"
	}
	return s
}

// ---- finite ite-trees over constants (finite-domain values) ----

// LeafCount returns the number of leaves if t is an ite-tree whose leaves are all constants, else 0.
func LeafCount(t *Term, limit int) int {
	switch t.Op {
	case OConst:
		return 1
	case OIte:
		a := LeafCount(t.Args[1], limit)
		if a == 0 {
			return 0
		}
		b := LeafCount(t.Args[2], limit)
		if b == 0 || a+b > limit {
			return 0
		}
		return a + b
	}
	return 0
}

// MapLeaves applies f to every constant leaf of a finite ite-tree and rebuilds the tree.
func (st *Store) MapLeaves(t *Term, f func(leaf *Term) *Term) *Term {
	if t.Op == OConst {
		return f(t)
	}
	return st.Ite(t.Args[0], st.MapLeaves(t.Args[1], f), st.MapLeaves(t.Args[2], f))
}

// EqFinite expands equality over finite ite-trees so that no string (or wide) theory atom remains.
func (st *Store) EqFinite(a, b *Term) (*Term, bool) {
	na, nb := LeafCount(a, 64), LeafCount(b, 64)
	if na == 0 || nb == 0 || na*nb > 1024 || (na == 1 && nb == 1) {
		return nil, false
	}
	return st.MapLeaves(a, func(x *Term) *Term {
		return st.MapLeaves(b, func(y *Term) *Term { return st.BoolC(x == y) })
	}), true
}
