package smt

import (
	"math/rand"
	"testing"
)

// raw builds the same op without simplification for differential testing.
func raw(st *Store, op Op, a, b *Term) *Term {
	return st.mk(Term{Op: op, Sort: a.Sort, Args: []*Term{a, b}})
}

func TestByteAssembly(t *testing.T) {
	st := NewStore()
	x := st.Var("x", BV(32))
	var bytes [4]*Term
	for i := 0; i < 4; i++ {
		sh := st.BvBin(OBvLshr, x, st.BVC(32, uint64(24-8*i)))
		bytes[i] = st.Extract(sh, 7, 0)
	}
	// binary.BigEndian.Uint32
	r := st.Zext(bytes[3], 24)
	r = st.BvBin(OBvOr, r, st.BvBin(OBvShl, st.Zext(bytes[2], 24), st.BVC(32, 8)))
	r = st.BvBin(OBvOr, r, st.BvBin(OBvShl, st.Zext(bytes[1], 24), st.BVC(32, 16)))
	r = st.BvBin(OBvOr, r, st.BvBin(OBvShl, st.Zext(bytes[0], 24), st.BVC(32, 24)))
	if r != x {
		t.Fatalf("byte assembly did not fold: %s", r.Pretty(500))
	}
}

func TestRandomSimplify(t *testing.T) {
	rng := rand.New(rand.NewSource(1))
	ops := []Op{OBvAdd, OBvSub, OBvMul, OBvAnd, OBvOr, OBvXor, OBvShl, OBvLshr, OBvAshr, OBvUdiv, OBvUrem}
	for iter := 0; iter < 3000; iter++ {
		st := NewStore()
		w := []int{8, 16, 32, 64}[rng.Intn(4)]
		vars := []*Term{st.Var("a", BV(w)), st.Var("b", BV(w)), st.Var("c", BV(w))}
		type pair struct{ s, r *Term }
		pool := []pair{}
		for _, v := range vars {
			pool = append(pool, pair{v, v})
		}
		consts := []uint64{0, 1, 8, 16, 24, 0xff, 0xffff, mask(w), uint64(w), 3}
		for _, c := range consts {
			k := st.BVC(w, c)
			pool = append(pool, pair{k, k})
		}
		for k := 0; k < 12; k++ {
			a, b := pool[rng.Intn(len(pool))], pool[rng.Intn(len(pool))]
			switch rng.Intn(6) {
			case 0: // extract+zext
				hi := rng.Intn(w)
				lo := rng.Intn(hi + 1)
				s := st.Zext(st.Extract(a.s, hi, lo), w-(hi-lo+1))
				rr := st.mk(Term{Op: OExtract, Sort: BV(hi - lo + 1), Args: []*Term{a.r}, A: hi, B: lo})
				if w-(hi-lo+1) > 0 {
					rr = st.mk(Term{Op: OZext, Sort: BV(w), Args: []*Term{rr}, A: w - (hi - lo + 1)})
				}
				pool = append(pool, pair{s, rr})
			case 1: // concat halves
				h := w / 2
				s := st.Concat(st.Extract(a.s, w-1, h), st.Extract(b.s, h-1, 0))
				r1 := st.mk(Term{Op: OExtract, Sort: BV(w - h), Args: []*Term{a.r}, A: w - 1, B: h})
				r2 := st.mk(Term{Op: OExtract, Sort: BV(h), Args: []*Term{b.r}, A: h - 1, B: 0})
				pool = append(pool, pair{s, st.mk(Term{Op: OConcat, Sort: BV(w), Args: []*Term{r1, r2}})})
			default:
				op := ops[rng.Intn(len(ops))]
				pool = append(pool, pair{st.BvBin(op, a.s, b.s), raw(st, op, a.r, b.r)})
			}
		}
		for trial := 0; trial < 8; trial++ {
			env := map[string]uint64{"a": rng.Uint64(), "b": rng.Uint64(), "c": rng.Uint64()}
			if trial == 0 {
				env = map[string]uint64{"a": 0, "b": mask(w), "c": 1}
			}
			for i, p := range pool {
				if Eval(p.s, env) != Eval(p.r, env) {
					t.Fatalf("iter %d pool %d: simplified %s = %x, raw %s = %x (env %v w %d)", iter, i,
						p.s.Pretty(300), Eval(p.s, env), p.r.Pretty(300), Eval(p.r, env), env, w)
				}
			}
		}
	}
}
