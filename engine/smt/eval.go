package smt

import "fmt"

// Eval evaluates a Bool/BV term under an assignment of its variables (used to test the simplifier
// and to double-check models). Strings/ints are not supported.
func Eval(t *Term, env map[string]uint64) uint64 {
	w := t.Sort.W
	b2u := func(b bool) uint64 {
		if b {
			return 1
		}
		return 0
	}
	switch t.Op {
	case OConst:
		return t.U
	case OVar:
		return env[t.S] & maskOf(t.Sort)
	case ONot:
		return 1 - Eval(t.Args[0], env)
	case OAnd:
		return Eval(t.Args[0], env) & Eval(t.Args[1], env)
	case OOr:
		return Eval(t.Args[0], env) | Eval(t.Args[1], env)
	case OEq:
		return b2u(Eval(t.Args[0], env) == Eval(t.Args[1], env))
	case OIte:
		if Eval(t.Args[0], env) == 1 {
			return Eval(t.Args[1], env)
		}
		return Eval(t.Args[2], env)
	case OExtract:
		return (Eval(t.Args[0], env) >> uint(t.B)) & mask(t.A-t.B+1)
	case OConcat:
		return (Eval(t.Args[0], env)<<uint(t.Args[1].Sort.W) | Eval(t.Args[1], env)) & mask(w)
	case OZext:
		return Eval(t.Args[0], env)
	case OSext:
		return uint64(sext64(Eval(t.Args[0], env), t.Args[0].Sort.W)) & mask(w)
	case OBvNeg:
		return (-Eval(t.Args[0], env)) & mask(w)
	case OBvNot:
		return (^Eval(t.Args[0], env)) & mask(w)
	}
	x, y := Eval(t.Args[0], env), Eval(t.Args[1], env)
	aw := t.Args[0].Sort.W
	switch t.Op {
	case OBvAdd:
		return (x + y) & mask(w)
	case OBvSub:
		return (x - y) & mask(w)
	case OBvMul:
		return (x * y) & mask(w)
	case OBvAnd:
		return x & y
	case OBvOr:
		return x | y
	case OBvXor:
		return x ^ y
	case OBvShl:
		if y >= uint64(w) {
			return 0
		}
		return (x << y) & mask(w)
	case OBvLshr:
		if y >= uint64(w) {
			return 0
		}
		return x >> y
	case OBvAshr:
		if y >= uint64(w) {
			y = uint64(w - 1)
		}
		return uint64(sext64(x, w)>>y) & mask(w)
	case OBvUdiv:
		if y == 0 {
			return mask(w)
		}
		return x / y
	case OBvUrem:
		if y == 0 {
			return x
		}
		return x % y
	case OBvSdiv:
		sx, sy := sext64(x, w), sext64(y, w)
		if sy == 0 {
			if sx < 0 {
				return 1
			}
			return mask(w)
		}
		if sy == -1 {
			return uint64(-sx) & mask(w)
		}
		return uint64(sx/sy) & mask(w)
	case OBvSrem:
		sx, sy := sext64(x, w), sext64(y, w)
		if sy == 0 {
			return x
		}
		if sy == -1 {
			return 0
		}
		return uint64(sx%sy) & mask(w)
	case OBvUlt:
		return b2u(x < y)
	case OBvUle:
		return b2u(x <= y)
	case OBvSlt:
		return b2u(sext64(x, aw) < sext64(y, aw))
	case OBvSle:
		return b2u(sext64(x, aw) <= sext64(y, aw))
	}
	panic(fmt.Sprintf("smt.Eval: unsupported op %d", t.Op))
}

func maskOf(s Sort) uint64 {
	if s.K == KBool {
		return 1
	}
	return mask(s.W)
}
