package portmapping

import utiliptables "tkestack.io/galaxy/pkg/utils/iptables"

// VerifNewHandler builds a handler over the given iptables implementation (the repository's in-memory fake).
func VerifNewHandler(ipt utiliptables.Interface) *PortMappingHandler {
	vBusy, vNextRand, vOther = map[string]string{}, 0, map[string]bool{}
	return &PortMappingHandler{Interface: ipt, podPortMap: make(map[string]map[hostport]closeable)}
}

// VerifPortHeld reports whether somebody holds proto:port (engine: the bind() model; natively: a bind attempt).
func VerifPortHeld(proto string, port int32) bool { return vHeld(proto, port) }

// VerifNewHandlerKeepPorts: a second handler (for a reference table) that does not reset the host-port bookkeeping.
func VerifNewHandlerKeepPorts(ipt utiliptables.Interface) *PortMappingHandler {
	return &PortMappingHandler{Interface: ipt, podPortMap: make(map[string]map[hostport]closeable)}
}
