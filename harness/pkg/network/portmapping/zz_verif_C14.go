package portmapping

import (
	"fmt"
	"net"

	"tkestack.io/galaxy/pkg/api/k8s"
)

// INTERCEPT: tkestack.io/galaxy/pkg/network/portmapping.openLocalPort => verifModelOpenLocalPort

// C14 (sockets): every host port handed out, including random ones, is distinct on the node and stays bound by
// galaxy until the pod is torn down; a failed setup leaves no port open.
// ASSUME: C14: the kernel's bind() is modelled: binding a busy port fails, port 0 yields a port nobody holds (engine: openLocalPort intercepted by a harness model over a table of busy ports; native replay: real sockets on loopback ports 39011..39013)

type vSock struct {
	port  int32
	proto string
}

func (s *vSock) Close() error {
	delete(vBusy, fmt.Sprintf("%s:%d", s.proto, s.port))
	return nil
}

var (
	vBusy     map[string]string // "proto:port" -> holder ("other" = another process, pod name = galaxy for that pod)
	vNextRand int32
	vHolders  []closeable // native: sockets held by "another process"
	vOther    map[string]bool // ports another process holds
)

// engine side: the model of openLocalPort
func verifModelOpenLocalPort(hp *hostport) (closeable, error) {
	if hp.protocol != "tcp" && hp.protocol != "udp" {
		return nil, fmt.Errorf("unknown protocol %q", hp.protocol)
	}
	p := hp.port
	if p == 0 {
		vNextRand++
		p = 39100 + vNextRand
	}
	key := fmt.Sprintf("%s:%d", hp.protocol, p)
	if _, busy := vBusy[key]; busy {
		return nil, fmt.Errorf("listen %s: bind: address already in use", key)
	}
	vBusy[key] = "galaxy"
	hp.port = p
	return &vSock{port: p, proto: hp.protocol}, nil
}

// vOccupy lets another process hold proto:port.
func vOccupy(proto string, port int32) {
	vOther[fmt.Sprintf("%s:%d", proto, port)] = true
	if verifSymbolic() {
		vBusy[fmt.Sprintf("%s:%d", proto, port)] = "other"
		return
	}
	if proto == "tcp" {
		if l, err := net.Listen("tcp", fmt.Sprintf(":%d", port)); err == nil {
			vHolders = append(vHolders, l)
		}
	} else {
		if a, err := net.ResolveUDPAddr("udp", fmt.Sprintf(":%d", port)); err == nil {
			if c, err := net.ListenUDP("udp", a); err == nil {
				vHolders = append(vHolders, c)
			}
		}
	}
}

// vHeld reports whether somebody holds proto:port (engine: the table; natively: a bind attempt fails).
func vHeld(proto string, port int32) bool {
	if verifSymbolic() {
		_, busy := vBusy[fmt.Sprintf("%s:%d", proto, port)]
		return busy
	}
	if proto == "tcp" {
		l, err := net.Listen("tcp", fmt.Sprintf(":%d", port))
		if err != nil {
			return true
		}
		l.Close()
		return false
	}
	a, _ := net.ResolveUDPAddr("udp", fmt.Sprintf(":%d", port))
	c, err := net.ListenUDP("udp", a)
	if err != nil {
		return true
	}
	c.Close()
	return false
}

func vRelease() {
	for _, h := range vHolders {
		h.Close()
	}
	vHolders = nil
}

// BOUND: one pod with 1..3 port entries; host port over {-1, 0 (random), 39011, 39012, 39013}, protocol over {tcp, udp, TCP, sctp}; randomPortMapping symbolic; any one of the fixed ports may be held by another process; then CloseHostports
func VerifC14_q_hostportSockets() {
	vBusy, vNextRand, vOther = map[string]string{}, 0, map[string]bool{}
	defer vRelease()
	h := &PortMappingHandler{podPortMap: make(map[string]map[hostport]closeable)}
	n := nondetChoice(3) + 1
	var ports []k8s.Port
	for i := 0; i < n; i++ {
		hpv := []int32{-1, 0, 39011, 39012, 39013}[nondetChoice(5)]
		proto := []string{"tcp", "udp", "TCP", "sctp"}[nondetChoice(4)]
		ports = append(ports, k8s.Port{HostPort: hpv, ContainerPort: 80, Protocol: proto, PodName: "p"})
	}
	random := nondetBool()
	switch nondetChoice(4) {
	case 1:
		vOccupy("tcp", 39011)
	case 2:
		vOccupy("udp", 39012)
	case 3:
		vOccupy("tcp", 39013)
	}
	requested := make([]k8s.Port, len(ports))
	copy(requested, ports)
	err := h.OpenHostports("p_ns", random, ports)
	verifReach("opened")
	held := h.podPortMap["p_ns"]
	if err != nil {
		verifAssert("C14/failed-setup-records-nothing", len(held) == 0, "a failed setup left sockets recorded for the pod")
		// no port that was free before is held now: try every port galaxy could have opened
		for i := range requested {
			if requested[i].HostPort > 0 {
				pr := "tcp"
				if requested[i].Protocol == "udp" {
					pr = "udp"
				}
				otherHolds := vOther[fmt.Sprintf("%s:%d", pr, requested[i].HostPort)]
				verifAssert("C14/failed-setup-leaves-nothing-open", !vHeld(pr, requested[i].HostPort) || otherHolds, "a failed setup left a host port open")
			}
		}
		return
	}
	verifReach("setup-succeeded")
	// every entry that asked for a port got a distinct one which galaxy holds
	seen := map[string]bool{}
	var handed []vSock
	for i := range ports {
		want := requested[i].HostPort > 0 || (requested[i].HostPort == 0 && random)
		if !want {
			continue
		}
		pr := "tcp"
		if requested[i].Protocol == "udp" {
			pr = "udp"
		}
		verifAssert("C14/port-written-back", ports[i].HostPort > 0 && (requested[i].HostPort == 0 || ports[i].HostPort == requested[i].HostPort), "the host port written back is not the requested / allocated one")
		key := fmt.Sprintf("%s:%d", pr, ports[i].HostPort)
		verifAssert("C14/port-held", vHeld(pr, ports[i].HostPort), "a handed-out host port is not bound by galaxy")
		if requested[i].HostPort == 0 {
			verifAssert("C14/random-port-distinct", !seen[key], "the same random host port was handed out twice")
		}
		seen[key] = true
		handed = append(handed, vSock{port: ports[i].HostPort, proto: pr})
	}
	h.CloseHostports("p_ns")
	for _, hs := range handed {
		verifAssert("C14/closed-after-teardown", !vHeld(hs.proto, hs.port), "a host port is still bound after the pod was torn down")
	}
	verifAssert("C14/map-cleared", len(h.podPortMap["p_ns"]) == 0, "the pod's socket table survives teardown")
}

// BOUND: one pod whose host ports (1..2 fixed ports out of 39011/tcp, 39012/udp) are opened successfully; then a second OpenHostports for the same pod (a new sandbox ADD arriving before the old sandbox's DEL) with 1..2 entries out of {a port the pod already holds, a port another process holds, a free port 39013/tcp} which may fail; then CloseHostports: no port of either call is still bound by galaxy
func VerifC14_q_reopenThenClose() {
	vBusy, vNextRand, vOther = map[string]string{}, 0, map[string]bool{}
	defer vRelease()
	h := &PortMappingHandler{podPortMap: make(map[string]map[hostport]closeable)}
	first := []k8s.Port{{HostPort: 39011, ContainerPort: 80, Protocol: "tcp", PodName: "p"}}
	if nondetBool() {
		first = append(first, k8s.Port{HostPort: 39012, ContainerPort: 53, Protocol: "udp", PodName: "p"})
	}
	if err := h.OpenHostports("p_ns", false, first); err != nil {
		return
	}
	vOccupy("udp", 39014)
	var second []k8s.Port
	for i, n := 0, nondetChoice(2)+1; i < n; i++ {
		switch nondetChoice(3) {
		case 0:
			second = append(second, k8s.Port{HostPort: 39011, ContainerPort: 80, Protocol: "tcp", PodName: "p"})
		case 1:
			second = append(second, k8s.Port{HostPort: 39014, ContainerPort: 53, Protocol: "udp", PodName: "p"})
		default:
			second = append(second, k8s.Port{HostPort: 39013, ContainerPort: 443, Protocol: "tcp", PodName: "p"})
		}
	}
	err := h.OpenHostports("p_ns", false, second)
	verifReach("reopened")
	if err != nil {
		verifReach("reopen-failed")
	}
	h.CloseHostports("p_ns")
	verifReach("closed")
	for _, p := range []struct {
		proto string
		port  int32
	}{{"tcp", 39011}, {"udp", 39012}, {"tcp", 39013}} {
		verifAssert("C14/reopen-ports-closed", !vHeld(p.proto, p.port), fmt.Sprintf("host port %s/%d is still bound by galaxy after the pod was torn down", p.proto, p.port))
	}
	verifAssert("C14/reopen-nothing-recorded", len(h.podPortMap["p_ns"]) == 0, "sockets are still recorded for the pod after CloseHostports")
}
