package galaxy

import (
	"bytes"
	"fmt"
	"io/ioutil"
	"net"
	"os"
	"sort"
	"strings"

	"github.com/containernetworking/cni/pkg/skel"
	t020 "github.com/containernetworking/cni/pkg/types/020"
	corev1 "k8s.io/api/core/v1"
	metav1 "k8s.io/apimachinery/pkg/apis/meta/v1"
	galaxyapi "tkestack.io/galaxy/pkg/api/galaxy"
	"tkestack.io/galaxy/pkg/api/k8s"
	"tkestack.io/galaxy/pkg/network/portmapping"
	utiliptables "tkestack.io/galaxy/pkg/utils/iptables"
	iptablestesting "tkestack.io/galaxy/pkg/utils/iptables/testing"
)

// C14 (NAT table): setting up the port mappings of a pod and cleaning them up again -- also after a setup that
// failed half way -- leaves no chain or rule of that pod behind and changes nothing else; a full synchronisation
// leaves exactly the chains and rules of the given ports whatever stale chains existed.
// ASSUME: C14: the kernel NAT table is the repository's in-memory iptables fake; one iptables call may fail cleanly at a symbolic position (wrapper around the fake)

// vFaultyIPT fails the n-th mutating call.
type vFaultyIPT struct {
	utiliptables.Interface
	calls, failAt int
}

func (f *vFaultyIPT) tick() error {
	f.calls++
	if f.failAt == f.calls {
		return fmt.Errorf("iptables: injected failure")
	}
	return nil
}
func (f *vFaultyIPT) EnsureRule(pos utiliptables.RulePosition, t utiliptables.Table, c utiliptables.Chain, args ...string) (bool, error) {
	if err := f.tick(); err != nil {
		return false, err
	}
	return f.Interface.EnsureRule(pos, t, c, args...)
}
func (f *vFaultyIPT) DeleteRule(t utiliptables.Table, c utiliptables.Chain, args ...string) error {
	if err := f.tick(); err != nil {
		return err
	}
	return f.Interface.DeleteRule(t, c, args...)
}
func (f *vFaultyIPT) RestoreAll(data []byte, fl utiliptables.FlushFlag, cn utiliptables.RestoreCountersFlag) error {
	if err := f.tick(); err != nil {
		return err
	}
	return f.Interface.RestoreAll(data, fl, cn)
}

func vNat(ipt utiliptables.Interface) string {
	buf := bytes.NewBuffer(nil)
	if err := ipt.SaveInto(utiliptables.TableNAT, buf); err != nil {
		return "ERR " + err.Error()
	}
	return buf.String()
}

func vPortPod(name string, ports []corev1.ContainerPort) *corev1.Pod {
	return &corev1.Pod{ObjectMeta: metav1.ObjectMeta{Name: name, Namespace: "ns"}, Spec: corev1.PodSpec{Containers: []corev1.Container{{Name: "c", Ports: ports}}}}
}

func vPortReq(container, pod string) *galaxyapi.PodRequest {
	return &galaxyapi.PodRequest{PodNamespace: "ns", PodName: pod, CmdArgs: &skel.CmdArgs{ContainerID: container}}
}

// BOUND: prior NAT table: basic chains, a foreign chain with a rule, another pod's two mappings; the pod under test has 1..2 host ports out of {39021/tcp, 39022/udp, 39023/tcp with host IP}; one iptables call of the setup may fail at a symbolic position 0..6 (0 = none); after a successful setup one iptables call of the teardown may fail at a symbolic position 0..3, the teardown is then repeated; the daemon's own sequence is followed: setupPortMapping, on error cleanupPortMapping (rollback), otherwise a later DEL's cleanupPortMapping
func VerifC14_q_setupCleanInverse() {
	fake := iptablestesting.NewFakeIPTables()
	ipt := &vFaultyIPT{Interface: fake}
	h := portmapping.VerifNewHandler(ipt)
	g := &Galaxy{pmhandler: h}
	if err := h.EnsureBasicRule(); err != nil {
		return
	}
	// foreign state and another pod's mappings
	fake.EnsureChain(utiliptables.TableNAT, "FOREIGN-CHAIN")
	fake.EnsureRule(utiliptables.Append, utiliptables.TableNAT, "FOREIGN-CHAIN", "-s", "192.168.0.0/16", "-j", "RETURN")
	other := []k8s.Port{{HostPort: 39031, ContainerPort: 80, Protocol: "tcp", PodName: "other", PodIP: "10.0.0.9"},
		{HostPort: 39032, ContainerPort: 53, Protocol: "udp", PodName: "other", PodIP: "10.0.0.9"}}
	if err := h.SetupPortMapping(other); err != nil {
		return
	}
	before := vNat(fake)
	all := []corev1.ContainerPort{{HostPort: 39021, ContainerPort: 8080, Protocol: corev1.ProtocolTCP},
		{HostPort: 39022, ContainerPort: 53, Protocol: corev1.ProtocolUDP},
		{HostPort: 39023, ContainerPort: 443, Protocol: corev1.ProtocolTCP, HostIP: "10.0.1.5"}}
	var ports []corev1.ContainerPort
	for i, n := 0, nondetChoice(2)+1; i < n; i++ {
		ports = append(ports, all[(nondetChoice(3)+i)%3])
	}
	if len(ports) == 2 && ports[0].HostPort == ports[1].HostPort {
		return
	}
	pod := vPortPod("p-c14", ports)
	req := vPortReq("verif-c14", "p-c14")
	os.Remove("/var/lib/cni/galaxy/port/verif-c14")
	ipt.calls, ipt.failAt = 0, nondetInt(0, 6)
	result := &t020.Result{IP4: &t020.IPConfig{IP: net.IPNet{IP: net.IPv4(10, 0, 0, 7), Mask: net.CIDRMask(24, 32)}}}
	err := g.setupPortMapping(req, req.ContainerID, result, pod)
	ipt.failAt = 0
	if err != nil {
		verifReach("setup-failed")
		_ = g.cleanupPortMapping(req) // what requestFunc does on a failed ADD
	} else {
		verifReach("setup-succeeded")
		mid := vNat(fake)
		for _, p := range ports {
			verifAssert("C14/setup-installs-dnat", strings.Contains(mid, fmt.Sprintf("10.0.0.7:%d", p.ContainerPort)), "a successful setup did not install the DNAT rule of a port")
		}
		verifAssert("C14/setup-keeps-others", strings.Contains(mid, "10.0.0.9:80") && strings.Contains(mid, "FOREIGN-CHAIN -s 192.168.0.0/16 -j RETURN"), "setting up a pod's mappings changed another pod's or a foreign rule")
		// the DEL; one iptables call of the teardown may fail (symbolic position 0..3, 0 = none): the DEL then fails and
		// kubelet (or the garbage collector) repeats it
		ipt.calls, ipt.failAt = 0, nondetInt(0, 3)
		derr := g.cleanupPortMapping(req)
		ipt.failAt = 0
		if derr != nil {
			verifReach("teardown-failed-once")
			_ = g.cleanupPortMapping(req)
		}
	}
	after := vNat(fake)
	verifReach("cleaned")
	verifAssert("C14/setup-clean-inverse", after == before, "after setup (complete or failed half way) and cleanup the NAT table differs from the table before: chains or rules of the pod were left behind, or others changed")
	_, ferr := ioutil.ReadFile("/var/lib/cni/galaxy/port/verif-c14")
	verifAssert("C14/no-port-file-left", ferr != nil, "the pod's port file is left behind")
	for _, p := range ports {
		pr := strings.ToLower(string(p.Protocol))
		verifAssert("C14/ports-closed", !portmapping.VerifPortHeld(pr, p.HostPort), "a host port of the pod is still bound after cleanup")
	}
}

// BOUND: prior NAT table with 0..2 stale KUBE-HP-* chains (one referenced from KUBE-HOSTPORTS), optionally the chain of one of the synchronised ports with the rules of the pod's former address, a foreign chain and rule; full synchronisation for a set of 0..3 ports of two pods; run twice
func VerifC14_q_fullSyncConverges() {
	fake := iptablestesting.NewFakeIPTables()
	h := portmapping.VerifNewHandler(fake)
	fake.EnsureChain(utiliptables.TableNAT, "FOREIGN-CHAIN")
	fake.EnsureRule(utiliptables.Append, utiliptables.TableNAT, "FOREIGN-CHAIN", "-s", "192.168.0.0/16", "-j", "RETURN")
	fake.EnsureRule(utiliptables.Append, utiliptables.TableNAT, utiliptables.ChainPostrouting, "-s", "172.16.0.0/12", "-j", "MASQUERADE")
	stale := []k8s.Port{{HostPort: 39041, ContainerPort: 80, Protocol: "tcp", PodName: "gone", PodIP: "10.0.0.99"},
		{HostPort: 39042, ContainerPort: 81, Protocol: "tcp", PodName: "gone2", PodIP: "10.0.0.98"}}
	nStale := nondetChoice(3)
	if nStale > 0 {
		if err := h.EnsureBasicRule(); err != nil {
			return
		}
		if err := h.SetupPortMapping(stale[:nStale]); err != nil {
			return
		}
	}
	// the chain of a port that is synchronised below may exist already with other contents: the pod "a" was there with
	// another address (it was re-created while galaxy was down)
	if nondetBool() {
		if err := h.EnsureBasicRule(); err != nil {
			return
		}
		if err := h.SetupPortMapping([]k8s.Port{{HostPort: 39051, ContainerPort: 8080, Protocol: "tcp", PodName: "a", PodIP: "10.0.0.77"}}); err != nil {
			return
		}
	}
	all := []k8s.Port{{HostPort: 39051, ContainerPort: 8080, Protocol: "tcp", PodName: "a", PodIP: "10.0.0.1"},
		{HostPort: 39052, ContainerPort: 53, Protocol: "UDP", PodName: "a", PodIP: "10.0.0.1"},
		{HostPort: 39053, ContainerPort: 443, Protocol: "tcp", PodName: "b", PodIP: "10.0.0.2", HostIP: "10.0.1.5"}}
	var want []k8s.Port
	for i := range all {
		if nondetBool() {
			want = append(want, all[i])
		}
	}
	if err := h.SetupPortMappingForAllPods(want); err != nil {
		verifAssert("C14/full-sync-succeeds?", false, "full synchronisation failed: "+err.Error())
		return
	}
	first := vNat(fake)
	verifReach("synced")
	verifAssert("C14/full-sync-drops-stale", !strings.Contains(first, "10.0.0.99") && !strings.Contains(first, "10.0.0.98") && !strings.Contains(first, "10.0.0.77") && !strings.Contains(first, "gone hostport"), "a stale galaxy chain or rule survived the full synchronisation")
	verifAssert("C14/full-sync-keeps-foreign", strings.Contains(first, "FOREIGN-CHAIN -s 192.168.0.0/16 -j RETURN") && strings.Contains(first, "-A POSTROUTING -s 172.16.0.0/12 -j MASQUERADE"), "a foreign chain or rule was modified by the full synchronisation")
	nDnat := strings.Count(first, "-j DNAT")
	verifAssert("C14/full-sync-exact", nDnat == len(want), "the number of DNAT rules after a full synchronisation differs from the number of given ports")
	for _, p := range want {
		verifAssert("C14/full-sync-installs", strings.Contains(first, fmt.Sprintf("--to-destination %s:%d", p.PodIP, p.ContainerPort)) && strings.Contains(first, fmt.Sprintf("--dport %d", p.HostPort)), "the chain or rule of a given port is missing after the full synchronisation")
	}
	if err := h.SetupPortMappingForAllPods(want); err != nil {
		return
	}
	verifAssert("C14/full-sync-idempotent", vNat(fake) == first, "synchronising again changed the NAT table")
	// differential: the full synchronisation installs, for the given ports, the same galaxy rules as the per-pod setup
	// does on a fresh table (so that the per-pod clean-up, which deletes exactly those rules, finds them)
	if len(want) > 0 {
		fake2 := iptablestesting.NewFakeIPTables()
		h2 := portmapping.VerifNewHandler(fake2)
		if h2.EnsureBasicRule() == nil && h2.SetupPortMapping(want) == nil {
			verifAssert("C14/full-sync-equals-per-pod-setup", vGalaxyNatLines(first) == vGalaxyNatLines(vNat(fake2)), "the rules a full synchronisation installs differ from those the per-pod setup installs for the same ports:\nfull sync:\n"+vGalaxyNatLines(first)+"\nper-pod setup:\n"+vGalaxyNatLines(vNat(fake2)))
		}
		// ... and cleaning the ports up afterwards leaves no chain or rule of them behind
		if h.CleanPortMapping(want) == nil {
			rest := vGalaxyNatLines(vNat(fake))
			verifAssert("C14/clean-after-full-sync", !strings.Contains(rest, "KUBE-HP-") && !strings.Contains(rest, "--dport"), "after a full synchronisation the per-pod clean-up left a chain or rule of the pod behind:\n"+rest)
		}
	}
}

// vGalaxyNatLines: the sorted rule lines of a NAT dump that belong to the host-port machinery.
func vGalaxyNatLines(dump string) string {
	var out []string
	for _, l := range strings.Split(dump, "\n") {
		if strings.HasPrefix(l, "-A ") && (strings.Contains(l, "KUBE-HOSTPORTS") || strings.Contains(l, "KUBE-HP-")) {
			out = append(out, l)
		}
	}
	sort.Strings(out)
	return strings.Join(out, "\n")
}
