package galaxy

import (
	"bytes"
	"net"
	"os"
	"sync"

	t020 "github.com/containernetworking/cni/pkg/types/020"
	corev1 "k8s.io/api/core/v1"
	"tkestack.io/galaxy/pkg/api/cniutil"
	"tkestack.io/galaxy/pkg/network/portmapping"
	utiliptables "tkestack.io/galaxy/pkg/utils/iptables"
	iptablestesting "tkestack.io/galaxy/pkg/utils/iptables/testing"
)

// C19 (galaxy, CNI side): concurrent CNI requests of different containers (ADD / DEL through cmdAdd and CmdDel, port
// mapping setup / cleanup) on one Galaxy instance touch shared memory (the per-network configuration maps, the port
// mapping handler) only under a common lock.

// vLockedIPT serialises the repository's fake NAT table the way the exec-based implementation is serialised by its
// own mutex and the xtables lock.
type vLockedIPT struct {
	mu sync.Mutex
	in utiliptables.Interface
}

func (l *vLockedIPT) GetVersion() (string, error) { return l.in.GetVersion() }
func (l *vLockedIPT) EnsureChain(t utiliptables.Table, c utiliptables.Chain) (bool, error) {
	l.mu.Lock()
	defer l.mu.Unlock()
	return l.in.EnsureChain(t, c)
}
func (l *vLockedIPT) FlushChain(t utiliptables.Table, c utiliptables.Chain) error {
	l.mu.Lock()
	defer l.mu.Unlock()
	return l.in.FlushChain(t, c)
}
func (l *vLockedIPT) DeleteChain(t utiliptables.Table, c utiliptables.Chain) error {
	l.mu.Lock()
	defer l.mu.Unlock()
	return l.in.DeleteChain(t, c)
}
func (l *vLockedIPT) EnsureRule(p utiliptables.RulePosition, t utiliptables.Table, c utiliptables.Chain, args ...string) (bool, error) {
	l.mu.Lock()
	defer l.mu.Unlock()
	return l.in.EnsureRule(p, t, c, args...)
}
func (l *vLockedIPT) DeleteRule(t utiliptables.Table, c utiliptables.Chain, args ...string) error {
	l.mu.Lock()
	defer l.mu.Unlock()
	return l.in.DeleteRule(t, c, args...)
}
func (l *vLockedIPT) ListRule(t utiliptables.Table, c utiliptables.Chain, args ...string) ([]string, error) {
	l.mu.Lock()
	defer l.mu.Unlock()
	return l.in.ListRule(t, c, args...)
}
func (l *vLockedIPT) IsIpv6() bool { return false }
func (l *vLockedIPT) SaveInto(t utiliptables.Table, b *bytes.Buffer) error {
	l.mu.Lock()
	defer l.mu.Unlock()
	return l.in.SaveInto(t, b)
}
func (l *vLockedIPT) EnsurePolicy(t utiliptables.Table, c utiliptables.Chain, p string) error { return nil }
func (l *vLockedIPT) Restore(t utiliptables.Table, d []byte, f utiliptables.FlushFlag, c utiliptables.RestoreCountersFlag) error {
	l.mu.Lock()
	defer l.mu.Unlock()
	return l.in.Restore(t, d, f, c)
}
func (l *vLockedIPT) RestoreAll(d []byte, f utiliptables.FlushFlag, c utiliptables.RestoreCountersFlag) error {
	l.mu.Lock()
	defer l.mu.Unlock()
	return l.in.RestoreAll(d, f, c)
}

const vNumCNIRaceOps = 5

func vCNIRaceOp(g *Galaxy, op int, dir string, selA, selB vSel) func() {
	result := func(last byte) *t020.Result {
		return &t020.Result{IP4: &t020.IPConfig{IP: net.IPNet{IP: net.IPv4(10, 0, 0, last), Mask: net.CIDRMask(24, 32)}}}
	}
	switch op {
	case 0:
		req, pod := vReq("verif-r1", dir), vPod("p-verif-r1", selA)
		return func() { _, _ = g.cmdAdd(req, pod) }
	case 1:
		req, pod := vReq("verif-r2", dir), vPod("p-verif-r2", selB)
		return func() { _, _ = g.cmdAdd(req, pod) }
	case 2:
		req := vReq("verif-r0", dir)
		return func() { _ = cniutil.CmdDel(req.CmdArgs, -1) }
	case 3:
		pod := vPortPod("p-r3", []corev1.ContainerPort{{HostPort: 39041, ContainerPort: 8080, Protocol: corev1.ProtocolTCP}})
		req := vPortReq("verif-r3", "p-r3")
		return func() {
			if g.setupPortMapping(req, req.ContainerID, result(7), pod) != nil {
				_ = g.cleanupPortMapping(req)
			}
		}
	default:
		req := vPortReq("verif-r4", "p-r4")
		return func() { _ = g.cleanupPortMapping(req) }
	}
}

// BOUND: one Galaxy instance with 3 configured networks and a port mapping handler over the (serialised) in-memory NAT table; container r0 added and container r4 with one mapped port set up beforehand; every unordered pair out of {ADD of container r1 (any of the 6 network selections), ADD of container r2 (any selection), DEL of r0, port mapping setup of r3 (one tcp port), port mapping cleanup of r4}; no plugin failures
// ASSUME: lock-set discipline as in VerifC19_q_ipamPairs; plugin binaries replaced as in C12
func VerifC19_q_cniPairs() {
	dir := vSetup(make([]bool, 32))
	defer os.RemoveAll(dir)
	g := vNewGalaxy()
	ipt := &vLockedIPT{in: iptablestesting.NewFakeIPTables()}
	g.pmhandler = portmapping.VerifNewHandler(ipt)
	if err := g.pmhandler.EnsureBasicRule(); err != nil {
		return
	}
	if _, err := g.cmdAdd(vReq("verif-r0", dir), vPod("p-verif-r0", vSelections[0])); err != nil {
		return
	}
	os.Remove("/var/lib/cni/galaxy/port/verif-r3")
	os.Remove("/var/lib/cni/galaxy/port/verif-r4")
	pod4 := vPortPod("p-r4", []corev1.ContainerPort{{HostPort: 39042, ContainerPort: 53, Protocol: corev1.ProtocolUDP}})
	req4 := vPortReq("verif-r4", "p-r4")
	if err := g.setupPortMapping(req4, req4.ContainerID, &t020.Result{IP4: &t020.IPConfig{IP: net.IPNet{IP: net.IPv4(10, 0, 0, 8), Mask: net.CIDRMask(24, 32)}}}, pod4); err != nil {
		_ = g.cleanupPortMapping(req4)
		return
	}
	selA := vSelections[nondetChoice(len(vSelections))]
	selB := vSelections[nondetChoice(len(vSelections))]
	i := nondetChoice(vNumCNIRaceOps)
	j := nondetChoice(vNumCNIRaceOps)
	verifAssume(i < j)
	verifRace([]interface{}{g}, vCNIRaceOp(g, i, dir, selA, selB), vCNIRaceOp(g, j, dir, selA, selB))
	// leave nothing behind
	for _, c := range []string{"verif-r0", "verif-r1", "verif-r2"} {
		_ = cniutil.CmdDel(vReq(c, dir).CmdArgs, -1)
	}
	_ = g.cleanupPortMapping(vPortReq("verif-r3", "p-r3"))
	_ = g.cleanupPortMapping(req4)
}
