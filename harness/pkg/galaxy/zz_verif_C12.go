package galaxy

import (
	"encoding/json"
	"fmt"
	"io/ioutil"
	"net"
	"os"
	"path/filepath"
	"strings"
	"tkestack.io/galaxy/pkg/galaxy/options"

	"github.com/containernetworking/cni/pkg/skel"
	"github.com/containernetworking/cni/pkg/types"
	t020 "github.com/containernetworking/cni/pkg/types/020"
	corev1 "k8s.io/api/core/v1"
	"k8s.io/apimachinery/pkg/api/resource"
	metav1 "k8s.io/apimachinery/pkg/apis/meta/v1"
	"tkestack.io/galaxy/pkg/api/cniutil"
	galaxyapi "tkestack.io/galaxy/pkg/api/galaxy"
	"tkestack.io/galaxy/pkg/api/galaxy/constant"
)

// INTERCEPT: tkestack.io/galaxy/pkg/api/cniutil.DelegateAdd => verifModelDelegateAdd
// INTERCEPT: tkestack.io/galaxy/pkg/api/cniutil.DelegateDel => verifModelDelegateDel
// INTERCEPT: tkestack.io/galaxy/pkg/api/cniutil.GetNetworkConfig => verifModelGetNetworkConfig

// C12: multi-network ADD/DEL is ordered, paired, rolled back and isolated.
// ASSUME: C12: the plugin binaries are replaced by a recorder with a failure plan (engine: DelegateAdd/DelegateDel intercepted by a harness model; native replay: a recording shell script on CNI_PATH run by the real DelegateAdd/DelegateDel against the real /var/lib/cni/galaxy state directory)
// ASSUME: C12: plugin arguments are compared as key=value sets (BuildCNIArgs emits them in map order)

type vCall struct {
	cmd, netType, ifName, container string
	rawArgs                         string
	args                            map[string]string
	hasPrev                         bool
	prevIP                          string
}

var (
	vLog   []vCall
	vFail  []bool // failure plan: the n-th plugin invocation (0-based, ADD and DEL alike) fails
	vCount int
	vDir   string
)

func vResultFor(n int) *t020.Result {
	return &t020.Result{CNIVersion: "0.2.0", IP4: &t020.IPConfig{IP: net.IPNet{IP: net.IPv4(10, 0, 0, byte(n+1)), Mask: net.CIDRMask(24, 32)}}}
}

func vRecord(cmd string, netconf map[string]interface{}, args *skel.CmdArgs, ifName string) int {
	c := vCall{cmd: cmd, ifName: ifName, container: args.ContainerID, rawArgs: args.Args}
	c.netType, _ = netconf["type"].(string)
	c.args, _ = cniutil.ParseCNIArgs(args.Args)
	if prev, ok := netconf["prevResult"]; ok {
		c.hasPrev = true
		if r, isRes := prev.(*t020.Result); isRes && r.IP4 != nil {
			c.prevIP = r.IP4.IP.IP.String()
		}
	}
	vLog = append(vLog, c)
	n := vCount
	vCount++
	return n
}

// vConfDirNet: a network that is not in the JSON configuration, only in a file of --network-conf-dir
const vConfDirNet = `{"name":"netd","type":"vplugin-b","cniVersion":"0.2.0"}`

// engine side: the conf dir holds exactly netd.conf (natively vSetup writes that file and the real GetNetworkConfig reads it)
func verifModelGetNetworkConfig(networkName, confdir string) ([]byte, error) {
	if networkName == "netd" {
		return []byte(vConfDirNet), nil
	}
	return nil, fmt.Errorf("no network %s in %s", networkName, confdir)
}

// engine side: models of cniutil.DelegateAdd / DelegateDel
func verifModelDelegateAdd(netconf map[string]interface{}, args *skel.CmdArgs, ifName string) (types.Result, error) {
	n := vRecord("ADD", netconf, args, ifName)
	if n < len(vFail) && vFail[n] {
		return nil, fmt.Errorf("plugin failed (injected)")
	}
	return vResultFor(n), nil
}

func verifModelDelegateDel(netconf map[string]interface{}, args *skel.CmdArgs, ifName string) error {
	n := vRecord("DEL", netconf, args, ifName)
	if n < len(vFail) && vFail[n] {
		return fmt.Errorf("plugin failed (injected)")
	}
	return nil
}

// native side: a recording plugin script; calls() parses what it logged
const vScript = `#!/bin/sh
dir="$VERIF_CNI_DIR"
n=$(cat "$dir/count")
echo $((n+1)) > "$dir/count"
stdin=$(cat)
printf '%s\t%s\t%s\t%s\t%s\t%s\n' "$CNI_COMMAND" "$(basename "$0")" "$CNI_IFNAME" "$CNI_CONTAINERID" "$CNI_ARGS" "$stdin" >> "$dir/log"
if grep -qx "$n" "$dir/fail"; then echo '{"code":100,"msg":"plugin failed (injected)"}'; exit 1; fi
if [ "$CNI_COMMAND" = ADD ]; then echo '{"cniVersion":"0.2.0","ip4":{"ip":"10.0.0.'$((n+1))'/24"}}'; fi
`

func vSetup(fail []bool) string {
	vLog, vFail, vCount = nil, fail, 0
	dir, err := os.MkdirTemp("", "verifcni")
	if err != nil {
		panic(err)
	}
	vDir = dir
	for _, t := range []string{"vplugin-a", "vplugin-b", "vplugin-c"} {
		ioutil.WriteFile(filepath.Join(dir, t), []byte(vScript), 0o755)
		os.Chmod(filepath.Join(dir, t), 0o755)
	}
	os.MkdirAll(filepath.Join(dir, "net.d"), 0o755)
	ioutil.WriteFile(filepath.Join(dir, "net.d", "netd.conf"), []byte(vConfDirNet), 0o644)
	ioutil.WriteFile(filepath.Join(dir, "count"), []byte("0\n"), 0o644)
	plan := ""
	for i, f := range fail {
		if f {
			plan += fmt.Sprintf("%d\n", i)
		}
	}
	ioutil.WriteFile(filepath.Join(dir, "fail"), []byte(plan), 0o644)
	ioutil.WriteFile(filepath.Join(dir, "log"), nil, 0o644)
	os.Setenv("VERIF_CNI_DIR", dir)
	return dir
}

func vCalls() []vCall {
	if verifSymbolic() {
		return vLog
	}
	data, _ := ioutil.ReadFile(filepath.Join(vDir, "log"))
	var out []vCall
	for _, line := range strings.Split(strings.TrimRight(string(data), "\n"), "\n") {
		f := strings.SplitN(line, "\t", 6)
		if len(f) != 6 {
			continue
		}
		c := vCall{cmd: f[0], netType: f[1], ifName: f[2], container: f[3], rawArgs: f[4]}
		c.args, _ = cniutil.ParseCNIArgs(f[4])
		var conf struct {
			PrevResult *struct {
				IP4 *struct {
					IP string `json:"ip"`
				} `json:"ip4"`
			} `json:"prevResult"`
		}
		json.Unmarshal([]byte(f[5]), &conf)
		if conf.PrevResult != nil {
			c.hasPrev = true
			if conf.PrevResult.IP4 != nil {
				c.prevIP = strings.SplitN(conf.PrevResult.IP4.IP, "/", 2)[0]
			}
		}
		out = append(out, c)
	}
	return out
}

func vNewGalaxy() *Galaxy {
	g := &Galaxy{netConf: map[string]map[string]interface{}{
		"neta": {"type": "vplugin-a", "name": "neta", "mtu": 1500},
		"netb": {"type": "vplugin-b", "name": "netb"},
		"netc": {"type": "vplugin-c", "name": "netc", "eni": true},
	}}
	g.DefaultNetworks = []string{"neta", "netb"}
	g.ENIIPNetwork = "netc"
	g.ServerRunOptions = &options.ServerRunOptions{NetworkConfDir: filepath.Join(vDir, "net.d")}
	return g
}

type vSel struct {
	annotation string
	wantENI    bool
	nets       []string // expected network types in order
	ifs        []string // expected interface names
}

// vSelections: how a pod can select its networks, with the reference outcome (networks in order, interface names).
var vSelections = []vSel{
	{"", false, []string{"vplugin-a", "vplugin-b"}, []string{"eth0", "eth1"}},
	{"", true, []string{"vplugin-c"}, []string{"eth0"}},
	{"netb", false, []string{"vplugin-b"}, []string{"eth0"}},
	{"netb,neta", false, []string{"vplugin-b", "vplugin-a"}, []string{"eth0", "eth1"}},
	{"ns1/netb@if9, neta@if7,netc", true, []string{"vplugin-b", "vplugin-a", "vplugin-c"}, []string{"eth0", "if7", "eth2"}},
	{`[{"name":"netc"},{"name":"neta","interface":"ifx"},{"name":"netb","namespace":"kube-system"}]`, false, []string{"vplugin-c", "vplugin-a", "vplugin-b"}, []string{"eth0", "ifx", "eth2"}},
	// netd is defined only by a file in the network conf dir
	{"neta,netd", false, []string{"vplugin-a", "vplugin-b"}, []string{"eth0", "eth1"}},
	{"netd", false, []string{"vplugin-b"}, []string{"eth0"}},
}

func vPod(name string, sel vSel) *corev1.Pod {
	pod := &corev1.Pod{ObjectMeta: metav1.ObjectMeta{Name: name, Namespace: "ns", Annotations: map[string]string{}}}
	if sel.annotation != "" {
		pod.Annotations[constant.MultusCNIAnnotation] = sel.annotation
	}
	pod.Annotations[constant.ExtendedCNIArgsAnnotation] = `{"common":{"ipinfos":[{"ip":"10.1.0.10/24","vlan":2,"gateway":"10.1.0.1"}]}}`
	if sel.wantENI {
		// the ENI IP is requested by the second container (a sidecar without requests comes first)
		pod.Spec.Containers = []corev1.Container{{Name: "sidecar"}, {Name: "c", Resources: corev1.ResourceRequirements{
			Requests: corev1.ResourceList{constant.ResourceName: resource.Quantity{}}}}}
	}
	return pod
}

func vReq(container, dir string) *galaxyapi.PodRequest {
	return &galaxyapi.PodRequest{PodNamespace: "ns", PodName: "p-" + container, CmdArgs: &skel.CmdArgs{
		ContainerID: container, Netns: "/proc/1/ns/net", IfName: "eth0", Path: dir,
		Args: "IgnoreUnknown=1;K8S_POD_NAMESPACE=ns;K8S_POD_NAME=p-" + container}}
}

func vAnyFailPlan(n int) []bool {
	fail := make([]bool, n)
	for i := range fail {
		fail[i] = nondetBool()
	}
	return fail
}

// checkAddLog: the ADD part of the log matches the reference for selection sel with the first failure at position failAt (-1 = none).
func vCheckAdd(log []vCall, sel vSel, container string, fail []bool, base int) (next int, failed bool) {
	n := len(sel.nets)
	i := 0
	for ; i < n; i++ {
		verifAssert("C12/add-order", base+i < len(log) && log[base+i].cmd == "ADD" && log[base+i].netType == sel.nets[i], "ADD invocations differ from the selected networks in order")
		if base+i >= len(log) {
			return base + i, true
		}
		c := log[base+i]
		verifAssert("C12/add-ifname", c.ifName == sel.ifs[i], "plugin "+c.netType+" invoked on interface "+c.ifName+", expected "+sel.ifs[i])
		verifAssert("C12/add-container", c.container == container, "plugin invoked for another container")
		verifAssert("C12/args-ipinfos", strings.Contains(c.args["ipinfos"], `"10.1.0.10/24"`), "the pod's ipinfos argument did not reach the plugin")
		verifAssert("C12/args-pod", c.args["K8S_POD_NAME"] == "p-"+container, "the kubelet's pod name argument did not reach the plugin unchanged")
		if i == 0 {
			verifAssert("C12/first-plugin-no-prevresult", !c.hasPrev, "the first plugin of a request received a prevResult (state from another request)")
		} else {
			verifAssert("C12/prevresult-chained", c.hasPrev && c.prevIP == fmt.Sprintf("10.0.0.%d", base+i), "plugin i did not receive the result of plugin i-1 of the same request as prevResult")
		}
		if fail[base+i] {
			// rollback: DEL for i..0
			k := base + i + 1
			for j := i; j >= 0; j-- {
				verifAssert("C12/rollback", k < len(log) && log[k].cmd == "DEL" && log[k].netType == sel.nets[j] && log[k].ifName == sel.ifs[j], "after a failed ADD the plugins i..0 did not receive DEL in reverse order")
				k++
			}
			return k, true
		}
	}
	return base + n, false
}

// BOUND: 3 networks in the JSON configuration and one defined only by a file in the network conf dir; 8 ways a pod selects networks (default list, ENI network, comma form with and without @ifname and namespace, JSON form with interface, the conf-dir network alone and after another network) ; one container; symbolic failure plan over the first 8 (thorough: 11) plugin invocations; sequence ADD, DEL, DEL, DEL
func VerifC12_q_addDelSequence() {
	fail := vAnyFailPlan(8 + 3*verifTier())
	dir := vSetup(fail)
	defer os.RemoveAll(dir)
	g := vNewGalaxy()
	sel := vSelections[nondetChoice(len(vSelections))]
	pod := vPod("p-c1", sel)
	req := vReq("verif-c1", dir)
	_, err := g.cmdAdd(req, pod)
	log := vCalls()
	next, failed := vCheckAdd(log, sel, "verif-c1", fail, 0)
	verifAssert("C12/add-error-iff-failure", (err != nil) == failed, "ADD result does not match whether a plugin failed")
	verifAssert("C12/add-nothing-extra", len(log) == next, "more plugin invocations than the reference during ADD")
	verifReach("added")
	// what is still established: after success all n networks; after a failed ADD only those whose rollback DEL failed
	var established []int // indices into sel.nets, in ADD order
	if !failed {
		for i := range sel.nets {
			established = append(established, i)
		}
	} else {
		// rollback DELs are log[k..next): the ones that failed stay recorded
		nAdds := 0
		for _, c := range log {
			if c.cmd == "ADD" {
				nAdds++
			}
		}
		for j := nAdds - 1; j >= 0; j-- {
			if fail[nAdds+(nAdds-1-j)] {
				established = append([]int{j}, established...)
			}
		}
	}
	// three DEL requests: each retries exactly what is still established, in reverse order
	for round := 0; round < 3; round++ {
		base := len(vCalls())
		req2 := vReq("verif-c1", dir)
		derr := cniutil.CmdDel(req2.CmdArgs, -1)
		log = vCalls()
		var still []int
		k := base
		for x := len(established) - 1; x >= 0; x-- {
			i := established[x]
			verifAssert("C12/del-order", k < len(log) && log[k].cmd == "DEL" && log[k].netType == sel.nets[i] && log[k].ifName == sel.ifs[i], "DEL did not invoke exactly the still established networks in reverse order")
			if k < len(fail) && fail[k] {
				still = append([]int{i}, still...)
			}
			k++
		}
		verifAssert("C12/del-nothing-extra", len(log) == k, "DEL invoked plugins that were not established (or already deleted)")
		verifAssert("C12/del-error-iff-failure", (derr != nil) == (len(still) > 0), "DEL result does not match whether a plugin DEL failed")
		established = still
	}
	verifReach("deleted")
}

// BOUND: two containers A then B with any of the 8 selections each; no plugin failures; B's invocations must be what they are without A's request before
func VerifC12_q_requestsIsolated() {
	dir := vSetup(make([]bool, 16))
	defer os.RemoveAll(dir)
	g := vNewGalaxy()
	selA := vSelections[nondetChoice(len(vSelections))]
	selB := vSelections[nondetChoice(len(vSelections))]
	if _, err := g.cmdAdd(vReq("verif-a", dir), vPod("p-verif-a", selA)); err != nil {
		return
	}
	base := len(vCalls())
	_, err := g.cmdAdd(vReq("verif-b", dir), vPod("p-verif-b", selB))
	verifReach("second-request")
	log := vCalls()
	next, failed := vCheckAdd(log, selB, "verif-b", make([]bool, 16), base)
	verifAssert("C12/isolated-no-error", err == nil && !failed, "the second container's ADD failed")
	verifAssert("C12/isolated-nothing-extra", len(log) == next, "more invocations than selected for the second container")
	_ = cniutil.CmdDel(vReq("verif-a", dir).CmdArgs, -1)
	_ = cniutil.CmdDel(vReq("verif-b", dir).CmdArgs, -1)
}

// vFirstArgs / vRawArgs: the CNI_ARGS string the first plugin of the last request received.
func vFirstArgs() string { return vRawArgs() }

func vRawArgs() string {
	calls := vCalls()
	for _, c := range calls {
		if c.cmd == "ADD" {
			return c.rawArgs
		}
	}
	return ""
}

func vAs020(r types.Result) (*t020.Result, error) {
	if x, ok := r.(*t020.Result); ok {
		return x, nil
	}
	return nil, fmt.Errorf("not a 0.2.0 result")
}
