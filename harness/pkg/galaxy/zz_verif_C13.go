package galaxy

import (
	"fmt"
	"strings"

	"github.com/containernetworking/cni/pkg/types"

	"github.com/containernetworking/cni/pkg/skel"
	cniipam "tkestack.io/galaxy/cni/ipam"
	"tkestack.io/galaxy/pkg/api/cniutil"
	"tkestack.io/galaxy/pkg/api/galaxy/constant"
	"tkestack.io/galaxy/pkg/ipam/schedulerplugin"
)

// C13: address, prefix length, gateway and VLAN of every IP galaxy-ipam allocated arrive unchanged and in order at
// the CNI plugin: real Bind -> annotation -> parseExtendedCNIArgs/resolveNetworks -> CmdAdd argument string ->
// plugin-side ParseCNIArgs + JSON decoding (cni/ipam.Allocate) -> IPInfoToResult.
// INTERCEPT: github.com/containernetworking/plugins/pkg/ipam.ExecAdd => verifModelIPAMExecAdd
// ASSUME: C13: the fallback ipam plugin named in a netconf is not installed: invoking it fails (engine: ipam.ExecAdd intercepted by a harness model that returns that error; natively the real ExecAdd does not find the binary)
// ASSUME: C13: encoding/json is replaced by the engine's tag-aware codec (real text for concrete values, an abstract document when a leaf is symbolic); the net package's CIDR text codec is trusted

func vC13(topo, k int, symbolic bool, vlans ...uint16) {
	schedulerplugin.VerifC13PreHeld = nondetChoice(k + 1) // 0: nothing held; i: the IP of the i-th requested range is already the pod's
	schedulerplugin.VerifC13Restart = schedulerplugin.VerifC13PreHeld > 0 && nondetBool()
	schedulerplugin.VerifC13Reconfigured = nondetBool() // a live reconfiguration (other VLAN ids before) preceded the scheduling
	// a reload (former VLAN ids -> the configuration in force) inside a window of a first Bind attempt that fails at its
	// binding call (0 = no such attempt); only combined with a pod that holds nothing yet
	schedulerplugin.VerifC13ReloadInBind = 0
	if schedulerplugin.VerifC13PreHeld == 0 && !schedulerplugin.VerifC13Reconfigured && nondetBool() {
		schedulerplugin.VerifC13ReloadInBind = 1 + nondetChoice(8)
	}
	schedulerplugin.VerifC13StaleInfos = nondetBool() // the pod's incoming annotation already lists ipinfos of an earlier life
	defer func() {
		schedulerplugin.VerifC13Restart, schedulerplugin.VerifC13Reconfigured, schedulerplugin.VerifC13StaleInfos = false, false, false
		schedulerplugin.VerifC13ReloadInBind = 0
	}()
	b := schedulerplugin.VerifBindForC13(topo, k, vlans...)
	schedulerplugin.VerifC13PreHeld = 0
	if b == nil || len(b.IPs) == 0 {
		return
	}
	verifReach("bound")
	dir := vSetup(make([]bool, 8))
	g := vNewGalaxy()
	sel := vSelections[nondetChoice(2)] // the default list, or the ENI network
	pod := vPod("p-verif-c13", sel)
	pod.Annotations[constant.ExtendedCNIArgsAnnotation] = b.Annotation
	req := vReq("verif-c13", dir)
	if _, err := g.cmdAdd(req, pod); err != nil {
		verifAssert("C13/add-succeeds?", false, "ADD failed: "+err.Error())
		return
	}
	// what the first plugin was invoked with; its own decoder (cni/ipam.Allocate) turns it back into IP configuration
	if !symbolic {
		raw := vRawArgs()
		verifAssert("C13/args-separator-free", strings.Count(raw, "ipinfos=") == 1, "the ipinfos argument is not carried exactly once")
	}
	// the plugin's netconf may also name a fallback ipam plugin ("ipam": {"type": ...}); the IPs galaxy-ipam allocated
	// have precedence (the fallback is not installed here: running it is an error)
	ipamType := nondetPick("", "verif-no-such-ipam")
	vlans, results, err := cniipam.Allocate(ipamType, &skel.CmdArgs{Args: vFirstArgs(), StdinData: []byte(`{"cniVersion":"0.2.0","name":"n","type":"t","ipam":{"type":"verif-no-such-ipam"}}`)})
	verifReach("decoded")
	verifAssert("C13/plugin-decodes", err == nil, "the plugin-side decoder rejected the arguments galaxy passed")
	if err != nil {
		return
	}
	verifAssert("C13/count", len(results) == len(b.IPs) && len(vlans) == len(b.IPs), "the plugin sees a different number of IPs than galaxy-ipam allocated")
	for i := 0; i < len(b.IPs) && i < len(results); i++ {
		r, err := vAs020(results[i])
		verifAssert("C13/result-form", err == nil && r.IP4 != nil, "the decoded result has no IPv4 configuration")
		if err != nil || r.IP4 == nil {
			continue
		}
		verifAssert("C13/address", r.IP4.IP.IP.String() == b.IPs[i], "address differs or order changed at position "+b.IPs[i])
		verifAssert("C13/prefix", r.IP4.IP.Mask.String() == b.Masks[i], "prefix length differs from the pool's mask")
		verifAssert("C13/gateway", r.IP4.Gateway.String() == b.Gateways[i], "gateway differs from the pool's gateway")
		verifAssert("C13/vlan", vlans[i] == b.Vlans[i], "VLAN id differs from the pool's VLAN")
	}
	_ = cniutil.CmdDel(vReq("verif-c13", dir).CmdArgs, -1)
}

// BOUND: topologies {0,1,2,3} (masks /24 and /16, two gateways, VLANs 2 and 3 -> overridden); k = 0..3 requested single-address ranges taken alternately from both ends of the address list (1..3 IPs per pod, from one or two pools), optionally one of them already held by the pod before it is scheduled, optionally with a restart of galaxy-ipam (tables rebuilt from the store) in between; optionally galaxy-ipam ran with other VLAN ids (9, 11) for the same pools before and was reconfigured live; optionally a first Bind attempt under the former configuration fails at its binding call while the reload to the configuration in force runs inside one of its API-server / store call windows (symbolic window 1..8), and the retried Bind must report the configuration in force; optionally the pod's incoming args annotation already carries common.ipinfos of an earlier life (another address, VLAN 7); mask / gateway / VLAN are compared with the pool definitions of the configuration, not with the tables; two VLAN ids (one per pool) symbolic over all 2^16 values each; network selection {default list, ENI network}
func VerifC13_q_endToEndSymbolicVlan() {
	topo := nondetChoice(4)
	k := nondetChoice(4)
	vC13(topo, k, true, nondetU16(), nondetU16())
}

// BOUND: same with concrete VLAN ids {0, 2, 4094, 65535} for the first pool and 7 for the second: the annotation and the CNI_ARGS string are the real texts, so the key=value;... framing of the JSON document is exercised byte for byte
func VerifC13_q_endToEndConcrete() {
	topo := nondetChoice(4)
	k := nondetChoice(4)
	vlan := []uint16{0, 2, 4094, 65535}[nondetChoice(4)]
	vC13(topo, k, false, vlan, 7)
}

// engine side: the fallback ipam plugin does not exist
func verifModelIPAMExecAdd(plugin string, netconf []byte) (types.Result, error) {
	return nil, fmt.Errorf("failed to find plugin %q in path", plugin)
}
