package galaxy

import (
	"io/ioutil"
	"net"
	"os"

	t020 "github.com/containernetworking/cni/pkg/types/020"
	corev1 "k8s.io/api/core/v1"
	"tkestack.io/galaxy/pkg/network/portmapping"
	utiliptables "tkestack.io/galaxy/pkg/utils/iptables"
	iptablestesting "tkestack.io/galaxy/pkg/utils/iptables/testing"
)

// C17 (the garbage collector's port cleaner is galaxy's cleanIPtables): the port mappings of a dead container are
// removed within a bounded number of GC rounds also when the first clean-up attempt hits an iptables failure.

// BOUND: a container with 1..2 host ports out of {39121/tcp, 39122/udp, 39123/tcp with host IP} set up by the daemon's own setupPortMapping (port file recorded); the container dies; the collector calls the real cleanIPtables for it in up to 3 rounds; one iptables call of the first round may fail at a symbolic position 0..3 (0 = none); afterwards the host-port chains and rules of the NAT table must equal those before the setup and the port file must be gone
// ASSUME: C17: the kernel NAT table is the repository's in-memory iptables fake; one iptables call may fail cleanly (wrapper around the fake)
func VerifC17_q_portCleanerRetried() {
	fake := iptablestesting.NewFakeIPTables()
	ipt := &vFaultyIPT{Interface: fake}
	h := portmapping.VerifNewHandler(ipt)
	g := &Galaxy{pmhandler: h}
	if err := h.EnsureBasicRule(); err != nil {
		return
	}
	fake.EnsureChain(utiliptables.TableNAT, "FOREIGN-CHAIN")
	before := vNat(fake)
	all := []corev1.ContainerPort{{HostPort: 39121, ContainerPort: 8080, Protocol: corev1.ProtocolTCP},
		{HostPort: 39122, ContainerPort: 53, Protocol: corev1.ProtocolUDP},
		{HostPort: 39123, ContainerPort: 443, Protocol: corev1.ProtocolTCP, HostIP: "10.0.1.5"}}
	var ports []corev1.ContainerPort
	for i, n := 0, nondetChoice(2)+1; i < n; i++ {
		ports = append(ports, all[(nondetChoice(3)+i)%3])
	}
	if len(ports) == 2 && ports[0].HostPort == ports[1].HostPort {
		return
	}
	pod := vPortPod("p-c17", ports)
	req := vPortReq("verif-c17", "p-c17")
	os.Remove("/var/lib/cni/galaxy/port/verif-c17")
	result := &t020.Result{IP4: &t020.IPConfig{IP: net.IPNet{IP: net.IPv4(10, 0, 0, 8), Mask: net.CIDRMask(24, 32)}}}
	if err := g.setupPortMapping(req, req.ContainerID, result, pod); err != nil {
		return
	}
	// the container is dead; the sockets galaxy held for it are closed by the DEL / by the restart that preceded the GC
	h.CloseHostports("p-c17_ns")
	ipt.calls, ipt.failAt = 0, nondetInt(0, 3)
	err := g.cleanIPtables(req.ContainerID)
	ipt.failAt = 0
	for round := 0; round < 2 && err != nil; round++ {
		verifReach("port-cleaner-failed-once")
		err = g.cleanIPtables(req.ContainerID)
	}
	verifReach("collector-rounds-done")
	detail := ""
	if err != nil {
		detail = ": " + err.Error()
	}
	verifAssert("C17/port-mapping-removed-eventually", err == nil && vGalaxyNatLines(vNat(fake)) == vGalaxyNatLines(before), "the port mappings of a dead container are still installed after three garbage-collection rounds"+detail+"\n"+vNat(fake)+"\nbefore:\n"+before)
	_, ferr := ioutil.ReadFile("/var/lib/cni/galaxy/port/verif-c17")
	verifAssert("C17/port-file-removed-eventually", ferr != nil, "the port file of a dead container is left behind")
}
