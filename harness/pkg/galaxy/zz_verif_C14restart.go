package galaxy

import (
	"context"
	"encoding/json"
	"fmt"
	"strings"

	corev1 "k8s.io/api/core/v1"
	metav1 "k8s.io/apimachinery/pkg/apis/meta/v1"
	"k8s.io/client-go/kubernetes"
	corev1client "k8s.io/client-go/kubernetes/typed/core/v1"
	"tkestack.io/galaxy/pkg/api/k8s"
	"tkestack.io/galaxy/pkg/network/portmapping"
	utiliptables "tkestack.io/galaxy/pkg/utils/iptables"
	iptablestesting "tkestack.io/galaxy/pkg/utils/iptables/testing"
)

// C14 (start-up synchronisation): after a restart galaxy lists the pods of the node and synchronises the NAT table
// from them; every pod must get exactly its own mappings (host port, protocol, host IP, pod IP), whatever the pods
// listed before it look like.

type vC14Kube struct {
	kubernetes.Interface
	pods []corev1.Pod
}

func (k vC14Kube) CoreV1() corev1client.CoreV1Interface { return vC14Core{pods: k.pods} }

type vC14Core struct {
	corev1client.CoreV1Interface
	pods []corev1.Pod
}

func (c vC14Core) Pods(ns string) corev1client.PodInterface { return vC14Pods{pods: c.pods} }

type vC14Pods struct {
	corev1client.PodInterface
	pods []corev1.Pod
}

func (p vC14Pods) List(ctx context.Context, opts metav1.ListOptions) (*corev1.PodList, error) {
	return &corev1.PodList{Items: p.pods}, nil
}

// vRestartPod builds the i-th pod of the node in one of 6 forms and returns the mappings it must have.
// form 0: one host port in the spec; 1: one host port with a host IP in the spec; 2: two host ports, the first with a
// host IP; 3: random port mapping (annotation written by an earlier ADD, no host IP); 4: no pod IP yet (skipped);
// 5: host network (skipped)
func vRestartPod(i, form int) (corev1.Pod, []k8s.Port) {
	name := fmt.Sprintf("p%d", i)
	ip := fmt.Sprintf("10.0.0.%d", 10+i)
	base := int32(39100 + 10*i)
	pod := corev1.Pod{ObjectMeta: metav1.ObjectMeta{Name: name, Namespace: "ns"}, Status: corev1.PodStatus{PodIP: ip}}
	var cps []corev1.ContainerPort
	var want []k8s.Port
	switch form {
	case 0:
		cps = []corev1.ContainerPort{{HostPort: base, ContainerPort: 80, Protocol: corev1.ProtocolTCP}}
		want = []k8s.Port{{HostPort: base, ContainerPort: 80, Protocol: "TCP", PodName: name, PodIP: ip}}
	case 1:
		cps = []corev1.ContainerPort{{HostPort: base, ContainerPort: 80, Protocol: corev1.ProtocolTCP, HostIP: "10.0.1.5"}}
		want = []k8s.Port{{HostPort: base, ContainerPort: 80, Protocol: "TCP", HostIP: "10.0.1.5", PodName: name, PodIP: ip}}
	case 2:
		cps = []corev1.ContainerPort{{HostPort: base, ContainerPort: 80, Protocol: corev1.ProtocolTCP, HostIP: "10.0.1.6"},
			{HostPort: base + 1, ContainerPort: 53, Protocol: corev1.ProtocolUDP}}
		want = []k8s.Port{{HostPort: base, ContainerPort: 80, Protocol: "TCP", HostIP: "10.0.1.6", PodName: name, PodIP: ip},
			{HostPort: base + 1, ContainerPort: 53, Protocol: "UDP", PodName: name, PodIP: ip}}
	case 3:
		cps = []corev1.ContainerPort{{ContainerPort: 8080, Protocol: corev1.ProtocolTCP}}
		want = []k8s.Port{{HostPort: base + 2, ContainerPort: 8080, Protocol: "TCP", PodName: name, PodIP: ip}}
		data, _ := json.Marshal(want)
		pod.Annotations = map[string]string{k8s.PortMappingPortsAnnotation: string(data)}
	case 4:
		cps = []corev1.ContainerPort{{HostPort: base, ContainerPort: 80, Protocol: corev1.ProtocolTCP, HostIP: "10.0.1.7"}}
		pod.Status.PodIP = ""
	case 5:
		cps = []corev1.ContainerPort{{HostPort: base, ContainerPort: base, Protocol: corev1.ProtocolTCP, HostIP: "10.0.1.8"}}
		pod.Spec.HostNetwork = true
	}
	pod.Spec.Containers = []corev1.Container{{Name: "c", Ports: cps}}
	return pod, want
}

// BOUND: the node runs 2..3 pods (thorough: 2..4) (listed in name order), each in one of 6 forms (host port, host port with host IP, two host ports the first with host IP, random port mapping recorded in the annotation, no pod IP yet, host network); prior NAT table: basic chains plus a foreign chain, optionally a stale KUBE-HP chain; the start-up synchronisation (setupIPtables) must leave exactly the host-port chains and rules that a synchronisation for the pods' own mappings leaves on a fresh table, hold every fixed host port, and the later teardown of any one pod (the daemon's cleanupPortMapping with the port file its ADD recorded) must leave no rule with that pod's address behind and none of its host ports bound
// ASSUME: C14: the API server is a stub that lists the given pods; the kernel NAT table is the repository's in-memory iptables fake
func VerifC14_q_restartSync() {
	n := 2 + nondetChoice(2+verifTier())
	var pods []corev1.Pod
	var want [][]k8s.Port
	var all []k8s.Port
	for i := 0; i < n; i++ {
		pod, w := vRestartPod(i, nondetChoice(6))
		pods = append(pods, pod)
		want = append(want, w)
		all = append(all, w...)
	}
	fake := iptablestesting.NewFakeIPTables()
	h := portmapping.VerifNewHandler(fake)
	g := &Galaxy{pmhandler: h, client: vC14Kube{pods: pods}}
	if err := h.EnsureBasicRule(); err != nil {
		return
	}
	fake.EnsureChain(utiliptables.TableNAT, "FOREIGN-CHAIN")
	fake.EnsureRule(utiliptables.Append, utiliptables.TableNAT, "FOREIGN-CHAIN", "-s", "192.168.0.0/16", "-j", "RETURN")
	if nondetBool() {
		fake.EnsureChain(utiliptables.TableNAT, "KUBE-HP-STALESTALESTALE")
		fake.EnsureRule(utiliptables.Append, utiliptables.TableNAT, "KUBE-HP-STALESTALESTALE", "-p", "tcp", "-j", "DNAT", "--to-destination", "10.9.9.9:1")
	}
	if err := g.setupIPtables(); err != nil {
		verifAssert("C14/restart-sync-succeeds?", false, "the start-up synchronisation failed without a fault: "+err.Error())
		return
	}
	verifReach("restart-synchronised")
	got := vGalaxyNatLines(vNat(fake))
	// reference: the same synchronisation for the pods' own mappings on a fresh table
	ref := iptablestesting.NewFakeIPTables()
	hr := portmapping.VerifNewHandlerKeepPorts(ref)
	if err := hr.EnsureBasicRule(); err != nil {
		return
	}
	if err := hr.SetupPortMappingForAllPods(all); err != nil {
		return
	}
	verifAssert("C14/restart-sync-exact", got == vGalaxyNatLines(vNat(ref)), "after the start-up synchronisation the host-port chains and rules differ from the pods' own mappings: "+got)
	verifAssert("C14/restart-sync-keeps-foreign", strings.Contains(vNat(fake), "FOREIGN-CHAIN -s 192.168.0.0/16 -j RETURN"), "the start-up synchronisation touched a foreign rule")
	for _, w := range want {
		for _, p := range w {
			verifAssert("C14/restart-holds-port", portmapping.VerifPortHeld(strings.ToLower(p.Protocol), p.HostPort), "a host port of a running pod is not held by galaxy after the restart")
		}
	}
	// teardown of one pod
	victim := nondetChoice(n)
	if len(want[victim]) == 0 {
		return
	}
	// the DEL of the pod's container: the ports were recorded in its port file by the ADD before the restart
	data, _ := json.Marshal(want[victim])
	if err := k8s.SavePort("verif-c14r", data); err != nil {
		return
	}
	if err := g.cleanupPortMapping(vPortReq("verif-c14r", pods[victim].Name)); err != nil {
		verifAssert("C14/restart-teardown-succeeds?", false, "the teardown of a pod synchronised at start-up failed: "+err.Error())
		return
	}
	verifReach("torn-down-after-restart")
	for _, p := range want[victim] {
		verifAssert("C14/restart-teardown-closes-port", !portmapping.VerifPortHeld(strings.ToLower(p.Protocol), p.HostPort), "a host port galaxy re-opened at start-up is still bound after the pod was torn down")
	}
	after := vGalaxyNatLines(vNat(fake))
	verifAssert("C14/restart-teardown-complete", !strings.Contains(after, want[victim][0].PodIP+":") && !strings.Contains(after, want[victim][0].PodIP+"/32"), "rules of a torn-down pod are left behind after a start-up synchronisation: "+after)
}
