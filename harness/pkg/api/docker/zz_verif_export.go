package docker

import (
	"net/http"

	dockerapi "github.com/docker/engine-api/client"
	criapi "k8s.io/cri-api/pkg/apis/runtime/v1"
)

// Constructors for harnesses in other packages (the fields of DockerInterface are unexported).

// VerifNewContainerdInterface wires a (fake) CRI runtime client.
func VerifNewContainerdInterface(c criapi.RuntimeServiceClient) *DockerInterface {
	return &DockerInterface{timeout: defaultTimeout, containerdClient: c}
}

// VerifNewDockerInterface talks to a docker endpoint (an httptest server in native replays). Under the engine
// DockerInspectContainer is intercepted, so no client is built.
func VerifNewDockerInterface(endpoint string, hc *http.Client) *DockerInterface {
	if verifSymbolic() {
		return &DockerInterface{timeout: defaultTimeout}
	}
	cli, err := dockerapi.NewClient(endpoint, "", hc, nil)
	if err != nil {
		panic(err)
	}
	return &DockerInterface{timeout: defaultTimeout, client: cli}
}
