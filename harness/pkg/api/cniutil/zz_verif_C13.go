package cniutil

// SOLVER: cvc5
// BOUND: 1..3 arguments with keys from {ipinfos, K8S_POD_NAME, x-y.z} and symbolic values: arbitrary printable non-blank strings without ';' and '=' (unbounded length); the kubelet's own argument precedes them as in CmdAdd
// ASSUME: C13: argument values contain no ';', no '=' and no leading/trailing blanks (true for the JSON of IPInfo lists; the concrete end-to-end harness checks the real text); argument keys are concrete (maps with symbolic keys are outside the engine's reach)
func VerifC13_q_argsCodecRoundTrip() {
	keys := []string{"ipinfos", "K8S_POD_NAME", "x-y.z"}[:nondetChoice(3)+1]
	var vals []string
	args := "IgnoreUnknown=1"
	for _, k := range keys {
		v := nondetString("cniarg")
		vals = append(vals, v)
		args += ";" + k + "=" + v
	}
	got, err := ParseCNIArgs(args)
	verifReach("parsed")
	verifAssert("C13/codec-no-error", err == nil, "ParseCNIArgs rejected a well-formed argument string")
	verifAssert("C13/codec-count", len(got) == len(keys)+1, "ParseCNIArgs returned a different number of arguments")
	for i := range keys {
		verifAssert("C13/codec-value", got[keys[i]] == vals[i], "a value does not survive the key=value;... codec")
	}
}
