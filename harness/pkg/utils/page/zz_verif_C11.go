package page

// C11 (paging): paging through a list shows every element exactly once.

// BOUND: page size in {1,2,3,10,100,9999}; page in [0,99999]; list length in [0, 2^20]; probe index over the whole list; 64-bit machine integers
func VerifC11_q_paginationPartition() {
	// symbolic x symbolic 64-bit multiplication/division did not finish in z3 4.8.12, z3 5.1 or cvc5 (also with
	// --solve-bv-as-int): the page size ranges over a finite family, everything else stays symbolic
	size := []int{1, 2, 3, 10, 100, 9999}[nondetChoice(6)]
	n := nondetInt(0, 1<<20)
	i := nondetInt(0, 1<<20)
	verifAssume(i < n)
	// the page the i-th element belongs to
	p := i / size
	verifAssume(p <= 99999)
	start, end, pg := Pagination(p, size, n)
	verifReach("paged")
	verifAssert("C11/page-bounds", verifAnd(verifAnd(0 <= start, start <= end), end <= n), "page slice bounds are not within 0 <= start <= end <= len")
	verifAssert("C11/page-contains", verifAnd(start <= i, i < end), "element i is not on page i/size")
	verifAssert("C11/page-size", end-start <= size, "a page holds more elements than the page size")
	verifAssert("C11/page-number", pg.Number == p, "reported page number differs from the requested page")
	// the next page starts where this one ends (contiguous, disjoint)
	if p < 99999 {
		s2, _, _ := Pagination(p+1, size, n)
		verifAssert("C11/page-contiguous", s2 == end, "pages overlap or leave a gap")
	}
	// an element is on no other page q != p
	q := nondetInt(0, 99999)
	verifAssume(q != p)
	qs, qe, _ := Pagination(q, size, n)
	verifAssert("C11/page-exactly-once", verifNot(verifAnd(qs <= i, i < qe)), "element i shows up on a second page")
}

// BOUND: arbitrary query strings for page and size (strconv.Atoi modelled as an arbitrary int or an error)
func VerifC11_q_parseClamps() {
	ps, ss := nondetString("any"), nondetString("any")
	p, s := ParsePage(ps), ParseSize(ss)
	verifReach("parsed")
	verifAssert("C11/page-clamped", verifAnd(0 <= p, p <= 99999), "ParsePage result outside [0,99999]")
	verifAssert("C11/size-clamped", verifAnd(1 <= s, s <= 9999), "ParseSize result outside [1,9999]")
}
