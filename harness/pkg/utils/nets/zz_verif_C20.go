package nets

// Harnesses for C20 (uint32 IP arithmetic and range codec in pkg/utils/nets).

// BOUND: all 2^32 IPv4 addresses (one symbolic uint32)
func VerifC20_q_intIPRoundTrip() {
	x := nondetU32()
	ip := IntToIP(x)
	verifAssert("C20/int-ip-roundtrip", IPToInt(ip) == x, "IPToInt(IntToIP(x)) != x")
	verifAssert("C20/int-ip-len", len(ip) == 4, "IntToIP does not return a 4 byte address")
	verifReach("roundtrip")
}

// BOUND: first,last over all 2^32 x 2^32 pairs with first <= last; probe address over all 2^32
// ASSUME: C20: IPv4 only; pod subnets other than 0.0.0.0/0 (their size does not fit the 32-bit counters)
func VerifC20_q_rangeContainsSize() {
	first, last, x := nondetU32(), nondetU32(), nondetU32()
	verifAssume(first <= last)
	r := IPRange{First: IntToIP(first), Last: IntToIP(last)}
	in := r.Contains(IntToIP(x))
	verifAssert("C20/contains", in == verifAnd(first <= x, x <= last), "IPRange.Contains disagrees with first<=x<=last")
	// size agrees with the number of addresses unless the range is the whole space (excluded by the property)
	verifAssume(verifNot(verifAnd(first == 0, last == 0xffffffff)))
	verifAssert("C20/range-size", uint64(r.Size()) == uint64(last)-uint64(first)+1, "IPRange.Size differs from last-first+1")
	verifReach("contains")
}
