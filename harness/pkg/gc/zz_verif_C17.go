package gc

import (
	"context"
	"encoding/json"
	"fmt"
	"io/ioutil"
	"net/http"
	"net/http/httptest"
	"os"
	"path/filepath"
	"strings"
	"time"

	dockertypes "github.com/docker/engine-api/types"
	"google.golang.org/grpc"
	"google.golang.org/grpc/codes"
	"google.golang.org/grpc/status"
	corev1 "k8s.io/api/core/v1"
	apierrors "k8s.io/apimachinery/pkg/api/errors"
	metav1 "k8s.io/apimachinery/pkg/apis/meta/v1"
	"k8s.io/apimachinery/pkg/runtime/schema"
	"k8s.io/client-go/kubernetes"
	corev1client "k8s.io/client-go/kubernetes/typed/core/v1"
	criapi "k8s.io/cri-api/pkg/apis/runtime/v1"
	"tkestack.io/galaxy/pkg/api/docker"
)

// INTERCEPT: (*tkestack.io/galaxy/pkg/api/docker.DockerInterface).DockerInspectContainer => verifModelDockerInspect

// C17: the garbage collector removes state only for containers that no longer exist or have exited, never for a
// running one and never when the runtime cannot be asked; what a dead container left behind goes within one round.

// ASSUME: C17: the docker daemon answers inspect with 404 (no such container), another error, or a container JSON whose State may be absent; the CRI runtime answers with a NotFound status, another error, or a sandbox status; the real docker HTTP client / grpc are replaced (engine: DockerInspectContainer intercepted; replay: httptest server)

// verifFileInfo is what the engine's ioutil.ReadDir model returns.
type verifFileInfo struct {
	name string
	dir  bool
}

func (f verifFileInfo) Name() string       { return f.name }
func (f verifFileInfo) Size() int64        { return 0 }
func (f verifFileInfo) Mode() os.FileMode  { return 0 }
func (f verifFileInfo) ModTime() time.Time { return time.Time{} }
func (f verifFileInfo) IsDir() bool        { return f.dir }
func (f verifFileInfo) Sys() interface{}   { return nil }

// ---- the container runtime's truth
type vContainer struct {
	outcome int    // 0 found, 1 not found, 2 other error (runtime outage)
	errKind int    // containerd, outcome 2: 0 Unavailable, 1 a plain error (arrives with code Unknown), 2 DeadlineExceeded, 3 Internal
	noState bool   // docker: State == nil
	status  string // docker: State.Status
	sandbox int32  // containerd: sandbox state (0 ready, 1 not ready)
	podGone bool   // containerd: the pod named by the sandbox annotations does not exist
	podErr  bool   // containerd: the pod lookup fails with another error
	waiting bool   // containerd: some container of the pod is waiting
	running bool   // containerd: some container of the pod is running
}

var vContainers map[string]*vContainer

func vAnyContainer() *vContainer {
	c := &vContainer{outcome: nondetChoice(3)}
	c.errKind = nondetInt(0, 3) // symbolic: only looked at when the containerd inspect fails
	c.noState = nondetBool()
	c.status = nondetPick("running", "exited", "dead", "created", "paused", "restarting", "")
	c.sandbox = int32(nondetInt(0, 1))
	c.podGone, c.podErr = nondetBool(), nondetBool()
	c.waiting, c.running = nondetBool(), nondetBool()
	return c
}

// docker mode, engine side: the model of (*DockerInterface).DockerInspectContainer
func verifModelDockerInspect(d *docker.DockerInterface, id string) (*dockertypes.ContainerJSON, error) {
	c, ok := vContainers[id]
	if !ok || c.outcome == 1 {
		return nil, docker.ContainerNotFoundError{ID: id}
	}
	if c.outcome == 2 {
		return nil, fmt.Errorf("cannot connect to the docker daemon")
	}
	out := &dockertypes.ContainerJSON{ContainerJSONBase: &dockertypes.ContainerJSONBase{ID: id}}
	if !c.noState {
		out.ContainerJSONBase.State = &dockertypes.ContainerState{Status: c.status}
	}
	return out, nil
}

// docker mode, native side: a docker daemon answering from the same truth
func vDockerServer() *httptest.Server {
	return httptest.NewServer(http.HandlerFunc(func(w http.ResponseWriter, r *http.Request) {
		parts := strings.Split(r.URL.Path, "/")
		id := ""
		for i, p := range parts {
			if p == "containers" && i+1 < len(parts) {
				id = parts[i+1]
			}
		}
		c, ok := vContainers[id]
		switch {
		case !ok || c.outcome == 1:
			w.WriteHeader(http.StatusNotFound)
			fmt.Fprintf(w, `{"message":"No such container: %s"}`, id)
		case c.outcome == 2:
			w.WriteHeader(http.StatusInternalServerError)
			fmt.Fprint(w, `{"message":"daemon error"}`)
		default:
			base := map[string]interface{}{"Id": id}
			if !c.noState {
				base["State"] = map[string]interface{}{"Status": c.status}
			}
			json.NewEncoder(w).Encode(base)
		}
	}))
}

// containerd mode: a fake CRI runtime client and a fake kube client (same code under the engine and natively)
type vRuntime struct{ criapi.RuntimeServiceClient }

func (vRuntime) PodSandboxStatus(ctx context.Context, in *criapi.PodSandboxStatusRequest, opts ...grpc.CallOption) (*criapi.PodSandboxStatusResponse, error) {
	c, ok := vContainers[in.PodSandboxId]
	if !ok || c.outcome == 1 {
		return nil, status.Error(codes.NotFound, "sandbox not found")
	}
	if c.outcome == 2 {
		switch c.errKind {
		case 1:
			return nil, status.Error(codes.Unknown, "runtime handler failed") // what a plain error of the runtime's handler becomes on the wire
		case 2:
			return nil, status.Error(codes.DeadlineExceeded, "deadline exceeded")
		case 3:
			return nil, status.Error(codes.Internal, "internal error")
		}
		return nil, status.Error(codes.Unavailable, "runtime unavailable")
	}
	return &criapi.PodSandboxStatusResponse{Status: &criapi.PodSandboxStatus{Id: in.PodSandboxId, State: criapi.PodSandboxState(c.sandbox),
		Annotations: map[string]string{SandboxName: "pod-" + in.PodSandboxId, SandboxNamespace: "ns"}}}, nil
}

type vKube struct{ kubernetes.Interface }

func (vKube) CoreV1() corev1client.CoreV1Interface { return vCore{} }

type vCore struct{ corev1client.CoreV1Interface }

func (vCore) Pods(ns string) corev1client.PodInterface { return vPods{} }

type vPods struct{ corev1client.PodInterface }

func (vPods) Get(ctx context.Context, name string, opts metav1.GetOptions) (*corev1.Pod, error) {
	c := vContainers[strings.TrimPrefix(name, "pod-")]
	if c == nil || c.podGone {
		return nil, apierrors.NewNotFound(schema.GroupResource{Resource: "pods"}, name)
	}
	if c.podErr {
		return nil, fmt.Errorf("apiserver unavailable")
	}
	pod := &corev1.Pod{}
	st := corev1.ContainerStatus{}
	if c.waiting {
		st.State.Waiting = &corev1.ContainerStateWaiting{}
	}
	if c.running {
		st.State.Running = &corev1.ContainerStateRunning{}
	}
	pod.Status.ContainerStatuses = []corev1.ContainerStatus{st}
	return pod, nil
}

// vNewGC builds the collector for docker mode (containerd=false) or containerd mode.
func vNewGC(containerd bool, ipDirs, gcDirs []string, cleaned *[]string) (*flannelGC, func()) {
	gc := &flannelGC{allocatedIPDir: ipDirs, gcDirs: gcDirs, kubeCli: vKube{},
		cleanPortFunc: func(id string) error { *cleaned = append(*cleaned, id); return nil }}
	stop := func() {}
	if containerd {
		os.Setenv("CONTAINERD_HOST", "unix:///fake.sock")
		gc.dockerCli = docker.VerifNewContainerdInterface(vRuntime{})
		stop = func() { os.Unsetenv("CONTAINERD_HOST") }
	} else {
		os.Unsetenv("CONTAINERD_HOST")
		if verifSymbolic() {
			gc.dockerCli = docker.VerifNewDockerInterface("", nil)
		} else {
			srv := vDockerServer()
			gc.dockerCli = docker.VerifNewDockerInterface(srv.URL, srv.Client())
			stop = srv.Close
		}
	}
	return gc, stop
}

// dead: what the property calls "no longer exists or has exited"
func (c *vContainer) deadDocker() bool {
	return verifOr(c.outcome == 1, verifAnd(c.outcome == 0, verifAnd(!c.noState, verifOr(c.status == "exited", c.status == "dead"))))
}

func (c *vContainer) deadContainerd() bool {
	exited := verifAnd(c.sandbox == 1, verifOr(c.podGone, verifAnd(!c.podErr, verifAnd(!c.waiting, !c.running))))
	return verifOr(c.outcome == 1, verifAnd(c.outcome == 0, exited))
}

// BOUND: one container id with an arbitrary runtime answer: inspect outcome {found, not found, other error (containerd: gRPC codes Unavailable, Unknown (a plain error), DeadlineExceeded, Internal)}; docker: State present or absent, status over {running, exited, dead, created, paused, restarting, ""}; containerd: sandbox state {ready, not ready}, pod {exists, gone, lookup error}, container states waiting/running; both runtimes
func VerifC17_q_shouldCleanupIffDead() {
	containerd := nondetBool()
	c := vAnyContainer()
	vContainers = map[string]*vContainer{"c1": c}
	var cleaned []string
	gc, stop := vNewGC(containerd, nil, nil, &cleaned)
	defer stop()
	got := gc.shouldCleanup("c1")
	verifReach("decided")
	if containerd {
		verifAssert("C17/cleanup-iff-dead-containerd", got == c.deadContainerd(), "containerd mode: shouldCleanup differs from (not found, or sandbox not ready and pod gone / no container waiting or running)")
		verifAssert("C17/never-on-runtime-error", verifImplies(c.outcome == 2, !got), "state would be removed although the runtime could not be asked")
	} else {
		verifAssert("C17/cleanup-iff-dead-docker", got == c.deadDocker(), "docker mode: shouldCleanup differs from (not found, or status exited/dead)")
		verifAssert("C17/never-on-runtime-error", verifImplies(c.outcome == 2, !got), "state would be removed although the runtime could not be asked")
	}
}

// BOUND: three containers with arbitrary runtime answers; directory contents: one state file per container in each of two gc dirs, one ip file per container in one ip dir, plus a sub-directory, three non-IP files (one sorting before, one between, one after the reservations) and an empty ip file (no container id yet) sorted right after the first container's; configured directories that do not exist before and after the real ones; one GC round of cleanupGCDirs and cleanupIP; both runtimes
func VerifC17_q_collectOnlyDead() {
	containerd := nondetBool()
	ids := []string{"c1", "c2", "c3"}
	vContainers = map[string]*vContainer{}
	for _, id := range ids {
		vContainers[id] = vAnyContainer()
	}
	root, err := os.MkdirTemp("", "verifgc")
	if err != nil {
		return
	}
	defer os.RemoveAll(root)
	gcDirs := []string{filepath.Join(root, "galaxy"), filepath.Join(root, "galaxy", "port")}
	ipDir := filepath.Join(root, "networks")
	os.MkdirAll(gcDirs[1], 0o755)
	os.MkdirAll(ipDir, 0o755)
	os.MkdirAll(filepath.Join(ipDir, "subdir"), 0o755)
	ioutil.WriteFile(filepath.Join(ipDir, "last_reserved_ip"), []byte("c2"), 0o644) // not an IP: never touched
	for i, id := range ids {
		ioutil.WriteFile(filepath.Join(gcDirs[0], id), []byte("{}"), 0o644)
		ioutil.WriteFile(filepath.Join(gcDirs[1], id), []byte("{}"), 0o644)
		ioutil.WriteFile(filepath.Join(ipDir, fmt.Sprintf("172.16.0.%d", i+2)), []byte(id+"\neth0"), 0o644)
	}
	// non-container files that sort before the reservations (names that are not addresses): never touched, and they
	// do not end the scan of the directory
	ioutil.WriteFile(filepath.Join(ipDir, ".gitkeep"), nil, 0o644)
	ioutil.WriteFile(filepath.Join(ipDir, "172.16.0.README"), []byte("c1"), 0o644)
	// a reservation host-local is just writing (created, content not yet written): it sorts right after c1's file
	ioutil.WriteFile(filepath.Join(ipDir, "172.16.0.20"), nil, 0o644)
	var cleaned []string
	// configured directories that were never created (another network plugin's) come first in both lists
	gc, stop := vNewGC(containerd, []string{filepath.Join(root, "missing-ips"), ipDir, filepath.Join(root, "missing")},
		append([]string{filepath.Join(root, "missing-state")}, gcDirs...), &cleaned)
	defer stop()
	_ = gc.cleanupGCDirs()
	_ = gc.cleanupIP()
	verifReach("collected")
	exists := func(p string) bool { _, err := ioutil.ReadFile(p); return err == nil }
	for i, id := range ids {
		c := vContainers[id]
		dead := c.deadDocker()
		if containerd {
			dead = c.deadContainerd()
		}
		for _, f := range []string{filepath.Join(gcDirs[0], id), filepath.Join(gcDirs[1], id), filepath.Join(ipDir, fmt.Sprintf("172.16.0.%d", i+2))} {
			verifAssert("C17/file-removed-iff-dead", exists(f) == !dead, "a state file was removed for a container that is not dead, or left behind for a dead one: "+f)
		}
		portCleaned := false
		for _, x := range cleaned {
			if x == id {
				portCleaned = true
			}
		}
		verifAssert("C17/port-cleaned-iff-dead", portCleaned == dead, "port mapping cleaned for a live container or not cleaned for a dead one: "+id)
	}
	verifAssert("C17/foreign-files-kept", exists(filepath.Join(ipDir, "last_reserved_ip")), "a non-container file was removed")
	verifAssert("C17/foreign-files-kept", exists(filepath.Join(ipDir, ".gitkeep")) && exists(filepath.Join(ipDir, "172.16.0.README")), "a non-container file was removed")
	verifAssert("C17/empty-reservation-kept", exists(filepath.Join(ipDir, "172.16.0.20")), "an ip file without a container id (a reservation being written) was removed")
	_, derr := ioutil.ReadDir(filepath.Join(ipDir, "subdir"))
	verifAssert("C17/dirs-kept", derr == nil, "a directory was removed")
}


// BOUND: one vanished or running container (arbitrary runtime answer) whose leftovers are any subset of {network state file, port file (well-formed or truncated, so that the port cleaner fails every time), ip file (6 forms of content: id alone, trailing newline, interface name on a second line, CRLF line ends, surrounding blanks)}; gc_dirs in the default order (state dir, then its port sub-directory) or with the port directory first; the port cleaner behaves like galaxy's cleanIPtables: it finds the mappings to remove only through the container's port file; up to two GC rounds
// ASSUME: C17: the port-mapping cleaner is a harness model of Galaxy.cleanIPtables (reads and removes the container's port file, removes that container's rules), the iptables side is covered by C14
func VerifC17_q_portMappingCollected() {
	containerd := nondetBool()
	c := vAnyContainer()
	vContainers = map[string]*vContainer{"c1": c}
	root, err := os.MkdirTemp("", "verifgc")
	if err != nil {
		return
	}
	defer os.RemoveAll(root)
	stateDir, portDir, ipDir := filepath.Join(root, "galaxy"), filepath.Join(root, "galaxy", "port"), filepath.Join(root, "networks")
	os.MkdirAll(portDir, 0o755)
	os.MkdirAll(ipDir, 0o755)
	hasState, hasPort, hasIP := nondetBool(), nondetBool(), nondetBool()
	if hasState {
		ioutil.WriteFile(filepath.Join(stateDir, "c1"), []byte("[]"), 0o644)
	}
	portBroken := false
	if hasPort {
		portBroken = nondetBool() // a port file truncated by a crash or a full disk: the cleaner cannot parse it
		if portBroken {
			ioutil.WriteFile(filepath.Join(portDir, "c1"), []byte(`[{"hostPort":80`), 0o644)
		} else {
			ioutil.WriteFile(filepath.Join(portDir, "c1"), []byte(`[{"hostPort":8080}]`), 0o644)
		}
	}
	if hasIP {
		// the forms host-local and its ports write: the id alone, with a newline, with the interface name on a second
		// line, with Windows line ends, with surrounding blanks
		content := []string{"c1", "c1\n", "c1\neth0", "c1\r\neth0", " c1 \n", "c1\r\n"}[nondetChoice(6)]
		ioutil.WriteFile(filepath.Join(ipDir, "172.16.0.9"), []byte(content), 0o644)
	}
	rulesInstalled := hasPort // a container with a port file has host-port rules in the nat table
	cleanPort := func(id string) error {
		// like Galaxy.cleanIPtables: the port file tells which rules belong to the container
		data, err := ioutil.ReadFile(filepath.Join(portDir, id))
		if err != nil {
			return nil
		}
		if len(data) == 0 || data[len(data)-1] != ']' {
			return fmt.Errorf("failed to read ports: unexpected end of JSON input") // and the file stays, like ConsumePort
		}
		rulesInstalled = false
		return os.Remove(filepath.Join(portDir, id))
	}
	dirs := []string{stateDir, portDir}
	if nondetBool() {
		dirs = []string{portDir, stateDir}
	}
	gc := &flannelGC{allocatedIPDir: []string{ipDir}, gcDirs: dirs, kubeCli: vKube{}, cleanPortFunc: cleanPort}
	stop := func() {}
	if containerd {
		os.Setenv("CONTAINERD_HOST", "unix:///fake.sock")
		gc.dockerCli = docker.VerifNewContainerdInterface(vRuntime{})
		stop = func() { os.Unsetenv("CONTAINERD_HOST") }
	} else {
		os.Unsetenv("CONTAINERD_HOST")
		if verifSymbolic() {
			gc.dockerCli = docker.VerifNewDockerInterface("", nil)
		} else {
			srv := vDockerServer()
			gc.dockerCli = docker.VerifNewDockerInterface(srv.URL, srv.Client())
			stop = srv.Close
		}
	}
	defer stop()
	dead := c.deadDocker()
	if containerd {
		dead = c.deadContainerd()
	}
	for round := 0; round < 2; round++ {
		_ = gc.cleanupGCDirs()
		_ = gc.cleanupIP()
	}
	verifReach("two-rounds")
	exists := func(p string) bool { _, err := ioutil.ReadFile(p); return err == nil }
	if dead {
		verifAssert("C17/dead-port-mapping-removed", portBroken || !rulesInstalled, "the port mapping of a dead container is still installed after two GC rounds")
		verifAssert("C17/dead-files-removed", !exists(filepath.Join(stateDir, "c1")) && !exists(filepath.Join(portDir, "c1")) && !exists(filepath.Join(ipDir, "172.16.0.9")), "state of a dead container is left after two GC rounds")
	} else {
		verifAssert("C17/live-untouched", rulesInstalled == hasPort && exists(filepath.Join(stateDir, "c1")) == hasState && exists(filepath.Join(portDir, "c1")) == hasPort && exists(filepath.Join(ipDir, "172.16.0.9")) == hasIP, "state or port mapping of a container that is not dead was removed")
	}
}
