package policy

import (
	corev1 "k8s.io/api/core/v1"
	networkv1 "k8s.io/api/networking/v1"
)

// C19 (galaxy, policy side): the policy informer's handlers (AddPolicy / UpdatePolicy / DeletePolicy: one goroutine),
// the pod informer's handlers (UpdatePod / DeletePod: one goroutine) and the periodic full synchronisation (Run: one
// goroutine, which itself starts one goroutine per pod) run concurrently on one PolicyManager.

const vNumPolicyRaceOps = 6

func vPolicyRaceClass(op int) string {
	switch op {
	case 0, 1, 2:
		return "policy-informer"
	case 3, 4:
		return "pod-informer"
	}
	return "resync"
}

func (w *vWorld) prepRaceOp(op int, np *networkv1.NetworkPolicy, pod *corev1.Pod) func() {
	switch op {
	case 0:
		return func() { _ = w.pm.AddPolicy(np) }
	case 1:
		return func() { _ = w.pm.UpdatePolicy(np, np) }
	case 2:
		return func() { _ = w.pm.DeletePolicy(np) }
	case 3:
		return func() { _ = w.pm.AddPod(pod); _ = w.pm.UpdatePod(pod, pod) }
	case 4:
		return func() { _ = w.pm.DeletePod(pod) }
	}
	return func() { w.pm.Run() }
}

// BOUND: cluster of vNewWorld with one policy out of the 8 shapes (quick: 5) synchronised; every unordered pair of entry points of different goroutines out of {AddPolicy, UpdatePolicy, DeletePolicy} x {AddPod+UpdatePod, DeletePod} x {Run}; the goroutines Run starts per pod are logical threads of their own; shared cells = everything reachable from the PolicyManager before the concurrent phase plus the module's package-level variables; ipset / iptables handles are the strict layers over the repository's fakes (harness code, internally locked like the exec-based real ones)
// ASSUME: lock-set discipline as in VerifC19_q_ipamPairs
func VerifC19_q_policyPairs() {
	w, _, _ := vNewStrictWorld()
	np := vShapeOf("np-a")
	w.c.policies = []*networkv1.NetworkPolicy{np}
	w.syncAll()
	var pod *corev1.Pod
	for _, p := range w.c.pods {
		if p.Name == "db" {
			pod = p
		}
	}
	i := nondetChoice(vNumPolicyRaceOps)
	j := nondetChoice(vNumPolicyRaceOps)
	verifAssume(i <= j && vPolicyRaceClass(i) != vPolicyRaceClass(j))
	verifRace([]interface{}{w.pm}, w.prepRaceOp(i, np, pod), w.prepRaceOp(j, np, pod))
}
