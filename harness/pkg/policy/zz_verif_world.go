package policy

// Harness world for pkg/policy: a PolicyManager literal wired to the repository's own in-memory ipset and
// iptables fakes (pkg/utils/ipset/testing, pkg/utils/iptables/testing) and to from-scratch listers.

import (
	"context"
	"os"
	"sort"

	corev1 "k8s.io/api/core/v1"
	networkv1 "k8s.io/api/networking/v1"
	apierrors "k8s.io/apimachinery/pkg/api/errors"
	metav1 "k8s.io/apimachinery/pkg/apis/meta/v1"
	"k8s.io/apimachinery/pkg/labels"
	"k8s.io/apimachinery/pkg/runtime/schema"
	"k8s.io/apimachinery/pkg/util/intstr"
	"k8s.io/client-go/kubernetes"
	corev1client "k8s.io/client-go/kubernetes/typed/core/v1"
	corev1lister "k8s.io/client-go/listers/core/v1"
	networkinglister "k8s.io/client-go/listers/networking/v1"
	ipsettesting "tkestack.io/galaxy/pkg/utils/ipset/testing"
	utiliptables "tkestack.io/galaxy/pkg/utils/iptables"
	iptablestesting "tkestack.io/galaxy/pkg/utils/iptables/testing"
)

// INTERCEPT: k8s.io/apimachinery/pkg/apis/meta/v1.LabelSelectorAsSelector => verifModelSelector

// ASSUME: under the engine LabelSelectorAsSelector is replaced by a harness model with the semantics of matchLabels and of matchExpressions with the operators In / NotIn / Exists / DoesNotExist for syntactically valid selectors (the real one validates label syntax with regular expressions compiled at package initialisation); native replays use the real function
// ASSUME: kernel ipset / iptables are the repository's in-memory fakes

// ---- selector model
type vSelector struct {
	match   map[string]string
	exprs   []metav1.LabelSelectorRequirement
	nothing bool
}

func (s vSelector) Matches(ls labels.Labels) bool {
	if s.nothing {
		return false
	}
	for k, v := range s.match {
		if !ls.Has(k) || ls.Get(k) != v {
			return false
		}
	}
	for _, e := range s.exprs {
		in := false
		for _, v := range e.Values {
			if ls.Has(e.Key) && ls.Get(e.Key) == v {
				in = true
			}
		}
		switch e.Operator {
		case metav1.LabelSelectorOpIn:
			if !in {
				return false
			}
		case metav1.LabelSelectorOpNotIn:
			if in {
				return false
			}
		case metav1.LabelSelectorOpExists:
			if !ls.Has(e.Key) {
				return false
			}
		case metav1.LabelSelectorOpDoesNotExist:
			if ls.Has(e.Key) {
				return false
			}
		default:
			panic("harness: unknown selector operator")
		}
	}
	return true
}
func (s vSelector) Empty() bool                                   { return !s.nothing && len(s.match) == 0 && len(s.exprs) == 0 }
func (s vSelector) String() string                                { return "vSelector" }
func (s vSelector) Add(r ...labels.Requirement) labels.Selector   { return s }
func (s vSelector) Requirements() (labels.Requirements, bool)     { return nil, !s.nothing }
func (s vSelector) DeepCopySelector() labels.Selector             { return s }
func (s vSelector) RequiresExactMatch(label string) (string, bool) { v, ok := s.match[label]; return v, ok }

func verifModelSelector(ps *metav1.LabelSelector) (labels.Selector, error) {
	if ps == nil {
		return vSelector{nothing: true}, nil
	}
	return vSelector{match: ps.MatchLabels, exprs: ps.MatchExpressions}, nil
}

// ---- cluster state
type vCluster struct {
	pods       []*corev1.Pod
	namespaces []*corev1.Namespace
	policies   []*networkv1.NetworkPolicy
	// informerStarted: this galaxy process has seen a network policy in a synchronisation (it then started its pod
	// informer, which stays synced)
	informerStarted bool
}

type vPodLister struct {
	corev1lister.PodLister
	c *vCluster
}

func (l vPodLister) Pods(ns string) corev1lister.PodNamespaceLister { return vPodNSLister{c: l.c, ns: ns} }
func (l vPodLister) List(sel labels.Selector) ([]*corev1.Pod, error) {
	return vPodNSLister{c: l.c}.List(sel)
}

type vPodNSLister struct {
	corev1lister.PodNamespaceLister
	c  *vCluster
	ns string
}

func (l vPodNSLister) List(sel labels.Selector) ([]*corev1.Pod, error) {
	var out []*corev1.Pod
	for _, p := range l.c.pods {
		if (l.ns == "" || p.Namespace == l.ns) && sel.Matches(labels.Set(p.Labels)) {
			out = append(out, p)
		}
	}
	return out, nil
}
func (l vPodNSLister) Get(name string) (*corev1.Pod, error) {
	for _, p := range l.c.pods {
		if p.Namespace == l.ns && p.Name == name {
			return p, nil
		}
	}
	return nil, apierrors.NewNotFound(schema.GroupResource{Resource: "pods"}, name)
}

type vNamespaceLister struct {
	corev1lister.NamespaceLister
	c *vCluster
}

func (l vNamespaceLister) List(sel labels.Selector) ([]*corev1.Namespace, error) {
	var out []*corev1.Namespace
	for _, n := range l.c.namespaces {
		if sel.Matches(labels.Set(n.Labels)) {
			out = append(out, n)
		}
	}
	return out, nil
}

type vPolicyLister struct {
	networkinglister.NetworkPolicyLister
	c *vCluster
}

func (l vPolicyLister) NetworkPolicies(ns string) networkinglister.NetworkPolicyNamespaceLister {
	return vPolicyNSLister{c: l.c, ns: ns}
}

type vPolicyNSLister struct {
	networkinglister.NetworkPolicyNamespaceLister
	c  *vCluster
	ns string
}

func (l vPolicyNSLister) List(sel labels.Selector) ([]*networkv1.NetworkPolicy, error) {
	var out []*networkv1.NetworkPolicy
	for _, p := range l.c.policies {
		if l.ns == "" || p.Namespace == l.ns {
			out = append(out, p)
		}
	}
	if l.ns == "" && len(out) > 0 {
		l.c.informerStarted = true // syncNetworkPolices starts the pod informer factory when its list is not empty
	}
	return out, nil
}

// ---- the API server as syncPods asks it when the pod informer does not run: the pods of this node
type vKube struct {
	kubernetes.Interface
	c *vCluster
}

func (k vKube) CoreV1() corev1client.CoreV1Interface { return vCoreV1{c: k.c} }

type vCoreV1 struct {
	corev1client.CoreV1Interface
	c *vCluster
}

func (k vCoreV1) Pods(ns string) corev1client.PodInterface { return vPodClient{c: k.c} }

type vPodClient struct {
	corev1client.PodInterface
	c *vCluster
}

func (k vPodClient) List(ctx context.Context, opts metav1.ListOptions) (*corev1.PodList, error) {
	out := &corev1.PodList{}
	for _, p := range k.c.pods {
		if p.Spec.NodeName == "node1" { // the field selector spec.nodeName=<this node>
			out.Items = append(out.Items, *p)
		}
	}
	return out, nil
}

// restartManager: galaxy restarts -- a new PolicyManager over the same kernel state; its pod informer has not started.
func (w *vWorld) restartManager() {
	old := w.pm
	w.c.informerStarted = false
	w.pm = &PolicyManager{ipsetHandle: old.ipsetHandle, iptableHandle: old.iptableHandle, hostName: "node1", client: vKube{c: w.c},
		podLister: vPodLister{c: w.c}, namespaceLister: vNamespaceLister{c: w.c}, policyLister: vPolicyLister{c: w.c}}
	w.pm.podInformerOnce.Do(func() {})
	w.pm.podCachedInformer = vSyncedInformer{c: w.c}
}

// ---- construction
type vWorld struct {
	c   *vCluster
	pm  *PolicyManager
	ips *ipsettesting.FakeIPSet
	ipt utiliptables.Interface
}

func vPod(ns, name, ip, node string, lbl map[string]string) *corev1.Pod {
	return &corev1.Pod{ObjectMeta: metav1.ObjectMeta{Namespace: ns, Name: name, Labels: lbl},
		Spec: corev1.PodSpec{NodeName: node}, Status: corev1.PodStatus{PodIP: ip}}
}

func vNewWorld() *vWorld {
	os.Setenv("MY_NODE_NAME", "node1")
	c := &vCluster{}
	c.namespaces = []*corev1.Namespace{
		{ObjectMeta: metav1.ObjectMeta{Name: "ns1", Labels: map[string]string{"team": "a"}}},
		{ObjectMeta: metav1.ObjectMeta{Name: "ns2", Labels: map[string]string{"team": "b"}}},
	}
	c.pods = []*corev1.Pod{
		vPod("ns1", "web", "10.0.0.1", "node1", map[string]string{"app": "web"}),
		vPod("ns1", "db", "10.0.0.2", "node1", map[string]string{"app": "db"}),
		vPod("ns2", "web2", "10.0.0.3", "node2", map[string]string{"app": "web"}),
	}
	w := &vWorld{c: c, ips: ipsettesting.NewFake("6.29"), ipt: iptablestesting.NewFakeIPTables()}
	w.pm = &PolicyManager{ipsetHandle: w.ips, iptableHandle: w.ipt, hostName: "node1", client: vKube{c: c},
		podLister: vPodLister{c: c}, namespaceLister: vNamespaceLister{c: c}, policyLister: vPolicyLister{c: c}}
	w.pm.podInformerOnce.Do(func() {}) // the pod informer factory (client-go machinery) is outside the harness
	w.pm.podCachedInformer = vSyncedInformer{c: c}
	return w
}

// ---- policy shapes
func vPeer(kind int) networkv1.NetworkPolicyPeer {
	switch kind {
	case 0:
		return networkv1.NetworkPolicyPeer{PodSelector: &metav1.LabelSelector{MatchLabels: map[string]string{"app": "db"}}}
	case 1:
		return networkv1.NetworkPolicyPeer{NamespaceSelector: &metav1.LabelSelector{MatchLabels: map[string]string{"team": "b"}}}
	case 2:
		return networkv1.NetworkPolicyPeer{IPBlock: &networkv1.IPBlock{CIDR: "10.0.0.9/24", Except: []string{"10.0.0.130/25"}}}
	case 3:
		return networkv1.NetworkPolicyPeer{PodSelector: &metav1.LabelSelector{}} // all pods
	}
	return networkv1.NetworkPolicyPeer{} // an empty peer
}

func vPorts(kind int) []networkv1.NetworkPolicyPort {
	tcp, udp := corev1.ProtocolTCP, corev1.ProtocolUDP
	p80, p53, named := intstr.FromInt(80), intstr.FromInt(53), intstr.FromString("http")
	switch kind {
	case 1:
		return []networkv1.NetworkPolicyPort{{Protocol: &tcp, Port: &p80}}
	case 2:
		return []networkv1.NetworkPolicyPort{{Protocol: &udp, Port: &p53}, {Port: &p80}}
	case 3:
		return []networkv1.NetworkPolicyPort{{Protocol: &tcp, Port: &named}}
	case 4:
		return []networkv1.NetworkPolicyPort{{Protocol: &tcp}}
	}
	return nil
}

const vNumPeerKinds, vNumPortKinds = 5, 5

// vAnyPolicy builds a structurally valid NetworkPolicy out of the shape family.
func vAnyPolicy(name string) *networkv1.NetworkPolicy {
	np := &networkv1.NetworkPolicy{ObjectMeta: metav1.ObjectMeta{Namespace: "ns1", Name: name}}
	if nondetBool() {
		np.Spec.PodSelector = metav1.LabelSelector{MatchLabels: map[string]string{"app": "web"}}
	}
	switch nondetChoice(4) {
	case 1:
		np.Spec.PolicyTypes = []networkv1.PolicyType{networkv1.PolicyTypeIngress}
	case 2:
		np.Spec.PolicyTypes = []networkv1.PolicyType{networkv1.PolicyTypeEgress}
	case 3:
		np.Spec.PolicyTypes = []networkv1.PolicyType{networkv1.PolicyTypeIngress, networkv1.PolicyTypeEgress}
	}
	anyPeers := func() []networkv1.NetworkPolicyPeer {
		var out []networkv1.NetworkPolicyPeer
		maxPeers := 3
		if verifTier() == 0 {
			maxPeers = 2 // quick: 0..1 peers per arbitrary rule; thorough: 0..2
		}
		for j, m := 0, nondetChoice(maxPeers); j < m; j++ {
			out = append(out, vPeer(nondetChoice(vNumPeerKinds)))
		}
		return out
	}
	// ingress: none | one arbitrary rule | an arbitrary rule followed by a fixed one (pod selector, tcp 80)
	switch nondetChoice(3) {
	case 1:
		np.Spec.Ingress = []networkv1.NetworkPolicyIngressRule{{Ports: vPorts(nondetChoice(3)), From: anyPeers()}}
	case 2:
		np.Spec.Ingress = []networkv1.NetworkPolicyIngressRule{{Ports: vPorts(nondetChoice(3) + 2), From: anyPeers()},
			{Ports: vPorts(1), From: []networkv1.NetworkPolicyPeer{vPeer(0)}}}
	}
	// egress: none | one rule with arbitrary peers
	if nondetBool() {
		np.Spec.Egress = []networkv1.NetworkPolicyEgressRule{{Ports: vPorts(nondetChoice(2)), To: anyPeers()}}
	}
	return np
}

// syncAll is one full synchronisation: PolicyManager.Run itself (the pod informer is a stub that reports synced once
// this process has seen a policy: syncPods then lists the pods through the lister, before that from the API-server stub).
func (w *vWorld) syncAll() {
	w.pm.Run()
}

func (w *vWorld) dumpFilter() string {
	lines := []string{}
	for _, chain := range []string{"INPUT", "FORWARD", "OUTPUT", "GLX-INGRESS", "GLX-EGRESS"} {
		rules, err := w.ipt.ListRule(utiliptables.TableFilter, utiliptables.Chain(chain))
		if err == nil {
			lines = append(lines, rules...)
		}
	}
	sort.Strings(lines)
	out := ""
	for _, l := range lines {
		out += l + "\n"
	}
	return out
}
