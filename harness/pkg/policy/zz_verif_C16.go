package policy

// C16: the rules and sets galaxy installs accept a new connection to / from a pod of the node exactly when the
// Kubernetes NetworkPolicy semantics allow it.
//
// The cluster and the policies are concrete per path (choice points), the flow (source address, destination address,
// protocol, destination port) is symbolic: the verdict of a packet walk over the installed rules and sets is compared
// with a reference evaluator of the API semantics for every flow at once.

import (
	"encoding/json"
	"fmt"
	"strconv"
	"strings"

	corev1 "k8s.io/api/core/v1"
	networkv1 "k8s.io/api/networking/v1"
	metav1 "k8s.io/apimachinery/pkg/apis/meta/v1"
	utiliptables "tkestack.io/galaxy/pkg/utils/iptables"
)

// ---- the flow
type vFlow struct {
	src, dst uint32
	tcp      bool // otherwise udp
	dport    uint16
}

func vIPv4(s string) uint32 {
	p := strings.Split(strings.Split(s, "/")[0], ".")
	if len(p) != 4 {
		panic("harness: not an IPv4 address: " + s)
	}
	var v uint32
	for _, x := range p {
		n, err := strconv.Atoi(x)
		if err != nil {
			panic("harness: not an IPv4 address: " + s)
		}
		v = v<<8 | uint32(n)
	}
	return v
}

func vMask(s string) uint32 {
	i := strings.Index(s, "/")
	if i < 0 {
		return 0xffffffff
	}
	n, err := strconv.Atoi(s[i+1:])
	if err != nil {
		panic("harness: bad prefix length: " + s)
	}
	if n == 0 {
		return 0
	}
	return 0xffffffff << uint(32-n)
}

// vInNet: addr inside the network written as a.b.c.d or a.b.c.d/n
func vInNet(addr uint32, cidr string) bool {
	m := vMask(cidr)
	return addr&m == vIPv4(cidr)&m
}

// ---- the packet walk over what is installed
type vWalker struct {
	w      *vWorld
	chains map[string][]string // chain -> rules (each "-A chain ...")
	f      vFlow
}

// inSet: membership the way the kernel evaluates hash:ip and hash:net sets.  A nomatch element takes precedence over
// the less specific elements that contain it (exceptions are inside their block, which the API validation demands).
func (k *vWalker) inSet(name string, addr uint32) bool {
	in, out := false, false
	for _, e := range k.w.ips.Entries[name].List() {
		parts := strings.Fields(e)
		m := vInNet(addr, parts[0])
		if len(parts) > 1 && parts[1] == "nomatch" {
			out = verifOr(out, m)
		} else {
			in = verifOr(in, m)
		}
	}
	return verifAnd(in, verifNot(out))
}

// ruleMatches: the conjunction of the rule's matches for a packet that starts a new connection.
func (k *vWalker) ruleMatches(f []string) bool {
	m := true
	for i := 0; i < len(f); i++ {
		switch f[i] {
		case "-s":
			m = verifAnd(m, vInNet(k.f.src, f[i+1]))
			i++
		case "-d":
			m = verifAnd(m, vInNet(k.f.dst, f[i+1]))
			i++
		case "-p":
			switch f[i+1] {
			case "tcp":
				m = verifAnd(m, k.f.tcp)
			case "udp":
				m = verifAnd(m, verifNot(k.f.tcp))
			case "all":
			default:
				panic("harness: walker does not know the protocol " + f[i+1])
			}
			i++
		case "--match-set":
			addr := k.f.src
			if f[i+2] == "dst" {
				addr = k.f.dst
			}
			m = verifAnd(m, k.inSet(f[i+1], addr))
			i += 2
		case "--dports":
			any := false
			for _, p := range strings.Split(f[i+1], ",") {
				n, err := strconv.Atoi(p)
				if err != nil {
					panic("harness: walker does not know the port " + p)
				}
				any = verifOr(any, k.f.dport == uint16(n))
			}
			m = verifAnd(m, any)
			i++
		case "--ctstate":
			m = false // RELATED,ESTABLISHED never matches the first packet of a connection
			i++
		case "--comment":
			i++
		case "-m", "set", "multiport", "comment", "conntrack":
		case "-j":
			i++
		default:
			panic("harness: walker does not know the match " + f[i])
		}
	}
	return m
}

// walk: (decided, accepted) after traversing the chain: decided means a terminal target was hit.
func (k *vWalker) walk(chain string, depth int) (bool, bool) {
	if depth > 4 {
		panic("harness: chain nesting deeper than galaxy produces")
	}
	decided, accepted := false, false
	for _, r := range k.chains[chain] {
		f := strings.Fields(r)[2:]
		target := vRuleTarget(r)
		m := verifAnd(verifNot(decided), k.ruleMatches(f))
		switch target {
		case "ACCEPT":
			accepted = verifOr(accepted, m)
			decided = verifOr(decided, m)
		case "DROP", "REJECT":
			decided = verifOr(decided, m)
		case "RETURN":
			panic("harness: walker does not handle RETURN in chain " + chain)
		case "":
		default:
			d2, a2 := k.walk(target, depth+1)
			accepted = verifOr(accepted, verifAnd(m, verifAnd(d2, a2)))
			decided = verifOr(decided, verifAnd(m, d2))
		}
	}
	return decided, accepted
}

// accepts: the verdict for a forwarded packet (FORWARD with policy ACCEPT).
func (w *vWorld) accepts(f vFlow) bool {
	k := &vWalker{w: w, chains: map[string][]string{}, f: f}
	_, rules := (&vStrictIPT{in: w.ipt}).chainsAndRules()
	for _, r := range rules {
		c := vRuleChain(r)
		k.chains[c] = append(k.chains[c], r)
	}
	decided, accepted := k.walk("FORWARD", 0)
	return verifOr(verifNot(decided), accepted)
}

// ---- the reference: Kubernetes NetworkPolicy semantics
type vRef struct{ c *vCluster }

func vLabelsMatch(sel *metav1.LabelSelector, l map[string]string) bool {
	for k, v := range sel.MatchLabels {
		if got, ok := l[k]; !ok || got != v {
			return false
		}
	}
	for _, e := range sel.MatchExpressions {
		got, has := l[e.Key]
		in := false
		for _, v := range e.Values {
			in = in || has && got == v
		}
		switch e.Operator {
		case metav1.LabelSelectorOpIn:
			if !in {
				return false
			}
		case metav1.LabelSelectorOpNotIn:
			if in {
				return false
			}
		case metav1.LabelSelectorOpExists:
			if !has {
				return false
			}
		case metav1.LabelSelectorOpDoesNotExist:
			if has {
				return false
			}
		}
	}
	return true
}

func (r vRef) nsLabels(name string) map[string]string {
	for _, n := range r.c.namespaces {
		if n.Name == name {
			return n.Labels
		}
	}
	return nil
}

// peerMatches: does the address belong to the peer, for a policy in namespace ns
func (r vRef) peerMatches(peer networkv1.NetworkPolicyPeer, ns string, addr uint32) bool {
	if peer.IPBlock != nil {
		in := vInNet(addr, peer.IPBlock.CIDR)
		for _, e := range peer.IPBlock.Except {
			in = verifAnd(in, verifNot(vInNet(addr, e)))
		}
		return in
	}
	m := false
	for _, p := range r.c.pods {
		if p.Status.PodIP == "" {
			continue
		}
		if peer.NamespaceSelector != nil {
			if !vLabelsMatch(peer.NamespaceSelector, r.nsLabels(p.Namespace)) {
				continue
			}
		} else if p.Namespace != ns {
			continue
		}
		if peer.PodSelector != nil && !vLabelsMatch(peer.PodSelector, p.Labels) {
			continue
		}
		m = verifOr(m, addr == vIPv4(p.Status.PodIP))
	}
	return m
}

func (r vRef) portsMatch(ports []networkv1.NetworkPolicyPort, f vFlow) bool {
	if len(ports) == 0 {
		return true
	}
	m := false
	for _, p := range ports {
		tcp := p.Protocol == nil || *p.Protocol == corev1.ProtocolTCP
		pm := f.tcp
		if !tcp {
			pm = verifNot(f.tcp)
		}
		if p.Port != nil {
			pm = verifAnd(pm, f.dport == uint16(p.Port.IntValue()))
		}
		m = verifOr(m, pm)
	}
	return m
}

func vAppliesIngress(np *networkv1.NetworkPolicy) bool {
	if len(np.Spec.PolicyTypes) == 0 {
		return true
	}
	for _, t := range np.Spec.PolicyTypes {
		if t == networkv1.PolicyTypeIngress {
			return true
		}
	}
	return false
}

func vAppliesEgress(np *networkv1.NetworkPolicy) bool {
	if len(np.Spec.PolicyTypes) == 0 {
		return len(np.Spec.Egress) > 0
	}
	for _, t := range np.Spec.PolicyTypes {
		if t == networkv1.PolicyTypeEgress {
			return true
		}
	}
	return false
}

// ingressAllowed: (isolated, allowed) for traffic to pod p
func (r vRef) ingressAllowed(p *corev1.Pod, f vFlow) (bool, bool) {
	isolated, allowed := false, false
	for _, np := range r.c.policies {
		if np.Namespace != p.Namespace || !vLabelsMatch(&np.Spec.PodSelector, p.Labels) || !vAppliesIngress(np) {
			continue
		}
		isolated = true
		for _, rule := range np.Spec.Ingress {
			from := len(rule.From) == 0
			for _, peer := range rule.From {
				from = verifOr(from, r.peerMatches(peer, np.Namespace, f.src))
			}
			allowed = verifOr(allowed, verifAnd(from, r.portsMatch(rule.Ports, f)))
		}
	}
	return isolated, allowed
}

func (r vRef) egressAllowed(p *corev1.Pod, f vFlow) (bool, bool) {
	isolated, allowed := false, false
	for _, np := range r.c.policies {
		if np.Namespace != p.Namespace || !vLabelsMatch(&np.Spec.PodSelector, p.Labels) || !vAppliesEgress(np) {
			continue
		}
		isolated = true
		for _, rule := range np.Spec.Egress {
			to := len(rule.To) == 0
			for _, peer := range rule.To {
				to = verifOr(to, r.peerMatches(peer, np.Namespace, f.dst))
			}
			allowed = verifOr(allowed, verifAnd(to, r.portsMatch(rule.Ports, f)))
		}
	}
	return isolated, allowed
}

// selects: the address is that of a pod the policy selects (on any node)
func (r vRef) selects(np *networkv1.NetworkPolicy, addr uint32) bool {
	m := false
	for _, p := range r.c.pods {
		if p.Status.PodIP != "" && p.Namespace == np.Namespace && vLabelsMatch(&np.Spec.PodSelector, p.Labels) {
			m = verifOr(m, addr == vIPv4(p.Status.PodIP))
		}
	}
	return m
}

// literalMatch: some rule of some policy, read on its own, names this flow: an ingress rule whose peers contain the
// source, whose policy selects the destination and whose ports match; or an egress rule whose policy selects the
// source, whose peers contain the destination and whose ports match.  (Used to delimit the known finding: galaxy's
// ACCEPT is terminal and one chain per policy carries the rules of both directions.)
func (r vRef) literalMatch(f vFlow) bool {
	m := false
	for _, np := range r.c.policies {
		if vAppliesIngress(np) {
			for _, rule := range np.Spec.Ingress {
				from := len(rule.From) == 0
				for _, peer := range rule.From {
					from = verifOr(from, r.peerMatches(peer, np.Namespace, f.src))
				}
				m = verifOr(m, verifAnd(from, verifAnd(r.selects(np, f.dst), r.portsMatch(rule.Ports, f))))
			}
		}
		if vAppliesEgress(np) {
			for _, rule := range np.Spec.Egress {
				to := len(rule.To) == 0
				for _, peer := range rule.To {
					to = verifOr(to, r.peerMatches(peer, np.Namespace, f.dst))
				}
				m = verifOr(m, verifAnd(to, verifAnd(r.selects(np, f.src), r.portsMatch(rule.Ports, f))))
			}
		}
	}
	return m
}

// verdicts of the reference for a flow seen by node1: the node only polices its own pods.
//   egressOK : the source is not a pod of this node, or that pod's egress allows the flow
//   ingressOK: the destination is not a pod of this node, or that pod's ingress allows the flow
func (r vRef) verdict(f vFlow) (egressOK, ingressOK, srcIsolated, dstIsolated bool) {
	egressOK, ingressOK = true, true
	for _, p := range r.c.pods {
		if p.Spec.NodeName != "node1" || p.Status.PodIP == "" {
			continue
		}
		ip := vIPv4(p.Status.PodIP)
		if iso, ok := r.egressAllowed(p, f); iso {
			egressOK = verifAnd(egressOK, verifOr(f.src != ip, ok))
			srcIsolated = verifOr(srcIsolated, f.src == ip)
		}
		if iso, ok := r.ingressAllowed(p, f); iso {
			ingressOK = verifAnd(ingressOK, verifOr(f.dst != ip, ok))
			dstIsolated = verifOr(dstIsolated, f.dst == ip)
		}
	}
	return
}

// ---- policy family for the semantic check: numeric tcp/udp ports, the four peer forms of the API
func vSemPeer(k int) networkv1.NetworkPolicyPeer {
	switch k {
	case 0: // pods labelled app=db of the policy's namespace
		return vPeer(0)
	case 1: // every pod of the namespaces of team b
		return vPeer(1)
	case 2: // an ip block with an exception
		return vPeer(2)
	case 3: // every pod of the policy's namespace
		return vPeer(3)
	case 4: // pods labelled app=web in the namespaces of team b
		return networkv1.NetworkPolicyPeer{PodSelector: &metav1.LabelSelector{MatchLabels: map[string]string{"app": "web"}},
			NamespaceSelector: &metav1.LabelSelector{MatchLabels: map[string]string{"team": "b"}}}
	case 5: // pods labelled app=web of the policy's namespace (web2 of ns2 carries the label too)
		return networkv1.NetworkPolicyPeer{PodSelector: &metav1.LabelSelector{MatchLabels: map[string]string{"app": "web"}}}
	case 6: // set-based pod selector: app notin (db), in the policy's namespace
		return networkv1.NetworkPolicyPeer{PodSelector: &metav1.LabelSelector{MatchExpressions: []metav1.LabelSelectorRequirement{{Key: "app", Operator: metav1.LabelSelectorOpNotIn, Values: []string{"db"}}}}}
	}
	// an ip block without exception, outside the pod network
	return networkv1.NetworkPolicyPeer{IPBlock: &networkv1.IPBlock{CIDR: "192.168.0.0/16"}}
}

const vNumSemPeers = 8

func vSemPeers(max int) []networkv1.NetworkPolicyPeer {
	var out []networkv1.NetworkPolicyPeer
	for i, n := 0, nondetChoice(max+1); i < n; i++ {
		out = append(out, vSemPeer(nondetChoice(vNumSemPeers)))
	}
	return out
}

func vSemPolicy(name string, maxPeers, maxIngress int) *networkv1.NetworkPolicy {
	np := &networkv1.NetworkPolicy{ObjectMeta: metav1.ObjectMeta{Namespace: "ns1", Name: name}}
	switch nondetChoice(4) {
	case 1:
		np.Spec.PodSelector = metav1.LabelSelector{MatchLabels: map[string]string{"app": "web"}}
	case 2:
		np.Spec.PodSelector = metav1.LabelSelector{MatchLabels: map[string]string{"app": "db"}}
	case 3: // set-based: app in (db, cache), which selects db only
		np.Spec.PodSelector = metav1.LabelSelector{MatchExpressions: []metav1.LabelSelectorRequirement{{Key: "app", Operator: metav1.LabelSelectorOpIn, Values: []string{"db", "cache"}}}}
	}
	switch nondetChoice(4) {
	case 1:
		np.Spec.PolicyTypes = []networkv1.PolicyType{networkv1.PolicyTypeIngress}
	case 2:
		np.Spec.PolicyTypes = []networkv1.PolicyType{networkv1.PolicyTypeEgress}
	case 3:
		np.Spec.PolicyTypes = []networkv1.PolicyType{networkv1.PolicyTypeIngress, networkv1.PolicyTypeEgress}
	}
	// rules only for the directions the policy applies to (with policyTypes unset, having egress rules is what
	// makes the policy apply to egress)
	// rules of a direction that policyTypes does not list are legal and ignored by the semantics: the quick tier adds
	// them only for the directions that apply, plus one fixed rule of the unlisted direction as a choice
	if !vAppliesIngress(np) && nondetBool() {
		np.Spec.Ingress = append(np.Spec.Ingress, networkv1.NetworkPolicyIngressRule{Ports: vPorts(1), From: []networkv1.NetworkPolicyPeer{vSemPeer(2)}})
	}
	if len(np.Spec.PolicyTypes) != 0 && !vAppliesEgress(np) && nondetBool() {
		np.Spec.Egress = append(np.Spec.Egress, networkv1.NetworkPolicyEgressRule{Ports: vPorts(1), To: []networkv1.NetworkPolicyPeer{vSemPeer(2)}})
	}
	if vAppliesIngress(np) {
		for i, n := 0, nondetChoice(maxIngress+1); i < n; i++ {
			np.Spec.Ingress = append(np.Spec.Ingress, networkv1.NetworkPolicyIngressRule{Ports: vPorts(nondetChoice(3)), From: vSemPeers(maxPeers)})
		}
	}
	if (len(np.Spec.PolicyTypes) == 0 || vAppliesEgress(np)) && nondetBool() {
		np.Spec.Egress = append(np.Spec.Egress, networkv1.NetworkPolicyEgressRule{Ports: vPorts(nondetChoice(3)), To: vSemPeers(maxPeers)})
	}
	return np
}

func vAnyFlow() vFlow {
	return vFlow{src: nondetU32(), dst: nondetU32(), tcp: nondetBool(), dport: nondetU16()}
}

// checkSemantics compares the walk with the reference for every flow.
func (w *vWorld) checkSemantics() {
	f := vAnyFlow()
	got := w.accepts(f)
	egressOK, ingressOK, srcIso, dstIso := vRef{w.c}.verdict(f)
	verifReach("walked")
	detail := ""
	if !verifSymbolic() { // native replay: say which policy and which flow
		spec, _ := json.Marshal(w.c.policies)
		proto := "udp"
		if f.tcp {
			proto = "tcp"
		}
		detail = fmt.Sprintf("\nflow %d.%d.%d.%d -> %d.%d.%d.%d %s/%d: installed rules accept=%v; reference: egress allows=%v ingress allows=%v (source isolated=%v, destination isolated=%v)\npolicies %s\nrules:\n%s\nsets: %s",
			f.src>>24, f.src>>16&255, f.src>>8&255, f.src&255, f.dst>>24, f.dst>>16&255, f.dst>>8&255, f.dst&255, proto, f.dport,
			got, egressOK, ingressOK, srcIso, dstIso, spec, w.filterDump(), w.sets(true))
	}
	// pods selected by no policy are unrestricted
	verifAssert("C16/unselected-unrestricted", verifImplies(verifAnd(verifNot(srcIso), verifNot(dstIso)), got), "a flow between endpoints that no policy isolates is dropped"+detail)
	// known finding: an over-acceptance of a flow that some rule names literally (see literalMatch)
	terminal := verifAnd(got, vRef{w.c}.literalMatch(f))
	// ingress alone: the source is not an egress-isolated pod of this node
	verifKnown("kf-C16-accept-is-terminal", terminal)
	verifAssert("C16/ingress-exact", verifImplies(verifNot(srcIso), got == ingressOK), "the verdict for traffic to a pod differs from the ingress semantics"+detail)
	// egress alone: the destination is not an ingress-isolated pod of this node
	verifKnown("kf-C16-accept-is-terminal", terminal)
	verifAssert("C16/egress-exact", verifImplies(verifNot(dstIso), got == egressOK), "the verdict for traffic from a pod differs from the egress semantics"+detail)
	// both ends policed by this node: both directions have to allow the flow
	verifKnown("kf-C16-accept-is-terminal", terminal)
	verifAssert("C16/both-ends", verifImplies(verifAnd(srcIso, dstIso), got == verifAnd(egressOK, ingressOK)), "the verdict for traffic between two isolated pods of the node differs from egress-and-ingress"+detail)
}

func vSemWorld() *vWorld {
	w := vNewWorld()
	// a pod of the policies' namespace on another node: selected by policies, but policed by its own node
	w.c.pods = append(w.c.pods, vPod("ns1", "api", "10.0.0.4", "node2", map[string]string{"app": "web"}))
	return w
}

// BOUND: cluster: namespaces ns1 team=a, ns2 team=b; pods web 10.0.0.1 and db 10.0.0.2 on the node, api 10.0.0.4 (ns1, app=web) and web2 10.0.0.3 (ns2, app=web) on another node; one policy in ns1: podSelector over {all, app=web, app=db, app in (db, cache)}, policyTypes over {unset, [Ingress], [Egress], both}, 0..1 ingress rule and 0..1 egress rule of the directions that apply (and optionally one fixed rule of a direction policyTypes does not list, which the semantics ignore), each with ports over {none, tcp 80, udp 53 + tcp 80} and 0..1 peers (thorough: 0..2) out of 8 peer forms (pod selector by labels and set-based, namespace selector, both, all pods, ip block with and without exception); flow: any IPv4 source and destination, tcp or udp, any destination port; forwarded traffic (FORWARD chain), first packet of a connection
// ASSUME: packet walk models iptables filter traversal of FORWARD with policy ACCEPT, -s/-d/-p, set match (hash:ip, hash:net with nomatch), multiport --dports, conntrack RELATED,ESTABLISHED never matching a new connection; traffic between a pod and the node's own processes (INPUT / OUTPUT) is outside the walk
func VerifC16_q_onePolicy() {
	w := vSemWorld()
	maxPeers := 1
	if verifTier() > 0 {
		maxPeers = 2
	}
	w.c.policies = []*networkv1.NetworkPolicy{vSemPolicy("np-a", maxPeers, 1)}
	w.syncAll()
	w.checkSemantics()
}

// BOUND: same cluster and flows; one policy with 0..2 ingress rules of 0..1 peers each and 0..1 egress rule (the rules of one policy are alternatives)
func VerifC16_t_twoIngressRules() {
	w := vSemWorld()
	w.c.policies = []*networkv1.NetworkPolicy{vSemPolicy("np-a", 1, 2)}
	w.syncAll()
	w.checkSemantics()
}

// BOUND: same cluster; two policies in ns1, each one of the 8 shapes of the convergence harness (vShape): the verdict is the union over the policies that select a pod; same flows
func VerifC16_q_twoPolicies() {
	w := vSemWorld()
	w.c.policies = []*networkv1.NetworkPolicy{vShape("np-a", nondetChoice(vNumShapes)), vShape("np-b", nondetChoice(vNumShapes))}
	w.syncAll()
	w.checkSemantics()
}

// BOUND: same cluster and flows; the node is synchronised for a policy of one of the 9 shapes of the convergence harness (quick: 5), then the policy is changed to another shape, deleted, or a second policy is added, delivered through the real UpdatePolicy / DeletePolicy / AddPolicy handlers; the verdicts of the rules installed afterwards are compared with the semantics of the policies in force afterwards (what an earlier policy left behind must not change a verdict)
func VerifC16_q_afterPolicyChange() {
	w := vSemWorld()
	first := vShapeOf("np-a")
	w.c.policies = []*networkv1.NetworkPolicy{first}
	w.syncAll()
	switch nondetChoice(3) {
	case 0:
		second := vShapeOf("np-a")
		w.c.policies = []*networkv1.NetworkPolicy{second}
		_ = w.pm.UpdatePolicy(first, second)
	case 1:
		w.c.policies = nil
		_ = w.pm.DeletePolicy(first)
	default:
		second := vShapeOf("np-b")
		w.c.policies = []*networkv1.NetworkPolicy{first, second}
		_ = w.pm.AddPolicy(second)
	}
	verifReach("policy-changed")
	w.checkSemantics()
}

// BOUND: same cluster and flows; the node is synchronised for a policy of one of the shapes of the convergence harness (quick: 5, thorough: 9); then a pod of another node (api in ns1 or web2 in ns2) is deleted and its event delivered through the informer handler (DeletePod), optionally followed by a new pod with other labels (role=batch) that comes up on the other node with the same address (AddPod / UpdatePod); no policy event and no full synchronisation follows. The verdicts must match the reference for the cluster as it is now (an address no longer belongs to a peer once its pod is gone)
func VerifC16_q_afterPodChange() {
	w := vSemWorld()
	w.c.policies = []*networkv1.NetworkPolicy{vShapeOf("np-a")}
	w.syncAll()
	victim := nondetPick("api", "web2")
	var old *corev1.Pod
	var rest []*corev1.Pod
	for _, p := range w.c.pods {
		if p.Name == victim {
			old = p
		} else {
			rest = append(rest, p)
		}
	}
	if old == nil {
		return
	}
	w.c.pods = rest
	_ = w.pm.DeletePod(old)
	if nondetBool() {
		np := vPod(old.Namespace, "batch", old.Status.PodIP, old.Spec.NodeName, map[string]string{"role": "batch"})
		w.c.pods = append(w.c.pods, np)
		_ = w.pm.AddPod(np)
		_ = w.pm.UpdatePod(np, np)
	}
	verifReach("remote-pod-changed")
	w.checkSemantics()
}

// vWindowIPT runs a second activity once, right before the at-th iptables call of the first.
type vWindowIPT struct {
	utiliptables.Interface
	n, at int
	second func()
}

func (v *vWindowIPT) window() {
	v.n++
	if v.n == v.at && v.second != nil {
		f := v.second
		v.second = nil
		f()
	}
}
func (v *vWindowIPT) EnsureChain(t utiliptables.Table, c utiliptables.Chain) (bool, error) {
	v.window()
	return v.Interface.EnsureChain(t, c)
}
func (v *vWindowIPT) EnsureRule(p utiliptables.RulePosition, t utiliptables.Table, c utiliptables.Chain, args ...string) (bool, error) {
	v.window()
	return v.Interface.EnsureRule(p, t, c, args...)
}
func (v *vWindowIPT) DeleteRule(t utiliptables.Table, c utiliptables.Chain, args ...string) error {
	v.window()
	return v.Interface.DeleteRule(t, c, args...)
}
func (v *vWindowIPT) RestoreAll(data []byte, fl utiliptables.FlushFlag, cn utiliptables.RestoreCountersFlag) error {
	v.window()
	return v.Interface.RestoreAll(data, fl, cn)
}

// BOUND: same cluster and flows; two policies np-a, np-b (each one of 5 shapes; thorough: 9) synchronised; a pod event for a pod of the node (update of web or db) is handled while, atomically inside any one window right before one of its iptables calls (symbolic window 0..6), the policy informer's goroutine handles a policy event that changes no policy but lists the policies in the other order (a full policy synchronisation); afterwards the verdicts must match the reference
// ASSUME: C16: interference granularity = iptables calls of the pod event's handler; the second handler runs to completion inside one window
func VerifC16_q_podEventDuringPolicyResync() {
	w := vSemWorld()
	a, b := vShapeOf("np-a"), vShapeOf("np-b")
	w.c.policies = []*networkv1.NetworkPolicy{a, b}
	w.syncAll()
	win := &vWindowIPT{Interface: w.pm.iptableHandle, at: nondetInt(0, 6)}
	win.second = func() {
		w.c.policies = []*networkv1.NetworkPolicy{b, a}
		_ = w.pm.UpdatePolicy(a, a)
	}
	w.pm.iptableHandle = win
	var pod *corev1.Pod
	name := nondetPick("web", "db")
	for _, p := range w.c.pods {
		if p.Name == name {
			pod = p
		}
	}
	_ = w.pm.UpdatePod(pod, pod)
	w.pm.iptableHandle = win.Interface
	if win.second != nil {
		return // the pod event offered no such window
	}
	verifReach("policy-resync-inside-pod-event")
	w.checkSemantics()
}

// BOUND: same cluster and flows; the node is synchronised for 1..2 policies (shapes of the convergence harness); galaxy stops; while it is down the policies are deleted (all of them, or all but one); galaxy starts again (a new manager over the same kernel state, pod informer not started while there is no policy) and runs its start-up synchronisation. The verdicts must match the reference for the policies that are left (no policy: every flow is accepted)
func VerifC16_q_afterRestartWithFewerPolicies() {
	w := vSemWorld()
	a := vShapeOf("np-a")
	w.c.policies = []*networkv1.NetworkPolicy{a}
	if nondetBool() {
		w.c.policies = append(w.c.policies, vShape("np-b", 4))
	}
	w.syncAll()
	w.restartManager()
	if nondetBool() && len(w.c.policies) == 2 {
		w.c.policies = w.c.policies[1:]
	} else {
		w.c.policies = nil
	}
	w.syncAll()
	verifReach("restarted-with-fewer-policies")
	w.checkSemantics()
}
