package policy

// BOUND: one NetworkPolicy out of the shape family: pod selector {all, app=web}; policyTypes {unset, [Ingress], [Egress], both}; ingress {none, one rule, two rules} and egress {none, one rule}, each arbitrary rule with 0..1 (quick) or 0..2 (thorough) peers over {podSelector, namespaceSelector, ipBlock with except, all-pods selector, empty peer} and ports over {none, tcp 80, udp 53 + default-protocol 80, named port, protocol without port}; 3 pods in 2 namespaces; full sync, per-pod chain sync, pod IP add/remove in the ipsets, pod chain deletion
// ASSUME: C18: NetworkPolicy objects are structurally valid (as the API server admits them): policyTypes may name a direction whose rule list is empty and vice versa
func VerifC18_q_policySurface() {
	w := vNewWorld()
	w.c.policies = append(w.c.policies, vAnyPolicy("np1"))
	w.syncAll()
	verifReach("synced")
	for _, pod := range w.c.pods {
		w.pm.SyncPodIPInIPSet(pod, true)
		w.pm.SyncPodIPInIPSet(pod, false)
		_ = w.pm.deletePodChains(pod)
	}
	verifReach("pod-events-handled")
	w.syncAll()
	verifAssert("C18/policy-sync-answers", true, "unreachable")
}
