package policy

// Strict layers over the repository's in-memory ipset / iptables fakes.  The fakes accept things the kernel refuses
// (a rule naming a set or chain that does not exist silently creates it; a chain or set that is still referenced
// can be deleted).  The strict layers refuse them the way iptables-restore / iptables / ipset do: the whole batch
// is rejected and nothing of it is applied.  Every refusal is logged for the harness to inspect.

import (
	"net"
	"bytes"
	"fmt"
	"strings"
	"sync"

	"tkestack.io/galaxy/pkg/utils/ipset"
	ipsettesting "tkestack.io/galaxy/pkg/utils/ipset/testing"
	utiliptables "tkestack.io/galaxy/pkg/utils/iptables"
)

// ASSUME: kernel strictness modelled on top of the fakes: iptables-restore is atomic per table and fails when a rule names a missing chain or ipset, or when -X names a chain that is still referenced after the batch; iptables -A/-X and ipset destroy fail likewise

type vStrictIPT struct {
	mu       sync.Mutex
	in       utiliptables.Interface
	ips      *ipsettesting.FakeIPSet
	dangling []string // batches / rules refused because they name something that does not exist
	inUse    []string // deletions refused because the chain is still referenced
	batches  int
}

var vBuiltinTargets = map[string]bool{"ACCEPT": true, "DROP": true, "RETURN": true, "REJECT": true}

func (s *vStrictIPT) chainsAndRules() (map[string]bool, []string) {
	buf := bytes.NewBuffer(nil)
	_ = s.in.SaveInto(utiliptables.TableFilter, buf)
	chains := map[string]bool{}
	var rules []string
	for _, l := range strings.Split(buf.String(), "\n") {
		if strings.HasPrefix(l, ":") {
			chains[strings.Split(l[1:], " ")[0]] = true
		} else if strings.HasPrefix(l, "-A ") {
			rules = append(rules, l)
		}
	}
	return chains, rules
}

func vRuleChain(l string) string {
	f := strings.Fields(l)
	if len(f) < 2 {
		return ""
	}
	return f[1]
}

func vRuleTarget(l string) string {
	f := strings.Fields(l)
	for i := range f {
		if f[i] == "-j" && i+1 < len(f) {
			return f[i+1]
		}
	}
	return ""
}

func vRuleSets(l string) []string {
	var out []string
	f := strings.Fields(l)
	for i := range f {
		if f[i] == "--match-set" && i+1 < len(f) {
			out = append(out, f[i+1])
		}
	}
	return out
}

// checkRule reports why the kernel would refuse the rule, "" if it would not.
func (s *vStrictIPT) checkRule(l string, chains map[string]bool) string {
	if !chains[vRuleChain(l)] {
		return "rule for the chain " + vRuleChain(l) + " which does not exist: " + l
	}
	if t := vRuleTarget(l); t != "" && !vBuiltinTargets[t] && !chains[t] {
		return "rule jumps to the chain " + t + " which does not exist: " + l
	}
	for _, set := range vRuleSets(l) {
		if _, ok := s.ips.Sets[set]; !ok {
			return "rule matches on the ipset " + set + " which does not exist: " + l
		}
	}
	return ""
}

func (s *vStrictIPT) RestoreAll(data []byte, fl utiliptables.FlushFlag, cn utiliptables.RestoreCountersFlag) error {
	s.mu.Lock()
	defer s.mu.Unlock()
	s.batches++
	chains, rules := s.chainsAndRules()
	lines := strings.Split(string(data), "\n")
	declared := map[string]bool{}
	for _, l := range lines {
		if strings.HasPrefix(l, ":") {
			name := strings.Split(l[1:], " ")[0]
			declared[name] = true
			chains[name] = true
		}
	}
	deleted := map[string]bool{}
	var added []string
	for _, l := range lines {
		switch {
		case strings.HasPrefix(l, "-A "), strings.HasPrefix(l, "-I "):
			if why := s.checkRule(l, chains); why != "" {
				s.dangling = append(s.dangling, why)
				return fmt.Errorf("iptables-restore: %s", why)
			}
			added = append(added, l)
		case strings.HasPrefix(l, "-X "):
			deleted[strings.TrimSpace(l[3:])] = true
		}
	}
	for c := range deleted {
		if !chains[c] {
			why := "-X of the chain " + c + " which does not exist"
			s.dangling = append(s.dangling, why)
			return fmt.Errorf("iptables-restore: %s", why)
		}
		// rules that survive the batch: those of chains not re-declared (a chain line flushes a user chain) ...
		for _, r := range rules {
			k := vRuleChain(r)
			if vRuleTarget(r) == c && k != c && !(declared[k] && !vBuiltinChain(k)) {
				why := "-X of the chain " + c + " which is still referenced by: " + r
				s.inUse = append(s.inUse, why)
				return fmt.Errorf("iptables-restore: %s", why)
			}
		}
		// ... and those the batch itself adds
		for _, r := range added {
			if vRuleTarget(r) == c || vRuleChain(r) == c {
				why := "-X of the chain " + c + " which the same batch uses: " + r
				s.inUse = append(s.inUse, why)
				return fmt.Errorf("iptables-restore: %s", why)
			}
		}
	}
	return s.in.RestoreAll(data, fl, cn)
}

func vBuiltinChain(c string) bool { return c == "INPUT" || c == "FORWARD" || c == "OUTPUT" }

func (s *vStrictIPT) Restore(t utiliptables.Table, data []byte, fl utiliptables.FlushFlag, cn utiliptables.RestoreCountersFlag) error {
	return s.RestoreAll(data, fl, cn)
}

func (s *vStrictIPT) EnsureRule(pos utiliptables.RulePosition, t utiliptables.Table, c utiliptables.Chain, args ...string) (bool, error) {
	s.mu.Lock()
	defer s.mu.Unlock()
	chains, _ := s.chainsAndRules()
	if why := s.checkRule("-A "+string(c)+" "+strings.Join(args, " "), chains); why != "" {
		s.dangling = append(s.dangling, why)
		return false, fmt.Errorf("iptables: %s", why)
	}
	return s.in.EnsureRule(pos, t, c, args...)
}

func (s *vStrictIPT) DeleteChain(t utiliptables.Table, c utiliptables.Chain) error {
	s.mu.Lock()
	defer s.mu.Unlock()
	chains, rules := s.chainsAndRules()
	if !chains[string(c)] {
		return s.in.DeleteChain(t, c)
	}
	for _, r := range rules {
		if vRuleTarget(r) == string(c) && vRuleChain(r) != string(c) {
			why := "iptables -X " + string(c) + " while it is still referenced by: " + r
			s.inUse = append(s.inUse, why)
			return fmt.Errorf("%s", why)
		}
		if vRuleChain(r) == string(c) {
			why := "iptables -X " + string(c) + " while it is not empty"
			s.inUse = append(s.inUse, why)
			return fmt.Errorf("%s", why)
		}
	}
	return s.in.DeleteChain(t, c)
}

func (s *vStrictIPT) GetVersion() (string, error) { return s.in.GetVersion() }
func (s *vStrictIPT) EnsureChain(t utiliptables.Table, c utiliptables.Chain) (bool, error) {
	s.mu.Lock()
	defer s.mu.Unlock()
	return s.in.EnsureChain(t, c)
}
func (s *vStrictIPT) FlushChain(t utiliptables.Table, c utiliptables.Chain) error {
	s.mu.Lock()
	defer s.mu.Unlock()
	return s.in.FlushChain(t, c)
}
func (s *vStrictIPT) DeleteRule(t utiliptables.Table, c utiliptables.Chain, args ...string) error {
	s.mu.Lock()
	defer s.mu.Unlock()
	return s.in.DeleteRule(t, c, args...)
}
// ListRule answers in the format of `iptables -S <chain>` (the repository's fake returns the bare rule
// specifications, which deletePodRuleByKeyword would mis-parse: it strips the leading "-A <chain>").
func (s *vStrictIPT) ListRule(t utiliptables.Table, c utiliptables.Chain, args ...string) ([]string, error) {
	s.mu.Lock()
	defer s.mu.Unlock()
	rules, err := s.in.ListRule(t, c, args...)
	if err != nil {
		return nil, err
	}
	out := []string{"-N " + string(c)}
	if vBuiltinChain(string(c)) {
		out = []string{"-P " + string(c) + " ACCEPT"}
	}
	for _, r := range rules {
		out = append(out, "-A "+string(c)+" "+r)
	}
	return out, nil
}
func (s *vStrictIPT) IsIpv6() bool { return false }
func (s *vStrictIPT) SaveInto(t utiliptables.Table, b *bytes.Buffer) error {
	s.mu.Lock()
	defer s.mu.Unlock()
	return s.in.SaveInto(t, b)
}
func (s *vStrictIPT) EnsurePolicy(t utiliptables.Table, c utiliptables.Chain, policy string) error {
	return s.in.EnsurePolicy(t, c, policy)
}

// vStrictIPSet: ipset destroy fails while a rule still references the set ("Set cannot be destroyed: it is in use
// by a kernel component").
type vStrictIPSet struct {
	*ipsettesting.FakeIPSet
	mu    sync.Mutex
	ipt   *vStrictIPT
	inUse []string
}

func (s *vStrictIPSet) ListSets() ([]string, error) {
	s.mu.Lock()
	defer s.mu.Unlock()
	return s.FakeIPSet.ListSets()
}
func (s *vStrictIPSet) AddEntry(entry string, set *ipset.IPSet, ignore bool) error {
	s.mu.Lock()
	defer s.mu.Unlock()
	return s.FakeIPSet.AddEntry(entry, set, ignore)
}
func (s *vStrictIPSet) DelEntry(entry string, set string) error {
	s.mu.Lock()
	defer s.mu.Unlock()
	return s.FakeIPSet.DelEntry(entry, set)
}

func (s *vStrictIPSet) DestroySet(set string) error {
	_, rules := s.ipt.chainsAndRulesLocked()
	s.mu.Lock()
	defer s.mu.Unlock()
	for _, r := range rules {
		for _, n := range vRuleSets(r) {
			if n == set {
				why := "ipset destroy " + set + " while it is referenced by: " + r
				s.inUse = append(s.inUse, why)
				return fmt.Errorf("%s", why)
			}
		}
	}
	return s.FakeIPSet.DestroySet(set)
}

func (s *vStrictIPSet) CreateSet(set *ipset.IPSet, ignore bool) error {
	s.mu.Lock()
	defer s.mu.Unlock()
	return s.FakeIPSet.CreateSet(set, ignore)
}
// vCanonNet: the kernel stores (and lists) a hash:net element as its network address, without a /32 suffix.
func vCanonNet(e string) string {
	if !strings.Contains(e, "/") {
		return e
	}
	_, ipnet, err := net.ParseCIDR(e)
	if err != nil {
		return e
	}
	return strings.TrimSuffix(ipnet.String(), "/32")
}

func (s *vStrictIPSet) AddEntryWithOptions(e *ipset.Entry, set *ipset.IPSet, ignore bool) error {
	s.mu.Lock()
	defer s.mu.Unlock()
	if _, ok := s.FakeIPSet.Sets[set.Name]; !ok {
		return fmt.Errorf("ipset add: the set %s does not exist", set.Name)
	}
	c := *e
	c.Net = vCanonNet(e.Net)
	return s.FakeIPSet.AddEntryWithOptions(&c, set, ignore)
}
func (s *vStrictIPSet) DelEntryWithOptions(set, entry string, options ...string) error {
	s.mu.Lock()
	defer s.mu.Unlock()
	if _, ok := s.FakeIPSet.Sets[set]; !ok {
		return fmt.Errorf("ipset del: the set %s does not exist", set)
	}
	return s.FakeIPSet.DelEntryWithOptions(set, vCanonNet(entry), options...)
}
func (s *vStrictIPSet) ListEntries(set string) ([]string, error) {
	s.mu.Lock()
	defer s.mu.Unlock()
	if _, ok := s.FakeIPSet.Sets[set]; !ok {
		return nil, fmt.Errorf("ipset list: the set %s does not exist", set)
	}
	return s.FakeIPSet.ListEntries(set)
}

func (s *vStrictIPT) chainsAndRulesLocked() (map[string]bool, []string) {
	s.mu.Lock()
	defer s.mu.Unlock()
	return s.chainsAndRules()
}

// vNewStrictWorld: the world of vNewWorld behind the strict layers.
func vNewStrictWorld() (*vWorld, *vStrictIPT, *vStrictIPSet) {
	w := vNewWorld()
	st := &vStrictIPT{in: w.ipt, ips: w.ips}
	ss := &vStrictIPSet{FakeIPSet: w.ips, ipt: st}
	w.pm.iptableHandle = st
	w.pm.ipsetHandle = ss
	return w, st, ss
}
