package policy

import (
	corev1 "k8s.io/api/core/v1"
	networkv1 "k8s.io/api/networking/v1"
	"k8s.io/apimachinery/pkg/labels"
	"k8s.io/client-go/informers"
	informerscore "k8s.io/client-go/informers/core"
	informerscorev1 "k8s.io/client-go/informers/core/v1"
	corev1lister "k8s.io/client-go/listers/core/v1"
	"k8s.io/client-go/tools/cache"
)

// C16 (start-up): the first synchronisation after a start with policies in place must run on caches that are filled:
// galaxy starts its pod / namespace informers when it finds the first policy and waits for both before it derives
// the sets. Here the informer factory is a stub whose namespace informer needs two polls to sync (its lister is empty
// before), the pod informer is synced at once.

type vStartFactory struct {
	informers.SharedInformerFactory
	c     *vCluster
	polls *int
}

func (f vStartFactory) Start(stopCh <-chan struct{}) {}
func (f vStartFactory) Core() informerscore.Interface { return vStartCore{f: f} }

type vStartCore struct {
	informerscore.Interface
	f vStartFactory
}

func (c vStartCore) V1() informerscorev1.Interface { return vStartV1{f: c.f} }

type vStartV1 struct {
	informerscorev1.Interface
	f vStartFactory
}

func (v vStartV1) Namespaces() informerscorev1.NamespaceInformer { return vStartNS{f: v.f} }

type vStartNS struct{ f vStartFactory }

func (n vStartNS) Informer() cache.SharedIndexInformer { return vStartNSInformer{f: n.f} }
func (n vStartNS) Lister() corev1lister.NamespaceLister { return vStartNSLister{f: n.f} }

type vStartNSInformer struct {
	cache.SharedIndexInformer
	f vStartFactory
}

func (i vStartNSInformer) HasSynced() bool {
	*i.f.polls++
	return *i.f.polls >= 2
}

type vStartNSLister struct {
	corev1lister.NamespaceLister
	f vStartFactory
}

func (l vStartNSLister) List(sel labels.Selector) ([]*corev1.Namespace, error) {
	if *l.f.polls < 2 {
		return nil, nil // the cache is still empty
	}
	return vNamespaceLister{c: l.f.c}.List(sel)
}

// BOUND: same cluster and flows; a new galaxy process (start-once of the informer factory not yet consumed) over an empty kernel state, or over the kernel state a former process left for the same policy; one policy (one of the shapes of the convergence harness, including the namespace-selector ones) exists at start; the informer factory is a stub: pod informer synced at once, namespace informer synced at its second poll, its lister empty before; the start-up synchronisation (Run) runs once. The verdicts must match the reference (the peers of a namespace selector are there)
// ASSUME: C16: the informer factory is a stub (client-go's reflectors are not the subject); wait.PollInfinite is modelled as up to 3 polls
func VerifC16_q_firstSyncWaitsForCaches() {
	w := vSemWorld()
	w.c.policies = []*networkv1.NetworkPolicy{vShapeOf("np-a")}
	if nondetBool() {
		w.syncAll() // the kernel state of a former process
	}
	polls := 0
	old := w.pm
	w.c.informerStarted = false
	w.pm = &PolicyManager{ipsetHandle: old.ipsetHandle, iptableHandle: old.iptableHandle, hostName: "node1", client: vKube{c: w.c},
		podLister: vPodLister{c: w.c}, policyLister: vPolicyLister{c: w.c},
		podInformerFactory: vStartFactory{c: w.c, polls: &polls}}
	w.pm.podCachedInformer = vSyncedInformer{} // the pod informer: synced
	w.syncAll()
	verifReach("first-sync-of-a-new-process")
	w.checkSemantics()
}
