package policy

import (
	"sort"
	"strings"

	corev1 "k8s.io/api/core/v1"
	networkv1 "k8s.io/api/networking/v1"
	metav1 "k8s.io/apimachinery/pkg/apis/meta/v1"
	"k8s.io/client-go/tools/cache"
	"tkestack.io/galaxy/pkg/utils/ipset"
	utiliptables "tkestack.io/galaxy/pkg/utils/iptables"
)

// C15: after a full synchronisation the galaxy-owned ipsets, policy chains and pod chains are exactly those
// derived from the current policies and pods, whatever existed before; synchronising again changes nothing;
// foreign chains / rules / sets are never modified; no batch references a set or chain that does not exist.

// vSyncedInformer: the pod informer. galaxy starts its pod informer factory when a synchronisation finds the first
// network policy; from then on (for the life of the process) it is synced, before that it is not (syncPods then
// lists the node's pods from the API server).
type vSyncedInformer struct {
	cache.SharedIndexInformer
	c *vCluster
}

func (i vSyncedInformer) HasSynced() bool { return i.c == nil || i.c.informerStarted }

func (w *vWorld) filterDump() string {
	_, rules := (&vStrictIPT{in: w.ipt}).chainsAndRules()
	chains, _ := (&vStrictIPT{in: w.ipt}).chainsAndRules()
	var names []string
	for c := range chains {
		names = append(names, ":"+c)
	}
	sort.Strings(names)
	return strings.Join(names, "\n") + "\n" + strings.Join(rules, "\n")
}

// vSplitOwned separates galaxy-owned lines (GLX-...) from the others; both in order of appearance.
func vSplitOwned(dump string) (owned, foreign []string) {
	for _, l := range strings.Split(dump, "\n") {
		if strings.Contains(l, NamePrefix+"-") {
			owned = append(owned, l)
		} else {
			foreign = append(foreign, l)
		}
	}
	return
}

// vSorted: sorted lines without the scaffolding (the GLX-INGRESS / GLX-EGRESS chains themselves and the jumps to them
// from the built-in chains): the property speaks of ipsets, policy chains and pod chains; the scaffolding is created
// on first need and deliberately stays.  The pod hooks inside GLX-INGRESS / GLX-EGRESS are compared.
func vSorted(l []string) string {
	var c []string
	for _, x := range l {
		if x == ":"+string(ingressChain) || x == ":"+string(egressChain) || strings.HasPrefix(x, "-A FORWARD -j ") || strings.HasPrefix(x, "-A INPUT -j ") || strings.HasPrefix(x, "-A OUTPUT -j ") {
			continue
		}
		c = append(c, x)
	}
	sort.Strings(c)
	return strings.Join(c, "\n")
}

// sets lists ipsets (galaxy-owned or not) with their sorted members.
func (w *vWorld) sets(owned bool) string {
	var names []string
	for n := range w.ips.Sets {
		if strings.HasPrefix(n, NamePrefix) == owned {
			names = append(names, n)
		}
	}
	sort.Strings(names)
	out := ""
	for _, n := range names {
		out += n + "(" + string(w.ips.Sets[n].SetType) + ")=" + strings.Join(w.ips.Entries[n].List(), ",") + ";"
	}
	return out
}

// vShape: nine policy shapes, one per feature of the compiler.
func vShape(name string, k int) *networkv1.NetworkPolicy {
	np := &networkv1.NetworkPolicy{ObjectMeta: metav1.ObjectMeta{Namespace: "ns1", Name: name}}
	web := metav1.LabelSelector{MatchLabels: map[string]string{"app": "web"}}
	in, eg := networkv1.PolicyTypeIngress, networkv1.PolicyTypeEgress
	switch k {
	case 0: // web accepts db on tcp 80
		np.Spec.PodSelector = web
		np.Spec.Ingress = []networkv1.NetworkPolicyIngressRule{{Ports: vPorts(1), From: []networkv1.NetworkPolicyPeer{vPeer(0)}}}
	case 1: // every pod of ns1 accepts the namespaces of team b
		np.Spec.Ingress = []networkv1.NetworkPolicyIngressRule{{From: []networkv1.NetworkPolicyPeer{vPeer(1)}}}
	case 2: // web accepts an ip block with an exception, udp 53 and tcp 80
		np.Spec.PodSelector = web
		np.Spec.Ingress = []networkv1.NetworkPolicyIngressRule{{Ports: vPorts(2), From: []networkv1.NetworkPolicyPeer{vPeer(2)}}}
	case 3: // web may only talk to db on tcp 80
		np.Spec.PodSelector = web
		np.Spec.PolicyTypes = []networkv1.PolicyType{eg}
		np.Spec.Egress = []networkv1.NetworkPolicyEgressRule{{Ports: vPorts(1), To: []networkv1.NetworkPolicyPeer{vPeer(0)}}}
	case 4: // both directions, all pods, two peers in one rule
		np.Spec.PolicyTypes = []networkv1.PolicyType{in, eg}
		np.Spec.Ingress = []networkv1.NetworkPolicyIngressRule{{From: []networkv1.NetworkPolicyPeer{vPeer(3), vPeer(2)}}}
		np.Spec.Egress = []networkv1.NetworkPolicyEgressRule{{To: []networkv1.NetworkPolicyPeer{vPeer(1)}}}
	case 5: // deny all ingress to web
		np.Spec.PodSelector = web
		np.Spec.PolicyTypes = []networkv1.PolicyType{in}
	case 6: // two ingress rules
		np.Spec.PodSelector = web
		np.Spec.Ingress = []networkv1.NetworkPolicyIngressRule{{Ports: vPorts(1), From: []networkv1.NetworkPolicyPeer{vPeer(1)}},
			{Ports: vPorts(2), From: []networkv1.NetworkPolicyPeer{vPeer(0)}}}
	case 8: // web accepts a plain ip block that is the exception of shape 2, at the same rule index
		np.Spec.PodSelector = web
		np.Spec.Ingress = []networkv1.NetworkPolicyIngressRule{{Ports: vPorts(1), From: []networkv1.NetworkPolicyPeer{{IPBlock: &networkv1.IPBlock{CIDR: "10.0.0.128/25"}}}}}
	default: // db accepts web
		np.Spec.PodSelector = metav1.LabelSelector{MatchLabels: map[string]string{"app": "db"}}
		np.Spec.Ingress = []networkv1.NetworkPolicyIngressRule{{From: []networkv1.NetworkPolicyPeer{{PodSelector: &web}}}}
	}
	return np
}

const vNumShapes = 9

func vAllPods() []*corev1.Pod {
	return []*corev1.Pod{
		vPod("ns1", "web", "10.0.0.1", "node1", map[string]string{"app": "web"}),
		vPod("ns1", "db", "10.0.0.2", "node1", map[string]string{"app": "db"}),
		vPod("ns2", "web2", "10.0.0.3", "node2", map[string]string{"app": "web"}),
	}
}

// vClusterState: a cluster state out of the family: 0..maxPol policies of arbitrary shapes, the db pod present, absent or
// without an address yet, web2 present or absent.
type vState struct {
	pols []*networkv1.NetworkPolicy
	db   int // 0 absent, 1 present, 2 present without an address, 3 present with another address (re-created)
	web2 bool
}

func vAnyState(names []string, shapes int) vState {
	var s vState
	for _, n := range names {
		if nondetBool() {
			s.pols = append(s.pols, vShape(n, nondetChoice(shapes)))
		}
	}
	s.db = nondetChoice(3)
	s.web2 = nondetBool()
	return s
}

func (w *vWorld) setState(s vState) {
	w.c.policies = s.pols
	w.c.pods = nil
	for _, p := range vAllPods() {
		if p.Name == "db" {
			if s.db == 0 {
				continue
			}
			if s.db == 2 {
				p.Status.PodIP = ""
			}
			if s.db == 3 {
				p.Status.PodIP = "10.0.0.9"
			}
		}
		if p.Name == "web2" && !s.web2 {
			continue
		}
		w.c.pods = append(w.c.pods, p)
	}
}

func vAddForeign(w *vWorld) {
	w.ips.CreateSet(&ipset.IPSet{Name: "FOREIGN-SET", SetType: ipset.HashIP}, true)
	w.ips.AddEntry("192.168.1.1", &ipset.IPSet{Name: "FOREIGN-SET"}, true)
	w.ipt.EnsureChain(utiliptables.TableFilter, "FOREIGN-CHAIN")
	w.ipt.EnsureRule(utiliptables.Append, utiliptables.TableFilter, "FOREIGN-CHAIN", "-s", "192.168.0.0/16", "-j", "RETURN")
	w.ipt.EnsureRule(utiliptables.Append, utiliptables.TableFilter, utiliptables.ChainForward, "-s", "172.16.0.0/12", "-j", "ACCEPT")
	w.ipt.EnsureRule(utiliptables.Append, utiliptables.TableFilter, utiliptables.ChainForward, "-j", "FOREIGN-CHAIN")
}

// vForeignIntact: every foreign line that was there is still there, in the same relative order, and the only new
// foreign-looking lines are chain declarations (galaxy's jumps from the built-in chains carry the GLX- prefix and are
// counted as galaxy-owned).
func vForeignIntact(before, after []string) bool {
	j := 0
	for _, l := range after {
		if j < len(before) && l == before[j] {
			j++
		} else if l != "" && !strings.HasPrefix(l, ":") {
			return false
		}
	}
	return j == len(before)
}

type vC15 struct {
	w        *vWorld
	st       *vStrictIPT
	ss       *vStrictIPSet
	vanished bool // a pod with chains went away and its delete event was missed (known finding)
}

// compareWithFresh: the state of the node equals that of a node freshly synchronised with the same cluster state.
func (h *vC15) compareWithFresh(s vState, when string) {
	a, _, _ := vNewStrictWorld()
	a.setState(s)
	a.syncAll()
	ownedA, _ := vSplitOwned(a.filterDump())
	ownedB, _ := vSplitOwned(h.w.filterDump())
	verifKnown("kf-C15-pod-chain-of-vanished-pod", h.vanished)
	verifAssert("C15/filter-converges", vSorted(ownedA) == vSorted(ownedB), when+": galaxy-owned chains/rules depend on what existed before\nfresh:\n"+vSorted(ownedA)+"\nwith history:\n"+vSorted(ownedB)+"\nrefused: "+strings.Join(h.st.inUse, " | "))
	verifAssert("C15/ipsets-converge", a.sets(true) == h.w.sets(true), when+": galaxy-owned ipsets depend on what existed before: fresh "+a.sets(true)+" with history "+h.w.sets(true)+" refused: "+strings.Join(h.ss.inUse, " | "))
}

func (h *vC15) noDangling(when string) {
	verifAssert("C15/no-dangling-reference", len(h.st.dangling) == 0, when+": a batch of rules referenced a missing set or chain: "+strings.Join(h.st.dangling, " | "))
}

// vShapeOf: quick tier: five of the nine shapes; thorough: all of them.
func vShapeOf(name string) *networkv1.NetworkPolicy {
	if verifTier() == 0 {
		return vShapeFive(name)
	}
	return vShape(name, nondetChoice(vNumShapes))
}

func vShapeFive(name string) *networkv1.NetworkPolicy {
	return vShape(name, []int{2, 3, 4, 7, 8}[nondetChoice(5)])
}

// BOUND: cluster state before: policy np-a absent or one of the shapes (quick: 5 of the 9 shapes, thorough: all 9), policy np-b absent or present (quick: one shape, thorough: 3), db pod present / absent / without address, web2 present (thorough: or absent), fully synchronised, plus foreign state (an ipset with a member, a chain with a rule, two rules in FORWARD); cluster state after: likewise with web2 present or absent (same policy names, so policies are kept, changed, removed or added); the db pod may have gone away, been re-created (no address yet / another address) or lost its address (evicted), with its delete / update event delivered or missed (galaxy down); one full synchronisation (the order of PolicyManager.Run), compared with the synchronisation of the final state on an empty node; then synchronised again
func VerifC15_q_syncConverges() {
	w, st, ss := vNewStrictWorld()
	h := &vC15{w: w, st: st, ss: ss}
	vAddForeign(w)
	names := []string{"np-a", "np-b"}
	second := func() *networkv1.NetworkPolicy {
		if verifTier() == 0 {
			return vShape(names[1], 4)
		}
		return vShape(names[1], []int{0, 4, 6}[nondetChoice(3)])
	}
	before := vState{db: nondetChoice(3), web2: true}
	if verifTier() > 0 {
		before.web2 = nondetBool()
	}
	if nondetBool() {
		before.pols = append(before.pols, vShapeOf(names[0]))
	}
	if nondetBool() {
		before.pols = append(before.pols, second())
	}
	w.setState(before)
	w.syncAll()
	_, foreign0 := vSplitOwned(w.filterDump())
	foreignSets0 := w.sets(false)
	h.noDangling("initial sync")

	after := vState{db: nondetChoice(4), web2: nondetBool()}
	if nondetBool() {
		after.pols = append(after.pols, vShapeOf(names[0]))
	}
	if nondetBool() {
		after.pols = append(after.pols, second())
	}
	// galaxy was either running (the delete event of a pod that went away or was re-created is delivered) or down
	// (no event)
	missed := nondetBool()
	h.vanished = missed && before.db == 1 && after.db != 1
	// a pod that had an address and has none now is either a re-created pod (delete event) or the same pod that lost
	// its address (evicted: an update event)
	evicted := before.db == 1 && after.db == 2 && nondetBool()
	gone := w.c.pods
	if missed {
		w.restartManager() // galaxy was down: the next synchronisation is that of a new process
	}
	w.setState(after)
	for _, p := range gone {
		if p.Name != "db" || missed {
			continue
		}
		if evicted {
			for _, q := range w.c.pods {
				if q.Name == "db" {
					_ = w.pm.UpdatePod(p, q)
				}
			}
		} else if before.db == 1 && after.db != 1 || after.db == 0 {
			_ = w.pm.DeletePod(p)
		}
	}
	w.syncAll()
	verifReach("resynced")
	h.noDangling("resync")
	h.compareWithFresh(after, "after one full synchronisation")
	_, foreign1 := vSplitOwned(w.filterDump())
	verifAssert("C15/foreign-rules-untouched", vForeignIntact(foreign0, foreign1), "a foreign chain or rule was modified:\nbefore:\n"+strings.Join(foreign0, "\n")+"\nafter:\n"+strings.Join(foreign1, "\n"))
	verifAssert("C15/foreign-sets-untouched", w.sets(false) == foreignSets0, "a foreign ipset was modified: "+w.sets(false))
	f1, s1 := w.filterDump(), w.sets(true)
	w.syncAll()
	verifAssert("C15/idempotent", w.filterDump() == f1 && w.sets(true) == s1, "synchronising again changed rules or sets:\n"+f1+"\n---\n"+w.filterDump())
	h.noDangling("second resync")
}

// BOUND: a synchronised node (0..1 policy out of 5 of the 9 shapes, db present / absent / without address) receives 1..2 events (quick) or 1..3 (thorough) out of {policy added, policy changed, policy deleted, db pod added, db pod gets its address, db pod deleted, pod web2 of another namespace and node added or deleted}, each delivered to the real handler of event.go after the listers changed; after every event the node is compared with a freshly synchronised node; every batch is checked by the strict iptables layer
func VerifC15_q_eventsConverge() {
	w, st, ss := vNewStrictWorld()
	h := &vC15{w: w, st: st, ss: ss}
	vAddForeign(w)
	s := vState{db: nondetChoice(3), web2: true}
	if nondetBool() {
		s.pols = append(s.pols, vShapeFive("np-a"))
	}
	w.setState(s)
	w.syncAll()
	_, foreign0 := vSplitOwned(w.filterDump())
	foreignSets0 := w.sets(false)
	steps := 2
	if verifTier() > 0 {
		steps = 3
	}
	n := 1 + nondetChoice(steps)
	for i := 0; i < n; i++ {
		when := ""
		switch nondetChoice(6) {
		case 5: // web2 (other namespace, other node, labelled app=web) appears or goes away
			var old *corev1.Pod
			for _, p := range w.c.pods {
				if p.Name == "web2" {
					old = p
				}
			}
			s.web2 = !s.web2
			w.setState(s)
			if old != nil {
				_ = w.pm.DeletePod(old)
				when = "pod of another namespace deleted"
			} else {
				for _, p := range w.c.pods {
					if p.Name == "web2" {
						_ = w.pm.AddPod(p)
						_ = w.pm.UpdatePod(p, p)
					}
				}
				when = "pod of another namespace added"
			}
		case 0: // a policy appears
			verifAssume(len(s.pols) < 2)
			name := "np-a"
			if len(s.pols) == 1 && s.pols[0].Name == "np-a" {
				name = "np-b"
			}
			np := vShapeFive(name)
			s.pols = append(s.pols, np)
			w.setState(s)
			_ = w.pm.AddPolicy(np)
			when = "policy added"
		case 1: // a policy changes
			verifAssume(len(s.pols) > 0)
			old := s.pols[0]
			np := vShapeFive(old.Name)
			s.pols = append([]*networkv1.NetworkPolicy{np}, s.pols[1:]...)
			w.setState(s)
			_ = w.pm.UpdatePolicy(old, np)
			when = "policy changed"
		case 2: // a policy goes away
			verifAssume(len(s.pols) > 0)
			old := s.pols[0]
			s.pols = s.pols[1:]
			w.setState(s)
			_ = w.pm.DeletePolicy(old)
			when = "policy deleted"
		case 3: // the db pod appears, gets its address, or changes labels
			var old *corev1.Pod
			for _, p := range w.c.pods {
				if p.Name == "db" {
					old = p
				}
			}
			verifAssume(s.db != 1)
			if s.db == 0 {
				s.db = 2
			} else {
				s.db = 1
			}
			w.setState(s)
			var cur *corev1.Pod
			for _, p := range w.c.pods {
				if p.Name == "db" {
					cur = p
				}
			}
			if old == nil {
				_ = w.pm.AddPod(cur)
				old = cur
			}
			_ = w.pm.UpdatePod(old, cur)
			when = "pod added or updated"
		default: // the db pod goes away
			verifAssume(s.db != 0)
			var old *corev1.Pod
			for _, p := range w.c.pods {
				if p.Name == "db" {
					old = p
				}
			}
			s.db = 0
			w.setState(s)
			_ = w.pm.DeletePod(old)
			when = "pod deleted"
		}
		verifReach("event-handled")
		h.noDangling(when)
		h.compareWithFresh(s, "after event "+when)
	}
	_, foreign1 := vSplitOwned(w.filterDump())
	verifAssert("C15/foreign-rules-untouched", vForeignIntact(foreign0, foreign1), "a foreign chain or rule was modified")
	verifAssert("C15/foreign-sets-untouched", w.sets(false) == foreignSets0, "a foreign ipset was modified: "+w.sets(false))
}
