package floatingip

import (
	"net"

	"tkestack.io/galaxy/pkg/utils/nets"
)

// C08 (unit level): AllocateInSubnetsAndIPRange hands out exactly one fresh IP per requested range, the
// i-th inside the i-th range, all routable from the node subnet, in request order -- or nothing at all.

type vReq struct{ lo, hi int } // indices into w.ips (ascending addresses)

// vDisjointRequests picks k pairwise-disjoint ranges over the topology's addresses, in any order.
func (w *vWorld) vDisjointRequests(k int) []vReq {
	var sorted []vReq
	next := 0
	for i := 0; i < k; i++ {
		remaining := len(w.ips) - next
		verifAssume(remaining > 0)
		lo := next + nondetChoice(remaining)
		hi := lo + nondetChoice(len(w.ips)-lo)
		sorted = append(sorted, vReq{lo, hi})
		next = hi + 1
	}
	// permutation: rotate and optionally reverse
	rot := nondetChoice(k)
	out := make([]vReq, k)
	for i := range sorted {
		out[(i+rot)%k] = sorted[i]
	}
	if k > 1 && nondetChoice(2) == 1 {
		for i, j := 0, k-1; i < j; i, j = i+1, j-1 {
			out[i], out[j] = out[j], out[i]
		}
	}
	return out
}

// BOUND: quick: 2 topologies, thorough: 4 topologies (3-4 IPs); k = 1..3 pairwise-disjoint requested ranges with endpoints among the configured addresses (ranges may span pools and gaps), any order; symbolic pre-state (any subset allocated, symbolic owners); any node subnet incl. one no pool lists; at most one FloatingIP creation fails at a symbolic position, and optionally the store already holds somebody else's object for the first address of one requested range (the creation answers AlreadyExists)
// ASSUME: C08: requested ranges are pairwise disjoint (property quantifier); AllocateInSubnetsAndIPRange is called for ranges the key does not hold yet
func VerifC08_q_allOrNothing() {
	nTopo := VNumTopologies
	if verifTier() == 0 {
		nTopo = 2 // quick: the topologies with a single pod subnet (a range spanning two pod subnets walks 65k addresses)
	}
	w := vNewWorld(nondetChoice(nTopo))
	w.symbolicStore(false)
	if err := w.configure(); err != nil {
		return
	}
	verifAssume(w.agree())
	k := nondetChoice(3) + 1
	reqs := w.vDisjointRequests(k)
	var ipranges [][]nets.IPRange
	for _, r := range reqs {
		ipranges = append(ipranges, []nets.IPRange{{First: net.ParseIP(w.ips[r.lo]), Last: net.ParseIP(w.ips[r.hi])}})
	}
	key := nondetPick(vKeys...)
	subnet := w.anySubnet()
	attr := vAnyAttr()
	before := w.snapshot()
	w.store.Only = "create"
	w.store.FaultAt = nondetInt(0, 3)
	// a creation may also fail because the store already holds an object for a free address that the tables have not
	// heard of yet (an administrator's reservation whose watch event is still under way, another writer)
	foreign := ""
	if nondetBool() {
		r := reqs[nondetChoice(k)]
		foreign = w.ips[r.lo]
		if _, taken := w.store.Objs[foreign]; taken {
			foreign = ""
		} else {
			obj := newFIPCrd(foreign)
			obj.Spec.Key = "reserved-by-admin"
			w.store.Objs[foreign] = obj
		}
	}
	ips, err := w.ipam.AllocateInSubnetsAndIPRange(key, subnet, ipranges, attr)
	verifReach("returned")
	if foreign != "" {
		// the foreign object is the other writer's: it must survive, and the address must not be handed out
		obj, still := w.store.Objs[foreign]
		verifAssert("C08/foreign-object-kept", still && obj.Spec.Key == "reserved-by-admin", "an object another writer created for a free address was overwritten or deleted by the allocation")
		for _, ip := range ips {
			verifAssert("C08/foreign-not-handed-out", ip.String() != foreign, "an address whose store object belongs to somebody else was handed out")
		}
		delete(w.store.Objs, foreign) // taken out again so that the memory == store comparison below is about the allocation itself
		if f, inMem := w.ipam.allocatedFIPs[foreign]; inMem {
			verifAssert("C08/foreign-not-recorded?", f.Key != key, "an address whose store object belongs to somebody else is recorded for the key in memory")
		}
	}
	verifAssert("C08/agree", w.agree(), "memory and store disagree after a multi-IP allocation")
	after := w.snapshot()
	if err != nil {
		verifAssert("C08/nothing-on-failure", vSnapEqual(before, after), "a failed multi-IP allocation left some IP allocated")
		return
	}
	verifReach("allocated")
	verifAssert("C08/count", len(ips) == k, "number of allocated IPs differs from the number of requested ranges")
	for i := 0; i < len(ips) && i < k; i++ {
		s := ips[i].String()
		idx := -1
		for j, c := range w.ips {
			if c == s {
				idx = j
			}
		}
		verifAssert("C08/in-range", idx >= reqs[i].lo && idx <= reqs[i].hi, "the i-th IP is not inside the i-th requested range")
		for j := 0; j < i; j++ {
			verifAssert("C08/distinct", !ips[j].Equal(ips[i]), "the same IP was returned for two ranges")
		}
		if idx < 0 {
			continue
		}
		verifAssert("C08/fresh", !before[idx].alloc, "an IP that was already allocated was handed out")
		f := w.ipam.allocatedFIPs[s]
		verifAssert("C08/owned", f != nil && verifAnd(f.Key == key, verifAnd(f.PodUid == attr.Uid, f.NodeName == attr.NodeName)), "allocated IP is not recorded for the key with the given attributes")
		verifAssert("C08/routable", f != nil && f.pool.nodeSubnets.Has(subnet.String()), "allocated IP belongs to a pool that does not list the node subnet")
	}
	// nothing else changed
	for i := range w.ips {
		taken := false
		for _, ip := range ips {
			if ip.String() == w.ips[i] {
				taken = true
			}
		}
		if !taken {
			verifAssert("C08/others-untouched", vSnapEqual(before[i:i+1], after[i:i+1]), "an IP outside the result changed owner")
		}
	}
}
