package floatingip

// C20 through the public decoding path only (encoding/json -> UnmarshalJSON -> validation): kept apart from
// zz_verif_C20.go, which calls the unexported validator directly, so that these harnesses survive a change of that
// function's signature.

import (
	"encoding/json"

	"tkestack.io/galaxy/pkg/utils/nets"
)

// BOUND: finite family: every pool of the 4 harness topologies plus two edge pools (a range ending at 255.255.255.255, a single address in a /30), optionally after one InsertIP / RemoveIP of an address next to a range end; the pool is encoded with the real MarshalJSON and decoded with the real UnmarshalJSON (which validates with fipCheck): the decoder accepts what the encoder wrote and yields the same ranges, gateway, mask, VLAN and node subnets
// ASSUME: C20: the JSON text codec under the engine is the engine's tag-aware tree codec (real text for concrete values); native replays use encoding/json
func VerifC20_q_jsonRoundTrip() {
	var pools []*FloatingIPPool
	for t := 0; t < VNumTopologies; t++ {
		ps, _, _ := VTopology(t)
		pools = append(pools, ps...)
	}
	pools = append(pools, vPool([]string{"10.0.1.0/24"}, "255.255.255.1", "255.255.255.0/24", 5, "255.255.255.10~255.255.255.12", "255.255.255.254~255.255.255.255"),
		vPool([]string{"10.0.1.0/24", "10.0.2.0/24"}, "10.9.0.1", "10.9.0.0/30", 0, "10.9.0.2"))
	p := pools[nondetChoice(len(pools))]
	switch nondetChoice(3) {
	case 1: // grow a range by the address right after its end (may close a gap and merge)
		r := p.IPRanges[nondetChoice(len(p.IPRanges))]
		p.InsertIP(nets.IntToIP(nets.IPToInt(r.Last) + 1))
	case 2: // shrink / split
		r := p.IPRanges[nondetChoice(len(p.IPRanges))]
		p.RemoveIP(nets.IntToIP(nets.IPToInt(r.First) + uint32(nondetChoice(2))))
	}
	if len(p.IPRanges) == 0 {
		return
	}
	data, err := json.Marshal(p)
	verifAssert("C20/json-encodes", err == nil, "MarshalJSON failed for a valid pool")
	if err != nil {
		return
	}
	var q FloatingIPPool
	err = json.Unmarshal(data, &q)
	verifReach("decoded")
	verifAssert("C20/json-decoder-accepts-encoder", err == nil, "UnmarshalJSON rejects what MarshalJSON wrote for a valid pool: "+string(data))
	if err != nil {
		return
	}
	same := len(q.IPRanges) == len(p.IPRanges) && q.Gateway.Equal(p.Gateway) && q.Mask.String() == p.Mask.String() && q.Vlan == p.Vlan && len(q.NodeSubnets) == len(p.NodeSubnets)
	for i := 0; same && i < len(p.IPRanges); i++ {
		same = q.IPRanges[i].First.Equal(p.IPRanges[i].First) && q.IPRanges[i].Last.Equal(p.IPRanges[i].Last)
	}
	for i := 0; same && i < len(p.NodeSubnets); i++ {
		same = q.NodeSubnets[i].String() == p.NodeSubnets[i].String()
	}
	verifAssert("C20/json-round-trip", same, "decoding the encoded pool yields another pool: "+string(data))
}

// BOUND: finite family of configuration texts: a valid pool; and the same pool with one defect out of {gateway outside the subnet field's network, a range outside the subnet, ranges unsorted, ranges overlapping, ranges adjacent (mergeable), reversed range, range ending at 255.255.255.255 followed by another range, missing gateway, missing subnet, no node subnet}; the decoder accepts the valid text and rejects every defective one; every accepted pool has all its ranges inside its own subnet (IPNet()) and Contains agrees with the ranges at their end points
func VerifC20_q_configDecodeValidates() {
	const nodeSubnets = `"nodeSubnets":["10.0.1.0/24"]`
	texts := []struct {
		text  string
		valid bool
	}{
		{`{` + nodeSubnets + `,"ips":["10.1.0.10~10.1.0.12","10.1.0.20"],"subnet":"10.1.0.0/24","gateway":"10.1.0.1","vlan":2}`, true},
		{`{` + nodeSubnets + `,"ips":["10.1.0.10~10.1.0.12"],"subnet":"10.1.0.0/24","gateway":"10.1.1.1"}`, false},
		{`{` + nodeSubnets + `,"ips":["10.1.1.10"],"subnet":"10.1.0.0/24","gateway":"10.1.0.1"}`, false},
		{`{` + nodeSubnets + `,"ips":["10.1.0.20","10.1.0.10~10.1.0.12"],"subnet":"10.1.0.0/24","gateway":"10.1.0.1"}`, false},
		{`{` + nodeSubnets + `,"ips":["10.1.0.10~10.1.0.12","10.1.0.12~10.1.0.14"],"subnet":"10.1.0.0/24","gateway":"10.1.0.1"}`, false},
		{`{` + nodeSubnets + `,"ips":["10.1.0.10~10.1.0.12","10.1.0.13"],"subnet":"10.1.0.0/24","gateway":"10.1.0.1"}`, false},
		{`{` + nodeSubnets + `,"ips":["10.1.0.12~10.1.0.10"],"subnet":"10.1.0.0/24","gateway":"10.1.0.1"}`, false},
		{`{` + nodeSubnets + `,"ips":["255.255.255.250~255.255.255.255","255.255.255.10"],"subnet":"255.255.255.0/24","gateway":"255.255.255.1"}`, false},
		{`{` + nodeSubnets + `,"ips":["10.1.0.10"],"subnet":"10.1.0.0/24"}`, false},
		{`{` + nodeSubnets + `,"ips":["10.1.0.10"],"gateway":"10.1.0.1"}`, false},
		{`{"ips":["10.1.0.10"],"subnet":"10.1.0.0/24","gateway":"10.1.0.1"}`, false},
	}
	c := texts[nondetChoice(len(texts))]
	var p FloatingIPPool
	err := json.Unmarshal([]byte(c.text), &p)
	verifReach("decoded-text")
	verifAssert("C20/decode-accepts-iff-valid", (err == nil) == c.valid, "the decoder's verdict on a configuration text differs from its validity: "+c.text)
	if err != nil {
		return
	}
	subnet := p.IPNet()
	for _, r := range p.IPRanges {
		verifAssert("C20/decoded-range-in-own-subnet", subnet.Contains(r.First) && subnet.Contains(r.Last), "an accepted pool has a range outside its own subnet: "+c.text)
		verifAssert("C20/decoded-contains-ends", p.Contains(r.First) && p.Contains(r.Last), "Contains rejects an end point of an accepted range")
		before := nets.IntToIP(nets.IPToInt(r.First) - 1)
		verifAssert("C20/decoded-excludes-neighbour", !p.Contains(before) || nets.IPToInt(r.First) == 0, "Contains accepts the address right before an accepted range that no range lists")
	}
}

// BOUND: finite family of range strings: the valid forms (single address, first~last, first~first, both ends of the address space) and malformed ones (empty, separator only, missing end, reversed, three parts, trailing separator, trailing garbage, blanks, a CIDR, a hostname; IPv6 text is outside the claim); ParseIPRange accepts exactly the valid forms and String() of the result is the canonical text; the same through IPRange's and the pool's JSON decoders
func VerifC20_q_rangeStringForms() {
	forms := []struct {
		text  string
		canon string // "" = must be rejected
	}{
		{"10.1.0.10", "10.1.0.10"},
		{"10.1.0.10~10.1.0.12", "10.1.0.10~10.1.0.12"},
		{"10.1.0.10~10.1.0.10", "10.1.0.10"},
		{"0.0.0.0~255.255.255.255", "0.0.0.0~255.255.255.255"},
		{"", ""},
		{"~", ""},
		{"10.1.0.10~", ""},
		{"~10.1.0.10", ""},
		{"10.1.0.12~10.1.0.10", ""},
		{"10.1.0.10~10.1.0.12~10.1.0.14", ""},
		{"10.1.0.10~10.1.0.12~", ""},
		{"10.1.0.10~10.1.0.12~x", ""},
		{"10.1.0.10 ~10.1.0.12", ""},
		{"10.1.0.0/24", ""},
		{"localhost", ""},
	}
	c := forms[nondetChoice(len(forms))]
	r := nets.ParseIPRange(c.text)
	verifReach("range-parsed")
	verifAssert("C20/range-string-accepted-iff-valid", (r != nil) == (c.canon != ""), "ParseIPRange's verdict on "+c.text+" differs from the documented forms")
	if r != nil && c.canon != "" {
		verifAssert("C20/range-string-canonical", r.String() == c.canon, "String() of the parsed range "+c.text+" is "+r.String()+", expected "+c.canon)
	}
	// the same text inside a pool configuration
	text := `{"nodeSubnets":["10.0.1.0/24"],"ips":["` + c.text + `"],"subnet":"0.0.0.0/1","gateway":"10.1.0.1"}`
	var p FloatingIPPool
	err := json.Unmarshal([]byte(text), &p)
	if c.canon == "" {
		verifAssert("C20/pool-rejects-malformed-range", err != nil, "the pool decoder accepts the malformed range string "+c.text)
	}
}

// vSamePool: same ranges, gateway, mask, vlan and node subnets (in order).
func vSamePool(p, q *FloatingIPPool) bool {
	same := len(q.IPRanges) == len(p.IPRanges) && q.Gateway.Equal(p.Gateway) && q.Mask.String() == p.Mask.String() && q.Vlan == p.Vlan && len(q.NodeSubnets) == len(p.NodeSubnets)
	for i := 0; same && i < len(p.IPRanges); i++ {
		same = q.IPRanges[i].First.Equal(p.IPRanges[i].First) && q.IPRanges[i].Last.Equal(p.IPRanges[i].Last)
	}
	for i := 0; same && i < len(p.NodeSubnets); i++ {
		same = q.NodeSubnets[i].String() == p.NodeSubnets[i].String()
	}
	return same
}

// BOUND: finite family of accepted configuration texts that are not what the encoder writes: node subnets written with host bits, the same node subnet listed twice (same or different spelling), the legacy routableSubnet field, single-address and first~first ranges, mergeable-free ranges in a /30 and at the end of the address space, vlan absent; each is decoded, the accepted pool is encoded and decoded again and must be the same pool (and a second encoding the same text)
func VerifC20_q_acceptedTextRoundTrip() {
	const tail = `"ips":["10.1.0.10~10.1.0.12","10.1.0.20"],"subnet":"10.1.0.0/24","gateway":"10.1.0.1"`
	texts := []string{
		`{"nodeSubnets":["10.0.1.0/24"],` + tail + `,"vlan":2}`,
		`{"nodeSubnets":["10.0.1.7/24"],` + tail + `}`,
		`{"nodeSubnets":["10.0.1.0/24","10.0.1.0/24"],` + tail + `}`,
		`{"nodeSubnets":["10.0.1.1/24","10.0.2.0/24","10.0.1.2/24"],` + tail + `}`,
		`{"nodeSubnets":["10.0.2.0/24","10.0.1.0/24"],` + tail + `,"vlan":4094}`,
		`{"routableSubnet":"10.0.1.0/24",` + tail + `}`,
		`{"routableSubnet":"10.0.1.9/24",` + tail + `}`,
		`{"nodeSubnets":["10.0.1.0/24"],"ips":["10.1.0.10~10.1.0.10"],"subnet":"10.1.0.0/24","gateway":"10.1.0.1"}`,
		`{"nodeSubnets":["10.0.1.0/24"],"ips":["10.9.0.2"],"subnet":"10.9.0.0/30","gateway":"10.9.0.1"}`,
		`{"nodeSubnets":["10.0.1.0/24"],"ips":["255.255.255.10~255.255.255.12","255.255.255.254~255.255.255.255"],"subnet":"255.255.255.0/24","gateway":"255.255.255.1","vlan":5}`,
	}
	text := texts[nondetChoice(len(texts))]
	var p FloatingIPPool
	if err := json.Unmarshal([]byte(text), &p); err != nil {
		verifAssert("C20/valid-text-accepted?", false, "a valid configuration text was rejected: "+text)
		return
	}
	data, err := json.Marshal(&p)
	verifAssert("C20/accepted-pool-encodes", err == nil, "MarshalJSON failed for an accepted pool: "+text)
	if err != nil {
		return
	}
	var q FloatingIPPool
	err = json.Unmarshal(data, &q)
	verifReach("accepted-text-re-decoded")
	verifAssert("C20/accepted-pool-decodes-again", err == nil, "UnmarshalJSON rejects the encoding of a pool it accepted: "+string(data))
	if err != nil {
		return
	}
	verifAssert("C20/accepted-pool-round-trip", vSamePool(&p, &q), "encoding an accepted pool and decoding it again yields another pool: "+text+" => "+string(data))
	data2, err := json.Marshal(&q)
	verifAssert("C20/accepted-pool-encoding-stable", err == nil && string(data2) == string(data), "the encoding of an accepted pool changes when it is decoded and encoded again: "+text)
}
