package floatingip

import (
	"net"

	"github.com/prometheus/client_golang/prometheus"
	"tkestack.io/galaxy/pkg/api/galaxy/constant"
	"tkestack.io/galaxy/pkg/utils/nets"
)

// C19 (allocation tables): every pair of crdIpam entry points, run by two logical threads on one shared instance,
// touches the shared tables (allocatedFIPs, unallocatedFIPs, the pool list, the FloatingIP records and the pools)
// only under a common lock.  Arguments are drawn before the concurrent phase (natively both closures run
// concurrently under the race detector).

const vNumRaceOps = 17

// prepRaceOp draws the arguments of one entry point and returns the call.  Quick tier: the key is one that holds an
// IP or one that does not, the IP is the allocated or a free one; thorough: any key / IP / subnet of the family.
func (w *vWorld) prepRaceOp(op int) func() {
	key, key2 := nondetPick(vKeys[0], vKeys[2]), nondetPick(vKeys[2], vKeys[0])
	subnet := vSubnet(w.nodeSubnets[0])
	attr := Attr{NodeName: "n1", Uid: "u1", Policy: constant.ReleasePolicyPodDelete}
	var ip net.IP
	needsIP := op == 0 || op == 4 || op == 5 || op == 6 || op == 10
	if verifTier() > 0 {
		key, key2 = nondetPick(vKeys...), nondetPick(vKeys...)
		subnet = w.anySubnet()
		attr = vAnyAttr()
		if needsIP {
			ip = w.anyIP()
		}
	} else if needsIP {
		ip = net.ParseIP(w.ips[nondetChoice(2)])
	}
	switch op {
	case 0:
		return func() { _ = w.ipam.AllocateSpecificIP(key, ip, attr) }
	case 1:
		return func() { _, _ = w.ipam.AllocateInSubnet(key, subnet, attr) }
	case 2:
		return func() { _ = w.ipam.AllocateInSubnetWithKey(key, key2, subnet.String(), attr) }
	case 3:
		return func() { _, _ = w.ipam.ReserveIP(key, key2, attr) }
	case 4:
		return func() { _ = w.ipam.UpdateAttr(key, ip, attr) }
	case 5:
		return func() { _ = w.ipam.Release(key, ip) }
	case 6:
		m := map[string]string{ip.String(): key, w.ips[0]: key2}
		return func() { _, _, _ = w.ipam.ReleaseIPs(m) }
	case 7:
		req := [][]nets.IPRange{{*nets.ParseIPRange(w.ips[nondetChoice(len(w.ips))])}}
		return func() { _, _ = w.ipam.AllocateInSubnetsAndIPRange(key, subnet, req, attr) }
	case 8:
		return func() { _ = w.configure() }
	case 9:
		return func() { _, _ = w.ipam.First(key) }
	case 10:
		return func() { _, _ = w.ipam.ByIP(ip) }
	case 11:
		return func() { _, _ = w.ipam.ByPrefix(key) }
	case 12:
		return func() { _, _ = w.ipam.ByKeyword("ns") }
	case 13:
		nodeIP := net.ParseIP("10.0.1.7")
		return func() { _ = w.ipam.NodeSubnet(nodeIP) }
	case 14:
		req := [][]nets.IPRange{{*nets.ParseIPRange(w.ips[0])}}
		return func() {
			_, _ = w.ipam.NodeSubnetsByIPRanges(req)
			_, _ = w.ipam.ByKeyAndIPRanges(key, req)
		}
	case 15: // metrics scrape
		return func() {
			ch := make(chan prometheus.Metric, 64)
			w.ipam.Collect(ch)
		}
	default: // watch event of an administrator's reservation / its removal
		obj := newFIPCrd(w.ips[0])
		obj.Labels = map[string]string{constant.ReserveFIPLabel: ""}
		obj.Spec.Key = "reserved-by-admin"
		unassign := nondetBool()
		return func() {
			if unassign {
				_ = w.ipam.handleFIPUnassign(obj)
			} else {
				_ = w.ipam.handleFIPAssign(obj)
			}
		}
	}
}

// BOUND: topology T1 (quick) or any of the 4 topologies (thorough); pre-state: the first IP allocated (quick) or none / the first / all IPs allocated (thorough); every unordered pair of entry points out of 17 (9 mutators incl. ConfigurePool, 6 queries, metrics Collect, reservation watch events) with arguments drawn from the topology, run as two logical threads; shared cells = everything reachable from the crdIpam instance before the concurrent phase plus the package-level variables of the module
// ASSUME: lock-set discipline: happens-before edges other than mutexes are ignored (candidates are confirmed with the Go race detector before being reported); memory allocated during the concurrent phase and published to the other thread is not tracked; accesses inside the standard library's and dependencies' own internals are tracked only when they go through Go loads/stores the engine executes
func VerifC19_q_ipamPairs() {
	topo := 0
	if verifTier() > 0 {
		topo = nondetChoice(VNumTopologies)
	}
	w := vNewWorld(topo)
	if err := w.configure(); err != nil {
		panic(err)
	}
	// pre-state: quick: the first IP allocated; thorough: none, the first, or all IPs allocated (to different keys)
	pre := 1
	if verifTier() > 0 {
		pre = nondetChoice(3)
	}
	for n, ip := range w.ips {
		if pre == 0 || pre == 1 && n > 0 {
			break
		}
		if err := w.ipam.AllocateSpecificIP(vKeys[(n*2)%len(vKeys)], net.ParseIP(ip), Attr{NodeName: "n1", Uid: "u1"}); err != nil {
			panic(err)
		}
	}
	// unordered pairs: the lock sets do not depend on which of the two runs first
	i := nondetChoice(vNumRaceOps)
	j := nondetChoice(vNumRaceOps)
	verifAssume(i <= j)
	a := w.prepRaceOp(i)
	b := w.prepRaceOp(j)
	verifRace([]interface{}{w.ipam}, a, b)
}

// BOUND: topology T1, the first IP allocated; a metric scrape (Collect) or a query (ByPrefix, ByKeyword, First, ByKeyAndIPRanges) runs as one logical thread while one of {AllocateSpecificIP, AllocateInSubnet, Release, ReleaseIPs, ConfigurePool, a reservation watch event} runs as the other: an unsynchronised map access between them makes the Go runtime abort the process ("concurrent map iteration and map write"), which no request may cause (C18); a read lock taken again by a goroutine that already holds it is reported as well (it deadlocks against a queued writer; confirmed by a concurrent stress run under a watchdog); same lock-set analysis and race-detector confirmation as VerifC19_q_ipamPairs
func VerifC18_q_scrapeVsMutators() {
	w := vNewWorld(0)
	if err := w.configure(); err != nil {
		panic(err)
	}
	if err := w.ipam.AllocateSpecificIP(vKeys[0], net.ParseIP(w.ips[0]), Attr{NodeName: "n1", Uid: "u1"}); err != nil {
		panic(err)
	}
	reader := []int{15, 11, 12, 9, 14}[nondetChoice(5)]
	writer := []int{5, 8, 6, 0, 1, 16}[nondetChoice(6)] // Release and ConfigurePool first: they take the write lock on every call
	a := w.prepRaceOp(reader)
	b := w.prepRaceOp(writer)
	verifRace([]interface{}{w.ipam}, a, b)
}
