package floatingip

import (
	"net"

	"tkestack.io/galaxy/pkg/api/galaxy/constant"
	"tkestack.io/galaxy/pkg/utils/nets"
)

// C05 (part 1): after every completed crdIpam operation, successful or failed, memory and store agree,
// and a restart reconstructs the same table. One inductive step per mutator from a symbolic pre-state.

func vAnyAttr() Attr {
	pol := nondetU16()
	verifAssume(pol <= 2)
	return Attr{NodeName: nondetPick(vNodes...), Uid: nondetPick(vUids...), Policy: constant.ReleasePolicy(pol)}
}

func (w *vWorld) anyIP() net.IP {
	// any configured IP, or one address outside the configuration
	k := nondetChoice(len(w.ips) + 1)
	if k == len(w.ips) {
		return net.ParseIP("10.9.9.9")
	}
	return net.ParseIP(w.ips[k])
}

func (w *vWorld) anySubnet() *net.IPNet {
	k := nondetChoice(len(w.nodeSubnets) + 1)
	if k == len(w.nodeSubnets) {
		return vSubnet("10.0.9.0/24") // a node subnet no pool lists
	}
	return vSubnet(w.nodeSubnets[k])
}

const vNumOps = 9

func (w *vWorld) doOp(op int) error {
	switch op {
	case 0:
		return w.ipam.AllocateSpecificIP(nondetPick(vKeys...), w.anyIP(), vAnyAttr())
	case 1:
		_, err := w.ipam.AllocateInSubnet(nondetPick(vKeys...), w.anySubnet(), vAnyAttr())
		return err
	case 2:
		return w.ipam.AllocateInSubnetWithKey(nondetPick(vKeys...), nondetPick(vKeys...), w.anySubnet().String(), vAnyAttr())
	case 3:
		_, err := w.ipam.ReserveIP(nondetPick(vKeys...), nondetPick(vKeys...), vAnyAttr())
		return err
	case 4:
		return w.ipam.UpdateAttr(nondetPick(vKeys...), w.anyIP(), vAnyAttr())
	case 5:
		return w.ipam.Release(nondetPick(vKeys...), w.anyIP())
	case 6:
		m := map[string]string{}
		for i := 0; i < 2; i++ {
			m[w.anyIP().String()] = nondetPick(vKeys...)
		}
		_, _, err := w.ipam.ReleaseIPs(m)
		return err
	case 7:
		// one or two requested ranges chosen among the topology's addresses
		var req [][]nets.IPRange
		n := nondetChoice(2) + 1
		for i := 0; i < n; i++ {
			a := w.ips[nondetChoice(len(w.ips))]
			req = append(req, []nets.IPRange{*nets.ParseIPRange(a)})
		}
		_, err := w.ipam.AllocateInSubnetsAndIPRange(nondetPick(vKeys...), w.anySubnet(), req, vAnyAttr())
		return err
	default:
		// reload with the same configuration
		return w.configure()
	}
}

// BOUND: 4 pool topologies (3-4 IPs, 1-2 pools, shared pod subnet, shared node subnet, /32 node subnet, two-range pool); pre-state: any subset of IPs allocated with symbolic owner key (5 keys), policy 0..2, uid (3), node (3); one operation with symbolic arguments; at most one API call fails cleanly at a symbolic position 1..8
// ASSUME: C05: labels and timestamps are not part of "agree"
func VerifC05_q_stepAgree() {
	w := vNewWorld(nondetChoice(VNumTopologies))
	w.symbolicStore(false)
	if err := w.configure(); err != nil {
		return
	}
	verifAssume(w.agree()) // memory := real ConfigurePool(store); assumed as well in case ConfigurePool is what changed
	op := nondetChoice(vNumOps)
	w.store.FaultAt = nondetInt(0, 8)
	_ = w.doOp(op)
	verifReach("op-returned")
	verifAssert("C05/agree", w.agree(), "memory and store disagree after an operation")
	w.store.FaultAt = 0
	// the same instance still answers (a lock left held by a failed operation would block here)
	_, _ = w.ipam.ByIP(net.ParseIP(w.ips[0]))
	_, _, _ = w.ipam.ReleaseIPs(map[string]string{})
	before := w.snapshot()
	if err := w.restart(); err != nil {
		return
	}
	verifAssert("C05/restart", vSnapEqual(before, w.snapshot()), "a restarted IPAM reconstructs a different allocation table")
}

// BOUND: same pre-states; ConfigurePool (start-up) itself: the table it builds from any store agrees with that store, with one clean fault at a symbolic position
func VerifC05_q_configureAgree() {
	w := vNewWorld(nondetChoice(VNumTopologies))
	w.symbolicStore(true)
	w.store.FaultAt = nondetInt(0, 3)
	err := w.configure()
	verifReach("configured")
	if err != nil {
		verifAssert("C05/configure-error-only-on-fault", w.store.Faulted, "ConfigurePool failed without an API failure")
		return
	}
	verifAssert("C05/configure-agree", w.agree(), "ConfigurePool built a table that disagrees with the store")
}

// BOUND: 4 pool topologies; pre-state: any subset of IPs allocated (symbolic owner, policy, uid, node), memory built from it; then another writer (a second galaxy-ipam instance, an administrator) creates an object for an address the tables take for free (symbolic owner key out of 5), whose watch event has not arrived; one allocating operation with symbolic arguments (AllocateSpecificIP, AllocateInSubnet, AllocateInSubnetsAndIPRange with 1..2 ranges). Memory must never name an owner for an address whose stored object names another one, and the other writer's object stays as it is
func VerifC05_q_foreignObjectNotAdopted() {
	w := vNewWorld(nondetChoice(VNumTopologies))
	w.symbolicStore(false)
	if err := w.configure(); err != nil {
		return
	}
	verifAssume(w.agree())
	x := w.ips[nondetChoice(len(w.ips))]
	if _, taken := w.store.Objs[x]; taken {
		return
	}
	foreign := newFIPCrd(x)
	foreign.Spec.Key = nondetPick(vKeys...)
	foreign.Spec.Policy = constant.ReleasePolicyNever
	foreign.Spec.Attribute = vAttrText("n9", "U9")
	w.store.Objs[x] = foreign
	op := []int{0, 1, 7}[nondetChoice(3)]
	_ = w.doOp(op)
	verifReach("allocation-returned")
	for _, ip := range w.ips {
		obj, inStore := w.store.Objs[ip]
		fip, inAlloc := w.ipam.allocatedFIPs[ip]
		if inAlloc {
			verifAssert("C05/memory-owner-is-stored-owner", inStore && fip.Key == obj.Spec.Key, "memory names an owner for "+ip+" that the store does not name")
		}
	}
	obj, still := w.store.Objs[x]
	node, uid := "", ""
	if still {
		node, uid = vAttrOf(obj)
	}
	verifAssert("C05/foreign-object-untouched", still && obj.Spec.Key == foreign.Spec.Key && node == "n9" && uid == "U9", "an object another writer created for "+x+" was overwritten or deleted by an allocation")
}
