package floatingip

import (
	"net"

	"tkestack.io/galaxy/pkg/utils/nets"
)

// ASSUME: C20: addresses are IPv4 (4-byte or 16-byte IPv4-mapped form, both explored); IPv6 text is outside the claim
// ASSUME: C20: pod subnets other than 0.0.0.0/0 (prefix length >= 1), as the property states

// verifIP builds a net.IP for x in the 4-byte form (form 0) or the 16-byte IPv4-mapped form net.ParseIP returns (form 1).
func verifIP(x uint32, form int) net.IP {
	ip := nets.IntToIP(x)
	if form == 0 {
		return ip
	}
	out := make(net.IP, 16)
	out[10], out[11] = 0xff, 0xff
	copy(out[12:], ip)
	return out
}

// verifMask returns a symbolic contiguous IPv4 mask with prefix length >= 1 (as ParseCIDR produces: 4 bytes).
func verifMask() (uint32, net.IPMask) {
	m := nondetU32()
	inv := ^m
	verifAssume(inv&(inv+1) == 0) // ones followed by zeros
	verifAssume(m != 0)           // not /0
	return m, net.IPMask(nets.IntToIP(m))
}

// verifPool builds a pool with n symbolic ranges (first<=last each, as ParseIPRange guarantees) in a symbolic subnet.
func verifPool(n int, form int) (pool *FloatingIPPool, gw, mask uint32, first, last []uint32) {
	pool = &FloatingIPPool{}
	gw = nondetU32()
	var m net.IPMask
	mask, m = verifMask()
	pool.Gateway, pool.Mask = verifIP(gw, form), m
	first, last = make([]uint32, n), make([]uint32, n)
	for i := 0; i < n; i++ {
		first[i], last[i] = nondetU32(), nondetU32()
		verifAssume(first[i] <= last[i])
		pool.IPRanges = append(pool.IPRanges, nets.IPRange{First: verifIP(first[i], form), Last: verifIP(last[i], form)})
	}
	return
}

// verifRepInv is the representation invariant an accepted pool must satisfy, over plain integers.
func verifRepInv(gw, mask uint32, first, last []uint32) bool {
	ok := true
	for i := range first {
		ok = verifAnd(ok, first[i] <= last[i])
		ok = verifAnd(ok, verifAnd(first[i]&mask == gw&mask, last[i]&mask == gw&mask))
		if i > 0 {
			ok = verifAnd(ok, uint64(last[i-1])+1 < uint64(first[i]))
		}
	}
	return ok
}

// BOUND: 1..3 ranges per pool (thorough: 1..4); all 2^32 values for gateway, every contiguous mask /1../32, every range endpoint; both IP byte forms
func VerifC20_q_fipCheckAccepts() {
	n := nondetChoice(3+verifTier()) + 1
	form := nondetChoice(2)
	pool, gw, mask, first, last := verifPool(n, form)
	if fipCheck(pool) != nil {
		return
	}
	verifReach("accepted")
	size := uint64(0)
	for i := 0; i < n; i++ {
		verifAssert("C20/inside", verifAnd(first[i]&mask == gw&mask, last[i]&mask == gw&mask), "accepted a range outside the pool's subnet")
		if i > 0 {
			verifAssert("C20/sorted", uint64(last[i-1])+1 < uint64(first[i]), "accepted unsorted, overlapping or mergeable ranges")
		}
		size += uint64(last[i]-first[i]) + 1
	}
	verifAssert("C20/size", uint64(pool.Size()) == size, "Size() differs from the number of distinct addresses")
}

// BOUND: 1..3 ranges (thorough: 1..4); rejected pools: fipCheck must reject exactly the pools violating the representation invariant
func VerifC20_q_fipCheckRejectsOnlyInvalid() {
	n := nondetChoice(3+verifTier()) + 1
	form := nondetChoice(2)
	pool, gw, mask, first, last := verifPool(n, form)
	err := fipCheck(pool)
	verifReach("checked")
	verifAssert("C20/reject-iff-invalid", (err == nil) == verifRepInv(gw, mask, first, last), "fipCheck verdict differs from the representation invariant")
}

// BOUND: 1..2 ranges of width <= 3 (walk loop condition evaluated <= 4 times per range; unwinding limit 9 per branch instruction and function activation), endpoints over all 2^32 values incl. 255.255.255.255; probe address over all 2^32
func VerifC20_q_walkContainsAgree() {
	verifUnwind(9) // walkIPRanges evaluates its loop condition at most (3+1) times per range, 2 ranges in one activation
	n := nondetChoice(2) + 1
	form := nondetChoice(2)
	pool, gw, mask, first, last := verifPool(n, form)
	verifAssume(verifRepInv(gw, mask, first, last))
	total := uint64(0)
	for i := 0; i < n; i++ {
		verifAssume(last[i]-first[i] <= 2)
		total += uint64(last[i]-first[i]) + 1
	}
	var visited []uint32
	walkIPRanges(pool.IPRanges, func(ip net.IP) bool {
		visited = append(visited, nets.IPToInt(ip))
		return false
	})
	verifReach("walked")
	verifAssert("C20/walk-count", uint64(len(visited)) == total, "walk visits a different number of addresses than Size")
	verifAssert("C20/walk-size", uint64(pool.Size()) == total, "Size() differs from the number of addresses")
	x := nondetU32()
	inVisited := false
	for i, v := range visited {
		verifAssert("C20/walk-member", pool.Contains(verifIP(v, form)), "walk visits an address Contains rejects")
		if i > 0 {
			verifAssert("C20/walk-ascending", visited[i-1] < v, "walk is not strictly ascending")
		}
		inVisited = verifOr(inVisited, v == x)
	}
	verifAssert("C20/contains-iff-walked", pool.Contains(verifIP(x, form)) == inVisited, "Contains and enumeration disagree")
}

// BOUND: pre-state 0..2 ranges (thorough: 0..3) satisfying the representation invariant, inserted/removed address and probe over all 2^32
func VerifC20_q_insertRemoveIP() {
	n := nondetChoice(3 + verifTier())
	form := nondetChoice(2)
	pool, gw, mask, first, last := verifPool(n, form)
	verifAssume(verifRepInv(gw, mask, first, last))
	x, y := nondetU32(), nondetU32()
	preX := pool.Contains(verifIP(x, form))
	preY := pool.Contains(verifIP(y, form))
	insert := nondetBool()
	inSubnet := x&mask == gw&mask
	var changed bool
	if insert {
		changed = pool.InsertIP(verifIP(x, form))
		verifReach("inserted")
		verifAssert("C20/insert-result", changed == verifAnd(inSubnet, verifNot(preX)), "InsertIP result differs from (in subnet and not yet contained)")
		verifAssert("C20/insert-member", pool.Contains(verifIP(y, form)) == verifOr(preY, verifAnd(changed, y == x)), "membership after InsertIP is not pre ∪ {x}")
	} else {
		changed = pool.RemoveIP(verifIP(x, form))
		verifReach("removed")
		verifAssert("C20/remove-result", changed == preX, "RemoveIP result differs from (was contained)")
		verifAssert("C20/remove-member", pool.Contains(verifIP(y, form)) == verifAnd(preY, verifNot(verifAnd(changed, y == x))), "membership after RemoveIP is not pre minus {x}")
	}
	// representation invariant afterwards
	k := len(pool.IPRanges)
	f2, l2 := make([]uint32, k), make([]uint32, k)
	for i := 0; i < k; i++ {
		f2[i], l2[i] = nets.IPToInt(pool.IPRanges[i].First), nets.IPToInt(pool.IPRanges[i].Last)
	}
	verifAssert("C20/repinv-preserved", verifRepInv(gw, mask, f2, l2), "InsertIP/RemoveIP broke the representation invariant (inside subnet, sorted, disjoint, not mergeable)")
}

// BOUND: the pools of the 4 harness topologies are valid configurations (they are what the other harnesses start from)
func VerifC20_q_topologiesValid() {
	ps, _, _ := VTopology(nondetChoice(VNumTopologies))
	for _, p := range ps {
		verifAssert("C20/topology-valid", fipCheck(p) == nil, "fipCheck rejects a pool of the harness topologies")
	}
}
