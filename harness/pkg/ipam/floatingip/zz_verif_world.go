package floatingip

// Shared harness world for the crdIpam checks (C05, C08, C09 …): a from-scratch fake of the typed
// FloatingIP client (the "API server" for FloatingIP objects) with clean single-fault injection, a
// small family of pool topologies, and helpers that compare the in-memory tables with the store.

import (
	"context"
	"encoding/json"
	"fmt"
	"net"
	"sort"
	"sync"

	apierrors "k8s.io/apimachinery/pkg/api/errors"
	metav1 "k8s.io/apimachinery/pkg/apis/meta/v1"
	"k8s.io/apimachinery/pkg/runtime/schema"
	"tkestack.io/galaxy/pkg/api/galaxy/constant"
	"tkestack.io/galaxy/pkg/ipam/apis/galaxy/v1alpha1"
	crd_clientset "tkestack.io/galaxy/pkg/ipam/client/clientset/versioned"
	galaxyv1alpha1 "tkestack.io/galaxy/pkg/ipam/client/clientset/versioned/typed/galaxy/v1alpha1"
	"tkestack.io/galaxy/pkg/utils/nets"
)

// ASSUME: the FloatingIP store fails cleanly: a call that returns an error had no effect; Create of an existing name is AlreadyExists, Get/Update/Delete of a missing one is NotFound
// ASSUME: List returns objects ordered by name (etcd key order)

var vfGR = schema.GroupResource{Group: "galaxy.k8s.io", Resource: "floatingips"}

type VfStore struct {
	Mu      sync.Mutex // guards Objs and the counters inside the fake's methods only (never held across a hook)
	Objs    map[string]*v1alpha1.FloatingIP
	Calls   int
	FaultAt int    // the Calls-th API call fails cleanly (0 = no fault); symbolic
	Only    string // if non-empty only calls of this kind count for fault injection
	Faulted bool
	Hook    func(kind, name string) // optional interference window, called at the start of every API call
	Tick    func(kind, name string) error // if set, replaces the built-in fault counter (shared fault budget of a larger world)
	Observe func(kind string, old, new *v1alpha1.FloatingIP) // called right before an effective create/update/delete
	After   func(kind, name string)                          // called when an API call returns (second kind of interference window)
}

func (s *VfStore) after(kind, name string) {
	if s.After != nil {
		s.After(kind, name)
	}
}

func VfNewStore() *VfStore { return &VfStore{Objs: map[string]*v1alpha1.FloatingIP{}} }

func (s *VfStore) fault(kind, name string) error {
	if s.Hook != nil {
		h := s.Hook
		s.Hook = nil // at most one interference, no nesting
		h(kind, name)
	}
	if s.Tick != nil {
		return s.Tick(kind, name)
	}
	if s.Only != "" && s.Only != kind {
		return nil
	}
	s.Mu.Lock()
	defer s.Mu.Unlock()
	s.Calls++
	if s.FaultAt == s.Calls {
		s.Faulted = true
		return fmt.Errorf("injected fault: %s %s", kind, name)
	}
	return nil
}

func vfCopy(in *v1alpha1.FloatingIP) *v1alpha1.FloatingIP {
	out := &v1alpha1.FloatingIP{}
	out.TypeMeta = in.TypeMeta
	out.Name = in.Name
	out.Spec = in.Spec
	if in.Labels != nil {
		out.Labels = map[string]string{}
		for k, v := range in.Labels {
			out.Labels[k] = v
		}
	}
	return out
}

type VfClient struct {
	crd_clientset.Interface
	Store *VfStore
}

func (c *VfClient) GalaxyV1alpha1() galaxyv1alpha1.GalaxyV1alpha1Interface {
	return &vfGalaxy{Store: c.Store}
}

type vfGalaxy struct {
	galaxyv1alpha1.GalaxyV1alpha1Interface
	Store *VfStore
}

func (g *vfGalaxy) FloatingIPs() galaxyv1alpha1.FloatingIPInterface { return &vfFIPs{Store: g.Store} }

type vfFIPs struct {
	galaxyv1alpha1.FloatingIPInterface
	Store *VfStore
}

func (f *vfFIPs) Create(ctx context.Context, obj *v1alpha1.FloatingIP, opts metav1.CreateOptions) (*v1alpha1.FloatingIP, error) {
	defer f.Store.after("create", obj.Name)
	if err := f.Store.fault("create", obj.Name); err != nil {
		return &v1alpha1.FloatingIP{}, err
	}
	f.Store.Mu.Lock()
	_, ok := f.Store.Objs[obj.Name]
	f.Store.Mu.Unlock()
	if ok {
		return &v1alpha1.FloatingIP{}, apierrors.NewAlreadyExists(vfGR, obj.Name)
	}
	if f.Store.Observe != nil {
		f.Store.Observe("create", nil, obj)
	}
	f.Store.Mu.Lock()
	f.Store.Objs[obj.Name] = vfCopy(obj)
	f.Store.Mu.Unlock()
	return vfCopy(obj), nil
}

func (f *vfFIPs) Update(ctx context.Context, obj *v1alpha1.FloatingIP, opts metav1.UpdateOptions) (*v1alpha1.FloatingIP, error) {
	defer f.Store.after("update", obj.Name)
	if err := f.Store.fault("update", obj.Name); err != nil {
		return &v1alpha1.FloatingIP{}, err
	}
	f.Store.Mu.Lock()
	old, ok := f.Store.Objs[obj.Name]
	f.Store.Mu.Unlock()
	if !ok {
		return &v1alpha1.FloatingIP{}, apierrors.NewNotFound(vfGR, obj.Name)
	}
	if f.Store.Observe != nil {
		f.Store.Observe("update", old, obj)
	}
	f.Store.Mu.Lock()
	f.Store.Objs[obj.Name] = vfCopy(obj)
	f.Store.Mu.Unlock()
	return vfCopy(obj), nil
}

func (f *vfFIPs) Delete(ctx context.Context, name string, opts metav1.DeleteOptions) error {
	defer f.Store.after("delete", name)
	if err := f.Store.fault("delete", name); err != nil {
		return err
	}
	f.Store.Mu.Lock()
	old, ok := f.Store.Objs[name]
	f.Store.Mu.Unlock()
	if !ok {
		return apierrors.NewNotFound(vfGR, name)
	}
	if f.Store.Observe != nil {
		f.Store.Observe("delete", old, nil)
	}
	f.Store.Mu.Lock()
	delete(f.Store.Objs, name)
	f.Store.Mu.Unlock()
	return nil
}

func (f *vfFIPs) Get(ctx context.Context, name string, opts metav1.GetOptions) (*v1alpha1.FloatingIP, error) {
	defer f.Store.after("get", name)
	if err := f.Store.fault("get", name); err != nil {
		return &v1alpha1.FloatingIP{}, err
	}
	f.Store.Mu.Lock()
	defer f.Store.Mu.Unlock()
	obj, ok := f.Store.Objs[name]
	if !ok {
		return &v1alpha1.FloatingIP{}, apierrors.NewNotFound(vfGR, name)
	}
	return vfCopy(obj), nil
}

func (f *vfFIPs) List(ctx context.Context, opts metav1.ListOptions) (*v1alpha1.FloatingIPList, error) {
	defer f.Store.after("list", "")
	if err := f.Store.fault("list", ""); err != nil {
		return &v1alpha1.FloatingIPList{}, err
	}
	f.Store.Mu.Lock()
	defer f.Store.Mu.Unlock()
	var names []string
	for n := range f.Store.Objs {
		names = append(names, n)
	}
	sort.Strings(names)
	list := &v1alpha1.FloatingIPList{}
	for _, n := range names {
		list.Items = append(list.Items, *vfCopy(f.Store.Objs[n]))
	}
	return list, nil
}

// ---------------------------------------------------------------- topologies

func vPool(nodeSubnets []string, gateway, subnet string, vlan uint16, ranges ...string) *FloatingIPPool {
	p := &FloatingIPPool{}
	for _, ns := range nodeSubnets {
		_, n, err := net.ParseCIDR(ns)
		if err != nil {
			panic(err)
		}
		p.NodeSubnets = append(p.NodeSubnets, n)
	}
	p.Gateway = net.ParseIP(gateway)
	_, sn, err := net.ParseCIDR(subnet)
	if err != nil {
		panic(err)
	}
	p.Mask = sn.Mask
	p.Vlan = vlan
	if len(VPoolVlanOverride) > 0 {
		p.Vlan = VPoolVlanOverride[vPoolSeq%len(VPoolVlanOverride)]
	}
	vPoolSeq++
	for _, r := range ranges {
		ipr := nets.ParseIPRange(r)
		if ipr == nil {
			panic("bad range " + r)
		}
		p.IPRanges = append(p.IPRanges, *ipr)
	}
	return p
}

const VNumTopologies = 4

// VPoolVlanOverride, if set, replaces the VLAN ids of the pools built by VTopology, pool i getting entry i modulo the
// length (lets a harness make them symbolic and different per pool).
var VPoolVlanOverride []uint16
var vPoolSeq int

// VTopology returns fresh pool structs (ConfigurePool writes into them), the configured IPs in
// ascending order and the node subnets that occur.
func VTopology(t int) (pools []*FloatingIPPool, ips []string, nodeSubnets []string) {
	vPoolSeq = 0
	switch t {
	case 0: // T1: one pool, one node subnet, one range of three addresses
		return []*FloatingIPPool{vPool([]string{"10.0.1.0/24"}, "10.1.0.1", "10.1.0.0/24", 2, "10.1.0.10~10.1.0.12")},
			[]string{"10.1.0.10", "10.1.0.11", "10.1.0.12"}, []string{"10.0.1.0/24"}
	case 1: // T3: two pools sharing one pod subnet with disjoint ranges, different node subnets
		return []*FloatingIPPool{
				vPool([]string{"10.0.1.0/24"}, "10.1.0.1", "10.1.0.0/24", 2, "10.1.0.10~10.1.0.11"),
				vPool([]string{"10.0.2.0/24"}, "10.1.0.1", "10.1.0.0/24", 2, "10.1.0.20~10.1.0.21")},
			[]string{"10.1.0.10", "10.1.0.11", "10.1.0.20", "10.1.0.21"}, []string{"10.0.1.0/24", "10.0.2.0/24"}
	case 2: // T4/T6: one node subnet listed by two pools, one of them with two ranges; a /32 node subnet
		return []*FloatingIPPool{
				vPool([]string{"10.0.1.0/24", "10.0.3.3/32"}, "10.1.0.1", "10.1.0.0/24", 2, "10.1.0.10", "10.1.0.12"),
				vPool([]string{"10.0.1.0/24"}, "10.2.0.1", "10.2.0.0/16", 3, "10.2.0.10~10.2.0.11")},
			[]string{"10.1.0.10", "10.1.0.12", "10.2.0.10", "10.2.0.11"}, []string{"10.0.1.0/24", "10.0.3.3/32"}
	default: // T2: two pools, different pod subnets, different node subnets, different vlans
		return []*FloatingIPPool{
				vPool([]string{"10.0.1.0/24"}, "10.1.0.1", "10.1.0.0/24", 2, "10.1.0.10~10.1.0.11"),
				vPool([]string{"10.0.2.0/24"}, "10.2.0.1", "10.2.0.0/24", 3, "10.2.0.10")},
			[]string{"10.1.0.10", "10.1.0.11", "10.2.0.10"}, []string{"10.0.1.0/24", "10.0.2.0/24"}
	}
}

// ---------------------------------------------------------------- world

type vWorld struct {
	topo        int
	store       *VfStore
	ipam        *crdIpam
	ips         []string
	nodeSubnets []string
}

var vKeys = []string{"dp_ns_app_app-x1", "dp_ns_app_", "sts_ns_ss_ss-0", "pool__p1_", "pool__p1_dp_ns_app_app-x1"}
var vUids = []string{"", "u1", "u2"}
var vNodes = []string{"", "n1", "n2"}

func vNewWorld(topo int) *vWorld {
	w := &vWorld{topo: topo, store: VfNewStore()}
	_, w.ips, w.nodeSubnets = VTopology(topo)
	w.ipam = NewCrdIPAM(&VfClient{Store: w.store}, nil).(*crdIpam)
	return w
}

func vAttrText(node, uid string) string {
	data, err := json.Marshal(Attr{NodeName: node, Uid: uid})
	if err != nil {
		panic(err)
	}
	return string(data)
}

// symbolicStore fills the store with an arbitrary set of objects for configured IPs: which IPs are
// present is a concrete choice per path, their owner key / policy / uid / node are symbolic.
func (w *vWorld) symbolicStore(allowReserved bool) {
	for _, ip := range w.ips {
		if !nondetBool() {
			continue
		}
		obj := newFIPCrd(ip)
		obj.Spec.Key = nondetPick(vKeys...)
		pol := nondetU16()
		verifAssume(pol <= 2)
		obj.Spec.Policy = constant.ReleasePolicy(pol)
		obj.Spec.Attribute = vAttrText(nondetPick(vNodes...), nondetPick(vUids...))
		if allowReserved && nondetBool() {
			obj.Labels[constant.ReserveFIPLabel] = ""
		}
		w.store.Objs[ip] = obj
	}
}

func (w *vWorld) configure() error {
	pools, _, _ := VTopology(w.topo)
	err := w.ipam.ConfigurePool(pools)
	verifRotateMap(w.ipam.unallocatedFIPs, "AllocateInSubnet")
	return err
}

func vAttrOf(obj *v1alpha1.FloatingIP) (node, uid string) {
	if obj.Spec.Attribute == "" {
		return "", ""
	}
	var a Attr
	if err := json.Unmarshal([]byte(obj.Spec.Attribute), &a); err != nil {
		return "?", "?"
	}
	return a.NodeName, a.Uid
}

// agree: the in-memory tables and the store agree on owner, policy and attributes of every configured IP.
func (w *vWorld) agree() bool {
	ok := true
	for _, ip := range w.ips {
		obj, inStore := w.store.Objs[ip]
		fip, inAlloc := w.ipam.allocatedFIPs[ip]
		ufip, inUnalloc := w.ipam.unallocatedFIPs[ip]
		ok = verifAnd(ok, inStore == inAlloc)
		ok = verifAnd(ok, inAlloc != inUnalloc)
		if inStore && inAlloc {
			node, uid := vAttrOf(obj)
			ok = verifAnd(ok, fip.Key == obj.Spec.Key)
			ok = verifAnd(ok, fip.Policy == uint16(obj.Spec.Policy))
			ok = verifAnd(ok, verifAnd(fip.NodeName == node, fip.PodUid == uid))
			ok = verifAnd(ok, verifAnd(fip.IP.String() == ip, fip.pool != nil && fip.pool.Contains(fip.IP)))
		}
		if inUnalloc {
			ok = verifAnd(ok, verifAnd(ufip.Key == "", ufip.IP.String() == ip))
			ok = verifAnd(ok, ufip.pool != nil && ufip.pool.Contains(ufip.IP))
		}
	}
	ok = verifAnd(ok, len(w.ipam.allocatedFIPs)+len(w.ipam.unallocatedFIPs) == len(w.ips))
	return ok
}

type vSnap struct {
	alloc  bool
	key    string
	policy uint16
	node   string
	uid    string
}

func (w *vWorld) snapshot() []vSnap {
	out := make([]vSnap, len(w.ips))
	for i, ip := range w.ips {
		if f, ok := w.ipam.allocatedFIPs[ip]; ok {
			out[i] = vSnap{alloc: true, key: f.Key, policy: f.Policy, node: f.NodeName, uid: f.PodUid}
		}
	}
	return out
}

func vSnapEqual(a, b []vSnap) bool {
	ok := len(a) == len(b)
	for i := range a {
		ok = verifAnd(ok, a[i].alloc == b[i].alloc)
		if a[i].alloc && b[i].alloc {
			ok = verifAnd(ok, verifAnd(a[i].key == b[i].key, a[i].policy == b[i].policy))
			ok = verifAnd(ok, verifAnd(a[i].node == b[i].node, a[i].uid == b[i].uid))
		}
	}
	return ok
}

// restart models a process restart: a new IPAM instance is configured from the same store.
func (w *vWorld) restart() error {
	w.ipam = NewCrdIPAM(&VfClient{Store: w.store}, nil).(*crdIpam)
	return w.configure()
}

func vSubnet(s string) *net.IPNet {
	_, n, err := net.ParseCIDR(s)
	if err != nil {
		panic(err)
	}
	return n
}


// ---------------------------------------------------------------- exports for harnesses in other packages

// VerifEntry is one row of the in-memory allocation table.
type VerifEntry struct {
	IP          string
	Allocated   bool
	Key         string
	Policy      uint16
	Node, Uid   string
	Reserved    bool
	NodeSubnets []string
	Mask        string
	Gateway     string
	Vlan        uint16
}

// VerifDump lists the table of an IPAM built by NewCrdIPAM for the given addresses.
func VerifDump(i IPAM, ips []string) []VerifEntry {
	ci := i.(*crdIpam)
	out := make([]VerifEntry, len(ips))
	for k, ip := range ips {
		e := VerifEntry{IP: ip}
		f, ok := ci.allocatedFIPs[ip]
		if ok {
			e.Allocated, e.Key, e.Policy, e.Node, e.Uid = true, f.Key, f.Policy, f.NodeName, f.PodUid
			_, e.Reserved = f.Labels[constant.ReserveFIPLabel]
		} else {
			f = ci.unallocatedFIPs[ip]
		}
		if f != nil && f.pool != nil {
			e.NodeSubnets = f.pool.nodeSubnets.List()
			e.Mask, e.Gateway, e.Vlan = f.pool.Mask.String(), f.pool.Gateway.String(), f.pool.Vlan
		}
		out[k] = e
	}
	return out
}

// VerifTables reports, per address, membership in the allocated and unallocated tables.
func VerifTables(i IPAM, ip string) (inAlloc, inUnalloc bool) {
	ci := i.(*crdIpam)
	_, inAlloc = ci.allocatedFIPs[ip]
	_, inUnalloc = ci.unallocatedFIPs[ip]
	return
}

// VerifRotate marks the free table so that ranging over it starts at a nondeterministic entry.
func VerifRotate(i IPAM) {
	// loops whose outcome depends on the iteration order: first free match / first match by key
	verifRotateMap(i.(*crdIpam).unallocatedFIPs, "AllocateInSubnet")
}

// VerifAttrOf decodes the attribute text of a stored object.
func VerifAttrOf(obj *v1alpha1.FloatingIP) (node, uid string) { return vAttrOf(obj) }

// VerifAttrText encodes node/uid as the store does.
func VerifAttrText(node, uid string) string { return vAttrText(node, uid) }

// VerifHandleFIPEvent delivers a FloatingIP watch event (add=true / delete) to the IPAM.
func VerifHandleFIPEvent(i IPAM, obj *v1alpha1.FloatingIP, add bool) error {
	if add {
		return i.(*crdIpam).handleFIPAssign(obj)
	}
	return i.(*crdIpam).handleFIPUnassign(obj)
}

// VerifWalk runs the real walkIPRanges over n symbolic ranges of width <= 3 and returns the number of addresses visited.
func VerifWalk(n int) int {
	var ranges []nets.IPRange
	for i := 0; i < n; i++ {
		first, last := nondetU32(), nondetU32()
		verifAssume(first <= last)
		verifAssume(last-first <= 2)
		ranges = append(ranges, nets.IPRange{First: nets.IntToIP(first), Last: nets.IntToIP(last)})
	}
	visited := 0
	walkIPRanges(ranges, func(ip net.IP) bool {
		visited++
		return false
	})
	return visited
}

// VerifExpect: what the configuration of topology topo says about an address, computed from the pool definitions
// alone (range end points compared as integers), independently of the tables ConfigurePool builds: the node subnets
// it is routable from and its mask / gateway / VLAN.
func VerifExpect(topo int, ip string) (e VerifEntry, found bool) {
	pools, _, _ := VTopology(topo)
	x := nets.IPToInt(net.ParseIP(ip))
	for _, p := range pools {
		for _, r := range p.IPRanges {
			if nets.IPToInt(r.First) <= x && x <= nets.IPToInt(r.Last) {
				e.IP = ip
				for _, ns := range p.NodeSubnets {
					e.NodeSubnets = append(e.NodeSubnets, ns.String())
				}
				sort.Strings(e.NodeSubnets)
				e.Mask, e.Gateway, e.Vlan = p.Mask.String(), p.Gateway.String(), p.Vlan
				return e, true
			}
		}
	}
	return e, false
}
