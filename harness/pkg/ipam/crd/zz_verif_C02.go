package crd

import (
	apierrors "k8s.io/apimachinery/pkg/api/errors"
	"k8s.io/apimachinery/pkg/apis/meta/v1/unstructured"
	"k8s.io/apimachinery/pkg/labels"
	"k8s.io/apimachinery/pkg/runtime"
	"k8s.io/apimachinery/pkg/runtime/schema"
	"k8s.io/client-go/dynamic/dynamicinformer"
	"k8s.io/client-go/informers"
	"k8s.io/client-go/tools/cache"
)

// C02 (scalable custom resources): whether the IP of an ended pod of a custom resource is kept depends on the answer
// of the CRD replica cache; the cache must never answer "no such object" for an object that exists just because its
// informer has not finished its first synchronisation.

// vSyncWorld: one informer per kind; it is synced after its HasSynced has been polled twice; its lister knows the
// object only once it is synced. A second activity runs once inside the first poll (while the first caller waits).
type vSyncWorld struct {
	polls  map[string]int
	second func()
}

type vSyncFactory struct {
	dynamicinformer.DynamicSharedInformerFactory
	w *vSyncWorld
}

func (f vSyncFactory) ForResource(gvr schema.GroupVersionResource) informers.GenericInformer {
	return vSyncGeneric{w: f.w, kind: gvr.Resource}
}

type vSyncGeneric struct {
	w    *vSyncWorld
	kind string
}

func (g vSyncGeneric) Informer() cache.SharedIndexInformer { return vSyncInformer{w: g.w, kind: g.kind} }
func (g vSyncGeneric) Lister() cache.GenericLister         { return vSyncLister{w: g.w, kind: g.kind} }

type vSyncInformer struct {
	cache.SharedIndexInformer
	w    *vSyncWorld
	kind string
}

func (vSyncInformer) Run(stopCh <-chan struct{}) {}
func (i vSyncInformer) HasSynced() bool {
	i.w.polls[i.kind]++
	if i.w.polls[i.kind] == 1 && i.w.second != nil {
		f := i.w.second
		i.w.second = nil
		verifThread(2)
		f()
		verifThread(1)
	}
	return i.w.polls[i.kind] >= 2
}

type vSyncLister struct {
	w    *vSyncWorld
	kind string
}

func (l vSyncLister) List(sel labels.Selector) ([]runtime.Object, error) { return nil, nil }
func (l vSyncLister) ByNamespace(ns string) cache.GenericNamespaceLister { return l }
func (l vSyncLister) Get(name string) (runtime.Object, error) {
	if l.w.polls[l.kind] < 2 {
		return nil, apierrors.NewNotFound(schema.GroupResource{Resource: l.kind}, name) // the cache is still empty
	}
	return &unstructured.Unstructured{Object: map[string]interface{}{"spec": map[string]interface{}{"replicas": int64(3)}}}, nil
}

// BOUND: the real crdCache over a stub informer whose first synchronisation takes two polls; the first GetReplicas for a kind starts the informer; a second GetReplicas for the same kind (another pod's unbind or resync item) arrives as a second logical thread while the first still waits for the synchronisation, or after it; interleavings in which the second would have to wait for the cache's lock are discarded. Neither call may answer "not found" for the object, which exists
// ASSUME: C02: the dynamic informer factory is a stub (client-go's informers are not the subject); the object exists with 3 replicas
func VerifC02_q_crdCacheAnswersAfterSync() {
	w := &vSyncWorld{polls: map[string]int{}}
	c := &crdCache{dynamicFactory: vSyncFactory{w: w}, startedInformers: map[schema.GroupVersionResource]bool{}, extensionLister: vCRDs{}}
	gvr := schema.GroupVersionResource{Group: "g.io", Version: "v1", Resource: "foos"}
	var err2 error
	n2 := -1
	second := func() { n2, err2 = c.GetReplicas(gvr, "ns", "y") }
	inside := nondetBool()
	if inside {
		w.second = second
	}
	n1, err1 := c.GetReplicas(gvr, "ns", "x")
	if w.second != nil || !inside {
		w.second = nil
		second()
	}
	verifReach("both-lookups-answered")
	verifAssert("C02/crd-cache-first-lookup", err1 == nil && n1 == 3, "the first lookup of a custom resource's replicas did not find the object")
	verifAssert("C02/crd-cache-lookup-during-sync", err2 == nil && n2 == 3, "a lookup of a custom resource's replicas that arrived during the informer's first synchronisation answered 'not found' for an object that exists")
}
