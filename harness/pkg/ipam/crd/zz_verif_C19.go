package crd

import (
	extensionsv1 "k8s.io/apiextensions-apiserver/pkg/apis/apiextensions/v1"
	extensionlister "k8s.io/apiextensions-apiserver/pkg/client/listers/apiextensions/v1"
	metav1 "k8s.io/apimachinery/pkg/apis/meta/v1"
	"k8s.io/apimachinery/pkg/apis/meta/v1/unstructured"
	"k8s.io/apimachinery/pkg/labels"
	"k8s.io/apimachinery/pkg/runtime"
	"k8s.io/apimachinery/pkg/runtime/schema"
	"k8s.io/client-go/dynamic/dynamicinformer"
	"k8s.io/client-go/informers"
	"k8s.io/client-go/tools/cache"
)

// C19 (CRD replica cache): concurrent GetReplicas calls -- for a kind that is already watched and for a kind that is
// watched for the first time -- touch the cache's bookkeeping only under its lock.
// ASSUME: C19: the dynamic informer factory is a stub whose informers are synced at once and whose listers know one object per kind (client-go's own synchronisation is not the subject)

type vFactory struct {
	dynamicinformer.DynamicSharedInformerFactory
}

func (vFactory) ForResource(gvr schema.GroupVersionResource) informers.GenericInformer {
	return vGenericInformer{gvr: gvr}
}

type vGenericInformer struct{ gvr schema.GroupVersionResource }

func (g vGenericInformer) Informer() cache.SharedIndexInformer { return vSharedInformer{} }
func (g vGenericInformer) Lister() cache.GenericLister         { return vLister{gvr: g.gvr} }

type vSharedInformer struct{ cache.SharedIndexInformer }

func (vSharedInformer) Run(stopCh <-chan struct{}) {}
func (vSharedInformer) HasSynced() bool            { return true }

type vLister struct{ gvr schema.GroupVersionResource }

func (l vLister) List(sel labels.Selector) ([]runtime.Object, error) { return nil, nil }
func (l vLister) Get(name string) (runtime.Object, error)           { return l.ByNamespace("").Get(name) }
func (l vLister) ByNamespace(ns string) cache.GenericNamespaceLister { return vNSLister{gvr: l.gvr} }

type vNSLister struct{ gvr schema.GroupVersionResource }

func (l vNSLister) List(sel labels.Selector) ([]runtime.Object, error) { return nil, nil }
func (l vNSLister) Get(name string) (runtime.Object, error) {
	return &unstructured.Unstructured{Object: map[string]interface{}{"spec": map[string]interface{}{"replicas": int64(3)}}}, nil
}

type vCRDs struct {
	extensionlister.CustomResourceDefinitionLister
}

func (vCRDs) Get(name string) (*extensionsv1.CustomResourceDefinition, error) {
	c := &extensionsv1.CustomResourceDefinition{ObjectMeta: metav1.ObjectMeta{Name: name}}
	c.Spec.Versions = []extensionsv1.CustomResourceDefinitionVersion{{Name: "v1", Subresources: &extensionsv1.CustomResourceSubresources{
		Scale: &extensionsv1.CustomResourceSubresourceScale{SpecReplicasPath: ".spec.replicas"}}}}
	return c, nil
}

// BOUND: the real crdCache over a stub informer factory; 0..1 kinds already watched; two concurrent GetReplicas calls for kinds out of {foos, bars} (the same kind or different ones, watched already or for the first time)
func VerifC19_q_crdCachePairs() {
	c := &crdCache{dynamicFactory: vFactory{}, startedInformers: map[schema.GroupVersionResource]bool{}, extensionLister: vCRDs{}}
	gvrs := []schema.GroupVersionResource{{Group: "g.io", Version: "v1", Resource: "foos"}, {Group: "g.io", Version: "v1", Resource: "bars"}}
	if nondetBool() {
		_, _ = c.GetReplicas(gvrs[0], "ns", "x") // foos is watched already
	}
	a, b := gvrs[nondetChoice(2)], gvrs[nondetChoice(2)]
	verifRace([]interface{}{c}, func() { _, _ = c.GetReplicas(a, "ns", "x") }, func() { _, _ = c.GetReplicas(b, "ns", "y") })
}
