package api

import (
	"bytes"
	"encoding/json"
	"net"
	"net/http/httptest"

	restful "github.com/emicklei/go-restful"
	corev1 "k8s.io/api/core/v1"
	apierrors "k8s.io/apimachinery/pkg/api/errors"
	metav1 "k8s.io/apimachinery/pkg/apis/meta/v1"
	"k8s.io/apimachinery/pkg/runtime/schema"
	corev1lister "k8s.io/client-go/listers/core/v1"
	"tkestack.io/galaxy/pkg/api/galaxy/constant"
	"tkestack.io/galaxy/pkg/ipam/floatingip"
	"tkestack.io/galaxy/pkg/ipam/schedulerplugin"
	"tkestack.io/galaxy/pkg/ipam/schedulerplugin/util"
)

// C11 (API): every entry returned by the list-IP API can be released by posting that entry back (app type
// omitted meaning statefulset) and never addresses another owner's IP.

// ---- request/response plumbing: intercepted by the engine (recording model); real go-restful objects natively.
var (
	vReq  *restful.Request
	vResp *restful.Response
	vRec  *httptest.ResponseRecorder
)

func verifSetRequestEntity(v interface{}) {
	body, _ := json.Marshal(v)
	hr := httptest.NewRequest("POST", "/v1/ip", bytes.NewReader(body))
	hr.Header.Set("Content-Type", "application/json")
	vReq = restful.NewRequest(hr)
	vRec = httptest.NewRecorder()
	vResp = restful.NewResponse(vRec)
	vResp.SetRequestAccepts("application/json")
}

func verifResponseCode() int { return vRec.Code }

// ---- a pod lister that knows no pod (every listed pod is gone => releasable)
type vNoPods struct{ corev1lister.PodLister }

func (vNoPods) Pods(ns string) corev1lister.PodNamespaceLister { return vNoPodsNS{} }

type vNoPodsNS struct{ corev1lister.PodNamespaceLister }

func (vNoPodsNS) Get(name string) (*corev1.Pod, error) {
	return nil, apierrors.NewNotFound(schema.GroupResource{Resource: "pods"}, name)
}

// vStoredKey builds the key the scheduler plugin stores for a pod of the given shape (real FormatKey) or a reserve key.
// shape: 0 bare pod, 1 statefulset pod, 2 deployment pod, 3 pod of another kind, 4 app reserve of a deployment, 5 pool reserve.
func vStoredKey(shape int, withPool bool) string {
	pod := &corev1.Pod{ObjectMeta: metav1.ObjectMeta{Namespace: nondetString("dns1123label"), Name: nondetString("dns1123subdomain")}}
	if withPool {
		pod.Annotations = map[string]string{constant.IPPoolAnnotation: nondetString("dns1123subdomain")}
	}
	switch shape {
	case 1:
		pod.OwnerReferences = []metav1.OwnerReference{{Kind: "StatefulSet", Name: nondetString("dns1123subdomain")}}
	case 2, 4:
		pod.OwnerReferences = []metav1.OwnerReference{{Kind: "ReplicaSet", Name: nondetString("dns1123subdomain")}}
	case 3:
		pod.OwnerReferences = []metav1.OwnerReference{{Kind: nondetPick("TApp", "CloneSet", "Job", "Compass", "Redis"), Name: nondetString("dns1123subdomain")}}
	}
	k, err := util.FormatKey(pod)
	verifAssume(err == nil)
	switch shape {
	case 4:
		return k.PoolPrefix()
	case 5:
		verifAssume(withPool)
		return k.PoolPrefix()
	}
	return k.KeyInDB
}

// SOLVER: cvc5
// BOUND: one allocated entry whose stored key is built by the real FormatKey from a pod with symbolic namespace/name/owner name/pool (DNS alphabets, unbounded) for 6 key shapes (bare, statefulset, deployment, 5 other kinds incl. kinds ending in s / ss, former 3 other kinds, app reserve, pool reserve) x pool yes/no; the entry is listed (real convert) and posted back as is, or with appType omitted when it reads "statefulset"
// ASSUME: C11: the listed pod no longer exists (the entry is releasable)
func VerifC11_q_listThenRelease() {
	shape := nondetChoice(6)
	withPool := nondetChoice(2) == 1
	key := vStoredKey(shape, withPool)
	pol := nondetU16()
	verifAssume(pol <= 2)
	stored := floatingip.FloatingIP{Key: key, IP: net.ParseIP("10.1.0.10"), Policy: pol}
	entry := convert(&stored) // what GET /v1/ip shows
	omit := nondetBool()
	if omit {
		verifAssume(entry.AppType == "statefulset") // documented: app type omitted means statefulset
		entry.AppType = ""
	}
	var got *schedulerplugin.ReleaseRequest
	c := &Controller{podLister: vNoPods{}, releaseFunc: func(r *schedulerplugin.ReleaseRequest) error {
		got = r
		return nil
	}}
	verifSetRequestEntity(ReleaseIPReq{IPs: []FloatingIP{entry}})
	c.ReleaseIPs(vReq, vResp)
	verifReach("posted")
	verifAssert("C11/release-reaches-plugin", got != nil, "posting a listed entry back did not result in a release request")
	if got == nil {
		return
	}
	verifAssert("C11/release-key", got.KeyObj.KeyInDB == key, "posting a listed entry back addresses a different key than the one that holds the IP")
	verifAssert("C11/release-ip", got.IP.Equal(stored.IP), "posting a listed entry back addresses a different IP")
}


// SOLVER: cvc5
// BOUND: one release request with two listed entries (keys of any two of the 6 shapes, symbolic names as above, pool-less), each posted as listed or with appType omitted when it reads "statefulset": both entries must reach the plugin with their own stored key, in order
func VerifC11_q_listThenReleaseBatch() {
	s1, s2 := nondetChoice(5), nondetChoice(5)
	k1, k2 := vStoredKey(s1, false), vStoredKey(s2, false)
	verifAssume(k1 != k2)
	e1 := convert(&floatingip.FloatingIP{Key: k1, IP: net.ParseIP("10.1.0.10")})
	e2 := convert(&floatingip.FloatingIP{Key: k2, IP: net.ParseIP("10.1.0.11")})
	if nondetBool() {
		verifAssume(e1.AppType == "statefulset")
		e1.AppType = ""
	}
	if nondetBool() {
		verifAssume(e2.AppType == "statefulset")
		e2.AppType = ""
	}
	var got []*schedulerplugin.ReleaseRequest
	c := &Controller{podLister: vNoPods{}, releaseFunc: func(r *schedulerplugin.ReleaseRequest) error {
		got = append(got, r)
		return nil
	}}
	verifSetRequestEntity(ReleaseIPReq{IPs: []FloatingIP{e1, e2}})
	c.ReleaseIPs(vReq, vResp)
	verifReach("batch-posted")
	verifAssert("C11/batch-both-released", len(got) == 2, "a batch of two listed entries did not produce two release requests")
	if len(got) != 2 {
		return
	}
	verifAssert("C11/batch-key-1", got[0].KeyObj.KeyInDB == k1, "first entry of a batch addresses a different key than the one that holds its IP")
	verifAssert("C11/batch-key-2", got[1].KeyObj.KeyInDB == k2, "second entry of a batch addresses a different key than the one that holds its IP")
}

// BOUND: one release request with the entries the list shows for one owner that holds 2..3 IPs under a single key: the reserve of a deployment, the reserve of a pool, or a pod that requested several IPs (concrete names); every entry must reach the plugin, each with its own IP
func VerifC11_q_sameKeyBatch() {
	key := []string{"dp_ns1_web_", "pool__pl1_", "sts_ns1_db_db-0"}[nondetChoice(3)]
	n := 2 + nondetChoice(2)
	ips := []string{"10.1.0.10", "10.1.0.11", "10.1.0.12"}[:n]
	var entries []FloatingIP
	for _, ip := range ips {
		entries = append(entries, convert(&floatingip.FloatingIP{Key: key, IP: net.ParseIP(ip), Policy: 2}))
	}
	var got []*schedulerplugin.ReleaseRequest
	c := &Controller{podLister: vNoPods{}, releaseFunc: func(r *schedulerplugin.ReleaseRequest) error {
		got = append(got, r)
		return nil
	}}
	verifSetRequestEntity(ReleaseIPReq{IPs: entries})
	c.ReleaseIPs(vReq, vResp)
	verifReach("same-key-batch-posted")
	verifAssert("C11/same-key-batch-all-released", len(got) == n, "entries that share one key were not all released when posted in one request")
	for i := 0; i < len(got) && i < n; i++ {
		verifAssert("C11/same-key-batch-ip", got[i].IP.Equal(net.ParseIP(ips[i])) && got[i].KeyObj.KeyInDB == key, "an entry of a same-key batch reached the plugin with another IP or key")
	}
}

// BOUND: the comparison the list API sorts by for sort = ip / ip asc / default / ip desc, on three entries whose addresses are drawn from 8 IPv4 texts of three subnets whose octets cross (a smaller octet followed by a larger one and vice versa; one-, two- and three-digit octets): it must be a strict total order on distinct addresses (irreflexive, asymmetric, transitive, total) -- every page of the list is a separate request that sorts the entries again from an arbitrary initial order, so only a total order makes the pages partition the list
func VerifC11_q_ipSortIsOrder() {
	ips := []string{"10.0.70.17", "10.0.80.3", "10.0.80.10", "10.0.9.200", "10.49.27.205", "10.173.13.2", "9.255.0.1", "10.0.70.170"}
	arr := []FloatingIP{{IP: ips[nondetChoice(len(ips))]}, {IP: ips[nondetChoice(len(ips))]}, {IP: ips[nondetChoice(len(ips))]}}
	less := sortFunc(nondetPick("ip", "ip asc", "", "ip desc"))
	ab, ba := less(0, 1, arr), less(1, 0, arr)
	bc, ac := less(1, 2, arr), less(0, 2, arr)
	verifReach("compared")
	verifAssert("C11/ip-sort-irreflexive", !less(0, 0, arr), "the IP sort order ranks an entry before itself")
	verifAssert("C11/ip-sort-asymmetric", !(ab && ba), "the IP sort order ranks "+arr[0].IP+" before "+arr[1].IP+" and also after it")
	verifAssert("C11/ip-sort-total", arr[0].IP == arr[1].IP || ab || ba, "the IP sort order leaves "+arr[0].IP+" and "+arr[1].IP+" unordered: pages of separate requests need not partition the list")
	verifAssert("C11/ip-sort-transitive", !(ab && bc) || ac, "the IP sort order is not transitive on "+arr[0].IP+", "+arr[1].IP+", "+arr[2].IP)
}
