package api

import (
	"context"
	"fmt"

	apierrors "k8s.io/apimachinery/pkg/api/errors"
	metav1 "k8s.io/apimachinery/pkg/apis/meta/v1"
	"k8s.io/apimachinery/pkg/runtime/schema"
	"tkestack.io/galaxy/pkg/ipam/apis/galaxy/v1alpha1"
	"tkestack.io/galaxy/pkg/ipam/client/clientset/versioned"
	galaxyv1alpha1 "tkestack.io/galaxy/pkg/ipam/client/clientset/versioned/typed/galaxy/v1alpha1"
	"tkestack.io/galaxy/pkg/ipam/schedulerplugin"
)

// C07 (pool API, whole request): POST /v1/pool writes the Pool object and then pre-allocates; whatever API-server
// call of the request fails, the pool never holds more addresses than the size in force (the stored Pool object's).

// vPoolClient: a clientset stub for Pool objects backed by the plugin world's pool store; the failAt-th call fails
// cleanly (like the real typed client: an empty object plus the error).
type vPoolClient struct {
	versioned.Interface
	pw            *schedulerplugin.VerifPoolWorld
	calls, failAt int
}

func (c *vPoolClient) GalaxyV1alpha1() galaxyv1alpha1.GalaxyV1alpha1Interface { return vPoolGroup{c: c} }

type vPoolGroup struct {
	galaxyv1alpha1.GalaxyV1alpha1Interface
	c *vPoolClient
}

func (g vPoolGroup) Pools(ns string) galaxyv1alpha1.PoolInterface { return vPools{c: g.c} }

type vPools struct {
	galaxyv1alpha1.PoolInterface
	c *vPoolClient
}

var vPoolGR = schema.GroupResource{Group: "galaxy.k8s.io", Resource: "pools"}

func (p vPools) fault(what string) error {
	p.c.calls++
	if p.c.calls == p.c.failAt {
		return fmt.Errorf("injected fault: pools %s", what)
	}
	return nil
}

func (p vPools) Get(ctx context.Context, name string, opts metav1.GetOptions) (*v1alpha1.Pool, error) {
	if err := p.fault("get"); err != nil {
		return &v1alpha1.Pool{}, err
	}
	size := p.c.pw.StoredPoolSize()
	if name != "p1" || size < 0 {
		return &v1alpha1.Pool{}, apierrors.NewNotFound(vPoolGR, name)
	}
	return &v1alpha1.Pool{ObjectMeta: metav1.ObjectMeta{Name: name, Namespace: "kube-system"}, Size: size, PreAllocateIP: p.c.pw.StoredPoolPreAllocate()}, nil
}

func (p vPools) Create(ctx context.Context, pool *v1alpha1.Pool, opts metav1.CreateOptions) (*v1alpha1.Pool, error) {
	if err := p.fault("create"); err != nil {
		return &v1alpha1.Pool{}, err
	}
	p.c.pw.SetStoredPool(pool.Size, pool.PreAllocateIP)
	return pool, nil
}

func (p vPools) Update(ctx context.Context, pool *v1alpha1.Pool, opts metav1.UpdateOptions) (*v1alpha1.Pool, error) {
	if err := p.fault("update"); err != nil {
		return &v1alpha1.Pool{}, err
	}
	p.c.pw.SetStoredPool(pool.Size, pool.PreAllocateIP)
	return pool, nil
}

// BOUND: topologies {0,1}; pool p1 with a Pool object of size 0..2 (or no Pool object yet) and 0..1 pods of a deployment already scheduled in it; one POST /v1/pool request (the real CreateOrUpdate) for a symbolic size 0..4 with preAllocateIP; one of the request's Pool-object calls (get, create / update) may fail cleanly at a symbolic position 0..2 (0 = none); sequential
func VerifC07_q_poolRequestFaults() {
	pw := schedulerplugin.VerifNewPoolWorld(nondetChoice(2), nondetInt(0, 2), nondetChoice(2))
	if pw == nil {
		return
	}
	if nondetBool() {
		pw.DeletePoolObject()
	}
	before := pw.PoolCount()
	size := nondetInt(0, 4)
	cl := &vPoolClient{pw: pw, failAt: nondetInt(0, 2)}
	c := &PoolController{Client: cl, PoolLister: pw.PoolLister(), IPAM: pw.IPAM(), LockPoolFunc: pw.LockPool}
	verifSetRequestEntity(Pool{Name: "p1", Size: size, PreAllocateIP: true})
	c.CreateOrUpdate(vReq, vResp)
	verifReach("pool-request-answered")
	after := pw.PoolCount()
	inForce := pw.StoredPoolSize()
	verifAssert("C07/pool-request-within-size-in-force", after <= before || (inForce >= 0 && after <= inForce), "a pool create / update request left the pool with more addresses than the size in force (the stored Pool object's)")
	code := verifResponseCode()
	verifAssert("C07/refused-pool-request-allocates-nothing", code < 400 || after <= before, "a pool request that was answered with an error allocated addresses")
	verifAssert("C07/agree-pool-request", pw.Agree(), "memory and store disagree")
	verifAssert("C07/no-lock-held-pool-request", pw.NoLockHeld(), "a lock is still held")
}

// BOUND: topologies {0,1}; pool p1 with a Pool object of size 0..3 (pre-allocation flag set or not) and 0..1 pods already scheduled in it; two POST /v1/pool requests in a row (the real CreateOrUpdate) for symbolic sizes 0..3 with preAllocateIP; the informer cache of Pool objects catches up between the requests or not (it still holds the object as it was before the first request); after each request the pool must not hold more addresses than before the request or than the stored Pool object's size
func VerifC07_q_poolRequestsLaggingCache() {
	pw := schedulerplugin.VerifNewPoolWorld(nondetChoice(2), nondetInt(0, 3), nondetChoice(2))
	if pw == nil {
		return
	}
	if nondetBool() { // the pool was created with the pre-allocation flag
		pw.SetStoredPool(pw.StoredPoolSize(), true)
		pw.SyncListers()
	}
	cl := &vPoolClient{pw: pw}
	c := &PoolController{Client: cl, PoolLister: pw.PoolLister(), IPAM: pw.IPAM(), LockPoolFunc: pw.LockPool}
	for i := 0; i < 2; i++ {
		before := pw.PoolCount()
		size := nondetInt(0, 3)
		verifSetRequestEntity(Pool{Name: "p1", Size: size, PreAllocateIP: true})
		c.CreateOrUpdate(vReq, vResp)
		after := pw.PoolCount()
		inForce := pw.StoredPoolSize()
		verifAssert("C07/pool-requests-within-size-in-force", after <= before || (inForce >= 0 && after <= inForce), "a pool update request left the pool with more addresses than the size in force (the stored Pool object's)")
		if nondetBool() {
			pw.SyncListers()
		}
	}
	verifReach("two-pool-requests-answered")
	verifAssert("C07/agree-pool-requests", pw.Agree(), "memory and store disagree")
	verifAssert("C07/no-lock-held-pool-requests", pw.NoLockHeld(), "a lock is still held")
}
