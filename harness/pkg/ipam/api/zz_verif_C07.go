package api

import (
	"tkestack.io/galaxy/pkg/ipam/schedulerplugin"
)

// C07 (pool API): the pre-allocation of POST /v1/pool and a concurrent Filter of a pod sharing the pool never bring
// the pool above the size in force.

// BOUND: topologies {0,1}; pool p1 with an old size 0..3 and 0..2 pods of a deployment already scheduled in it; the pool is resized to a symbolic size 0..3 with preAllocateIP (the real preAllocateIP of the API controller, on the plugin's IPAM and pool lock) while the Filter of the next pod of the deployment runs as a second logical thread starting inside any one window right before/after an IPAM call of the pre-allocation (symbolic window 0..12), parking where it needs the pool lock the pre-allocation holds
// ASSUME: C07: interference granularity = IPAM calls and API-server calls as in VerifC07_q_concurrentFilters; the Pool object is already updated when the pre-allocation starts (CreateOrUpdate writes it first)
func VerifC07_q_preAllocateVsFilter() {
	oldSize := nondetInt(0, 3)
	pw := schedulerplugin.VerifNewPoolWorld(nondetChoice(2), oldSize, nondetChoice(3))
	if pw == nil {
		return
	}
	size := nondetInt(0, 3)
	pw.SetPoolSize(size)
	before := pw.PoolCount()
	c := &PoolController{PoolLister: pw.PoolLister(), IPAM: pw.IPAM(), LockPoolFunc: pw.LockPool}
	verifSetRequestEntity(Pool{Name: "p1", Size: size, PreAllocateIP: true})
	overlapped := pw.RunWithConcurrentFilter(nondetInt(0, 12), func() {
		c.preAllocateIP(vReq, vResp, &Pool{Name: "p1", Size: size, PreAllocateIP: true})
	})
	if overlapped {
		verifReach("filter-inside-preallocation")
	}
	after := pw.PoolCount()
	verifReach("preallocated")
	verifAssert("C07/pool-size-preallocate", verifOr(after <= size, after <= before), "a pre-allocation through the pool API overlapping a Filter brought the pool above its size")
	verifAssert("C07/agree-preallocate", pw.Agree(), "memory and store disagree")
	verifAssert("C07/no-lock-held-preallocate", pw.NoLockHeld(), "a lock is still held")
}
