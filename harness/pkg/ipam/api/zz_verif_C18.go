package api

import (
	"tkestack.io/galaxy/pkg/ipam/schedulerplugin"
)

// C18 (pool API): a pre-allocation that asks for more addresses than all node subnets together have left answers
// (200 / 202) instead of panicking or looping, leaves no lock held and takes what is there.

// BOUND: topologies {0,1} (3 / 4 addresses, 1 / 2 node subnets); pool p1 with an old size 0..3 and 0..2 pods of a deployment already scheduled in it; the pool is resized to a symbolic size 0..6 (beyond the number of configured addresses) with preAllocateIP; sequential
func VerifC18_q_preAllocateExhausts() {
	pw := schedulerplugin.VerifNewPoolWorld(nondetChoice(2), nondetInt(0, 3), nondetChoice(3))
	if pw == nil {
		return
	}
	size := nondetInt(0, 6)
	pw.SetPoolSize(size)
	before := pw.PoolCount()
	c := &PoolController{PoolLister: pw.PoolLister(), IPAM: pw.IPAM(), LockPoolFunc: pw.LockPool}
	verifSetRequestEntity(Pool{Name: "p1", Size: size, PreAllocateIP: true})
	c.preAllocateIP(vReq, vResp, &Pool{Name: "p1", Size: size, PreAllocateIP: true})
	verifReach("preallocation-answered")
	after := pw.PoolCount()
	code := verifResponseCode()
	verifAssert("C18/preallocate-answers", code == 200 || code == 202, "the pool pre-allocation answered with an unexpected status")
	verifAssert("C18/preallocate-within-size", after <= size || after <= before, "the pool pre-allocation brought the pool above its size")
	verifAssert("C18/preallocate-ok-means-full", code != 200 || after >= size, "the pool pre-allocation answered 200 although the pool holds fewer addresses than its size")
	verifAssert("C18/no-lock-held-preallocate", pw.NoLockHeld(), "a lock is still held after the pool pre-allocation")
}
