package util

import (
	corev1 "k8s.io/api/core/v1"
	metav1 "k8s.io/apimachinery/pkg/apis/meta/v1"
	"tkestack.io/galaxy/pkg/api/galaxy/constant"
)

// C11 (keys): distinct pods map to distinct keys; a key decodes back to the pod, app, namespace, app type and pool.
// ASSUME: C11: pod names and namespaces are DNS-1123 labels/subdomains, owner names DNS-1123 subdomains, owner kinds CamelCase identifiers, pool names DNS-1123 subdomains -- none can contain '_'
// ASSUME: C11: "decodes back to the app type" is compared on the lower-cased prefix (TApp -> tapp_); for ReplicaSet owners the app is the derived deployment name

// vSymPod builds a pod whose namespace, name, owner and pool annotation are symbolic strings of their syntactic class.
// ownerShape: 0 none, 1 StatefulSet, 2 ReplicaSet, 3 another kind out of a finite family (incl. case variants of the built-in kinds).
func vSymPod(ownerShape int, withPool bool) *corev1.Pod {
	pod := &corev1.Pod{ObjectMeta: metav1.ObjectMeta{Namespace: nondetString("dns1123label"), Name: nondetString("dns1123subdomain")}}
	switch ownerShape {
	case 1:
		pod.OwnerReferences = []metav1.OwnerReference{{Kind: "StatefulSet", Name: nondetString("dns1123subdomain")}}
	case 2:
		pod.OwnerReferences = []metav1.OwnerReference{{Kind: "ReplicaSet", Name: nondetString("dns1123subdomain")}}
	case 3:
		// a finite family of other kinds (cvc5 does not decide str.to_lower over a symbolic kind within the time limit)
		pod.OwnerReferences = []metav1.OwnerReference{{Kind: nondetPick("TApp", "Statefulset", "StatefulSets", "Deployment", "CloneSet", "Job", "Compass", "Redis"), Name: nondetString("dns1123subdomain")}}
	}
	if withPool {
		pod.Annotations = map[string]string{constant.IPPoolAnnotation: nondetString("dns1123subdomain")}
	}
	return pod
}

// SOLVER: cvc5
// BOUND: two pods with symbolic namespace / name / owner name / pool name (unbounded strings over the DNS-1123 alphabets [a-z0-9-] resp. [a-z0-9.-], a superset of the valid names); owner kind: none, StatefulSet, ReplicaSet or one of 6 other kinds; pool yes/no; for each pod
func VerifC11_q_keyInjective() {
	s1, s2 := nondetChoice(4), nondetChoice(4)
	p1, p2 := nondetChoice(2) == 1, nondetChoice(2) == 1
	a, b := vSymPod(s1, p1), vSymPod(s2, p2)
	ka, erra := FormatKey(a)
	kb, errb := FormatKey(b)
	if erra != nil || errb != nil {
		return
	}
	verifReach("formatted")
	verifAssume(verifOr(a.Namespace != b.Namespace, a.Name != b.Name))
	verifAssert("C11/injective", ka.KeyInDB != kb.KeyInDB, "two distinct pods map to the same allocation key")
}

// SOLVER: cvc5
// BOUND: one pod with symbolic strings as above; 4 owner shapes x pool yes/no; strings.Split unrolled to 6 parts
func VerifC11_q_keyRoundTrip() {
	shape := nondetChoice(4)
	withPool := nondetChoice(2) == 1
	p := vSymPod(shape, withPool)
	k, err := FormatKey(p)
	if err != nil {
		return
	}
	verifReach("formatted")
	back := ParseKey(k.KeyInDB)
	verifAssert("C11/roundtrip-pod", back.PodName == p.Name, "key does not decode back to the pod name")
	verifAssert("C11/roundtrip-namespace", back.Namespace == p.Namespace, "key does not decode back to the namespace")
	verifAssert("C11/roundtrip-app", back.AppName == k.AppName, "key does not decode back to the app name")
	verifAssert("C11/roundtrip-apptype", back.AppTypePrefix == k.AppTypePrefix, "key does not decode back to the app type")
	verifAssert("C11/roundtrip-pool", back.PoolName == k.PoolName, "key does not decode back to the pool")
	verifAssert("C11/roundtrip-key", back.KeyInDB == k.KeyInDB, "ParseKey changed the key")
}
