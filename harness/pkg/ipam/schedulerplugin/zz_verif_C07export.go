package schedulerplugin

import (
	galaxylister "tkestack.io/galaxy/pkg/ipam/client/listers/galaxy/v1alpha1"
	"tkestack.io/galaxy/pkg/ipam/floatingip"
)

// VerifPoolWorld lets the harness of the pool API (package api) run the API's pre-allocation against the plugin world:
// the same IPAM (decorated with interference windows), the plugin's pool lock, and a Filter of a pod sharing the pool as
// the concurrent second activity.
type VerifPoolWorld struct {
	w    *vpWorld
	next string
}

// VerifNewPoolWorld: topology topo, deployment app (replicas 3) using pool p1 of the given size, pre pods of it already
// scheduled, the next pod created (its Filter is the concurrent activity).
func VerifNewPoolWorld(topo, size, pre int) *VerifPoolWorld {
	w := vpNewWorld(topo, false)
	if err := w.configure(); err != nil {
		return nil
	}
	w.wrapIPAM()
	w.setDeployment(3)
	w.setPool("p1", size)
	w.syncListers()
	for i := 0; i < pre; i++ {
		name := vpPodNameOf(vpKindDp, i)
		w.createPod(vpMakePod(name, "U"+name, vpKindDp, "", "p1", ""))
		w.syncListers()
		if nodes, err := w.filter(name, "n1", "n2", "n3"); err == nil && len(nodes) > 0 {
			_ = w.bind(name, nodes[0])
		}
	}
	next := vpPodNameOf(vpKindDp, pre)
	w.createPod(vpMakePod(next, "U"+next, vpKindDp, "", "p1", ""))
	w.syncListers()
	return &VerifPoolWorld{w: w, next: next}
}

func (v *VerifPoolWorld) IPAM() floatingip.IPAM         { return v.w.plugin.ipam }
func (v *VerifPoolWorld) LockPool(name string) func()    { return v.w.plugin.LockDpPool(name) }
func (v *VerifPoolWorld) PoolCount() int                 { return v.w.poolCount("p1") }
func (v *VerifPoolWorld) Agree() bool                    { return v.w.agree() }
func (v *VerifPoolWorld) NoLockHeld() bool               { return v.w.noLockHeld() }
func (v *VerifPoolWorld) SetPoolSize(size int)           { v.w.setPool("p1", size); v.w.syncListers() }

// RunWithConcurrentFilter runs op while the Filter of the next pod of the pool's deployment runs as a second logical
// thread starting inside the windowAt-th window (right before / after an API-server or IPAM call) of op; if op offers
// no such window the Filter runs afterwards. Reports whether they overlapped.
func (v *VerifPoolWorld) RunWithConcurrentFilter(windowAt int, op func()) bool {
	w := v.w
	w.interferer = func() { _, _ = w.filter(v.next, "n1", "n2", "n3") }
	w.winCount, w.windowAt = 0, windowAt
	op()
	w.finishInterference()
	if w.interferer != nil {
		f := w.interferer
		w.interferer = nil
		f()
		return false
	}
	return true
}

// StoredPoolSize: the size of the Pool object p1 as stored (-1: no such object).
func (v *VerifPoolWorld) StoredPoolSize() int {
	if p, ok := v.w.pools["p1"]; ok {
		return p.Size
	}
	return -1
}

// DeletePoolObject removes the Pool object (the pool is then a named pool without size).
func (v *VerifPoolWorld) DeletePoolObject() { delete(v.w.pools, "p1"); v.w.syncListers() }

// PoolLister: the informer cache of Pool objects (what the plugin's listers see; it follows the store only when
// SyncListers is called).
func (v *VerifPoolWorld) PoolLister() galaxylister.PoolLister { return &vpPoolLister{w: v.w} }

// SetStoredPoolSize writes the Pool object in the store without letting the informer cache catch up.
func (v *VerifPoolWorld) SetStoredPoolSize(size int) { v.w.setPool("p1", size) }

// SetStoredPool writes size and pre-allocation flag of the Pool object in the store (the cache does not catch up).
func (v *VerifPoolWorld) SetStoredPool(size int, pre bool) {
	v.w.setPool("p1", size)
	v.w.pools["p1"].PreAllocateIP = pre
}

// StoredPoolPreAllocate: the pre-allocation flag of the stored Pool object.
func (v *VerifPoolWorld) StoredPoolPreAllocate() bool {
	if p, ok := v.w.pools["p1"]; ok {
		return p.PreAllocateIP
	}
	return false
}

// SyncListers lets the informer caches catch up with the store.
func (v *VerifPoolWorld) SyncListers() { v.w.syncListers() }
