package schedulerplugin

import (
	corev1 "k8s.io/api/core/v1"
	metav1 "k8s.io/apimachinery/pkg/apis/meta/v1"
	"k8s.io/apimachinery/pkg/types"
	"k8s.io/apimachinery/pkg/api/resource"
	"tkestack.io/galaxy/pkg/api/galaxy/constant"
	"tkestack.io/galaxy/pkg/ipam/floatingip"
)

// C18 (galaxy-ipam typed surfaces): for every pod object the scheduler / API server can deliver, Filter, Bind,
// the pod event handlers, the pod-IP sync and resync answer in bounded time: no panic, no endless loop, no lock left held.

// ASSUME: C18: structurally valid objects: Deployment.Spec.Replicas is defaulted (non-nil), pod names/namespaces are DNS-1123, annotation values are arbitrary text
// ASSUME: C18: termination is claimed within the unwinding/step bound of the engine only (a finite but huge range walk is outside the claim)

var vpCniArgsFamily = []string{
	"", "{}", "null", "[]", "{", `"x"`, `{"request_ip_range":[]}`, `{"request_ip_range":[[]]}`, `{"request_ip_range":"x"}`,
	`{"request_ip_range":[["10.1.0.10"]]}`, `{"request_ip_range":[["10.1.0.12~10.1.0.10"]]}`, `{"request_ip_range":[["10.1.0.10~10.1.0.12"],["10.1.0.11"]]}`,
	`{"request_ip_range":[["255.255.255.254~255.255.255.255"]]}`, `{"request_ip_range":[["fd00::1"]]}`, `{"request_ip_range":[["0.0.0.0~0.0.0.1"]]}`, `{"request_ip_range":[["::1~::5"]]}`,
	`{"common":{"ipinfos":[{"ip":null}]}}`, `{"common":{"ipinfos":[{}]}}`, `{"common":{"ipinfos":[{"ip":"10.1.0.10/24","vlan":2,"gateway":"10.1.0.1"}]}}`,
	`{"common":{"ipinfos":[{"ip":"10.9.9.9/24","vlan":70000}]}}`,
}

var vpOwnerFamily = [][]metav1.OwnerReference{
	nil,
	{{Kind: "StatefulSet", Name: "ss"}},
	{{Kind: "ReplicaSet", Name: "app-rs1"}},
	{{Kind: "ReplicaSet", Name: "norsdash"}},
	{{Kind: "ReplicaSet", Name: "-"}},
	{{Kind: "TApp", Name: "tapp"}},
	{{Kind: "Job", Name: ""}},
	{{Kind: "", Name: ""}},
	{{Kind: "StatefulSet", Name: "ss"}, {Kind: "ReplicaSet", Name: "app-rs1"}},
}

// vpAnyPod builds a pod with arbitrary owner references and annotations.
func vpAnyPod(name, uid string, phase corev1.PodPhase) *corev1.Pod {
	pod := &corev1.Pod{ObjectMeta: metav1.ObjectMeta{Name: name, Namespace: vpNS, UID: types.UID(uid)}}
	nOwners, nArgs := len(vpOwnerFamily), len(vpCniArgsFamily)
	if verifTier() == 0 {
		nOwners, nArgs = 6, 14 // quick: the first 6 owner lists and 14 annotation texts (incl. a genuine IPv6 address); thorough: all
	}
	pod.OwnerReferences = vpOwnerFamily[nondetChoice(nOwners)]
	switch nondetChoice(3) {
	case 1:
		pod.Annotations = map[string]string{}
	case 2:
		pod.Annotations = map[string]string{
			constant.ReleasePolicyAnnotation:   nondetPick("", "immutable", "never", "x"),
			constant.ExtendedCNIArgsAnnotation: vpCniArgsFamily[nondetChoice(nArgs)],
		}
		if nondetBool() {
			pod.Annotations[constant.IPPoolAnnotation] = nondetPick("p1", "", "a_b")
		}
	}
	if nondetChoice(6) != 0 { // most pods request a floating IP, some do not
		pod.Spec.Containers = []corev1.Container{{Name: "c", Resources: corev1.ResourceRequirements{
			Requests: corev1.ResourceList{constant.ResourceName: resource.Quantity{}}}}}
	}
	pod.Status.Phase = phase
	return pod
}

// BOUND: topology 0; pod name over {ss-0, x, a-}; owner references over 6 (quick) or 9 lists (none, StatefulSet, ReplicaSet with/without dash, "-", custom kind, empty names/kinds, two owners); annotations absent / empty / {policy over 4 texts (symbolic), cni args over 14 (quick) or 20 texts (invalid JSON, wrong shapes, reversed, overlapping, boundary and IPv6 ranges, null ip infos), optional pool over 3 texts}; workloads {all present with symbolic replicas/size 0..2, none}; operations Filter (+Bind on an approved node), Bind without Filter, UpdatePod over phase pairs, DeletePod + event handling, syncPodIP of a running pod; then resync and a follow-up call
func VerifC18_q_pluginSurface() {
	w := vpNewWorld(0, false)
	if err := w.configure(); err != nil {
		return
	}
	if nondetBool() {
		w.setDeployment(int32(nondetInt(0, 2)))
		w.setStatefulSet(int32(nondetInt(0, 2)))
		w.setPool("p1", nondetInt(0, 2))
		w.tapps["tapp"] = 1
	}
	name := []string{"ss-0", "x", "a-"}[nondetChoice(3)]
	op := nondetChoice(5)
	phase := corev1.PodPending
	switch op {
	case 1:
		phase = []corev1.PodPhase{corev1.PodRunning, corev1.PodSucceeded, corev1.PodFailed}[nondetChoice(3)]
	case 2:
		phase = []corev1.PodPhase{corev1.PodRunning, corev1.PodSucceeded}[nondetChoice(2)]
	case 3:
		phase = corev1.PodRunning
	}
	pod := vpAnyPod(name, "U1", phase)
	w.createPod(pod)
	w.syncListers()
	switch op {
	case 0:
		nodes, err := w.filter(name, "n1", "n2", "n3")
		if err == nil && len(nodes) > 0 {
			_ = w.bind(name, nodes[0])
		}
	case 1:
		old := vpCopyPod(pod)
		old.Status.Phase = corev1.PodRunning
		_ = w.plugin.UpdatePod(old, pod)
		w.drainEvents()
		for len(w.pending) > 0 {
			_ = w.handleEvent(0)
		}
	case 2:
		w.deletePod(name)
		for len(w.pending) > 0 {
			_ = w.handleEvent(0)
		}
	case 3:
		_ = w.plugin.syncPodIP(pod)
	case 4:
		_ = w.bind(name, "n1")
	}
	w.resync()
	verifReach("answered")
	verifAssert("C18/no-lock-held", w.noLockHeld(), "a pod or pool lock is still held after the operation")
	// a follow-up call on the same instance still answers
	if _, exists := w.pods[name]; exists {
		_, _ = w.filter(name, "n1")
	} else {
		w.resync()
	}
	verifAssert("C18/follow-up-answers", w.noLockHeld(), "a follow-up call left a lock held")
}

// BOUND: 1..2 requested ranges with symbolic 32-bit endpoints (first <= last, width <= 3, including ranges ending at 255.255.255.255) walked by the real walkIPRanges-based queries of the IPAM
func VerifC18_q_rangeWalkTerminates() {
	verifUnwind(9)
	w := vpNewWorld(0, false)
	if err := w.configure(); err != nil {
		return
	}
	floatingipWalk(w)
	verifReach("walked")
}

func floatingipWalk(w *vpWorld) {
	n := nondetChoice(2) + 1
	visited := floatingip.VerifWalk(n)
	verifAssert("C18/walk-bounded", visited <= 8, "the range walk visited more addresses than the ranges hold")
}


// BOUND: topologies {0,1}; a statefulset pod or a deployment pod in a sized pool p1 is filtered and bound while one API-server call fails cleanly at a symbolic position 1..12; afterwards resync and the scheduling of another pod must still answer (no lock left held by the failed operation)
func VerifC18_q_faultThenFollowUp() {
	w := vpNewWorld(nondetChoice(2), false)
	if err := w.configure(); err != nil {
		return
	}
	w.setStatefulSet(3)
	w.setDeployment(3)
	w.setPool("p1", 2)
	kind, pool := vpKindSts, ""
	if nondetBool() {
		kind, pool = vpKindDp, "p1"
	}
	name := vpPodNameOf(kind, 0)
	w.createPod(vpMakePod(name, "U1", kind, "", pool, ""))
	w.syncListers()
	w.faultAt = nondetInt(1, 12)
	nodes, err := w.filter(name, "n1", "n2", "n3")
	if err == nil && len(nodes) > 0 {
		_ = w.bind(name, nodes[0])
	}
	w.faultAt = 0
	verifReach("first-operation-returned")
	verifAssert("C18/no-lock-held-after-fault", w.noLockHeld(), "a key lock is still held after an operation that hit an API failure")
	// follow-up calls on the same instance
	w.resync()
	other := vpPodNameOf(vpKindSts, 1)
	w.createPod(vpMakePod(other, "V1", vpKindSts, "", "", ""))
	w.syncListers()
	if nodes, err := w.filter(other, "n1", "n2", "n3"); err == nil && len(nodes) > 0 {
		_ = w.bind(other, nodes[0])
	}
	verifReach("follow-up-answered")
	verifAssert("C18/no-lock-held-after-follow-up", w.noLockHeld(), "a key lock is still held after the follow-up calls")
}

// BOUND: topology 0; a statefulset pod (symbolic policy) bound and running; then 2 steps (thorough: 3), each out of {the administrator's release API for its IP (refused while the pod runs, accepted once it is gone), the pod finishes, the pod is deleted, a queued event is handled, a resync pass}; after every step no pod / pool key lock may be left held; finally the same-named pod is re-created, filtered and bound and a resync pass runs (all of which take the same key locks)
func VerifC18_q_operationsLeaveNoLock() {
	w := vpNewWorld(0, false)
	if err := w.configure(); err != nil {
		return
	}
	w.setStatefulSet(3)
	policy := nondetPick("", "immutable", "never")
	name := "ss-0"
	w.createPod(vpMakePod(name, "U1", vpKindSts, policy, "", ""))
	w.syncListers()
	nodes, err := w.filter(name, "n1", "n2", "n3")
	if err != nil || len(nodes) == 0 || w.bind(name, nodes[0]) != nil {
		return
	}
	w.setRunning(name)
	w.syncListers()
	ip := vpBoundIPs(w.pods[name])[0]
	verifAssert("C18/no-lock-held-after-bind", w.noLockHeld(), "a key lock is still held after filter and bind returned")
	for i := 0; i < 2+verifTier(); i++ {
		switch nondetChoice(5) {
		case 0:
			_ = w.apiRelease(ip)
		case 1:
			if w.pods[name] != nil {
				w.finishPod(name)
				w.syncListers()
			}
		case 2:
			if w.pods[name] != nil {
				w.deletePod(name)
				w.syncListers()
			}
		case 3:
			if len(w.pending) > 0 {
				_ = w.handleEvent(0)
			}
		case 4:
			w.resync()
		}
		verifAssert("C18/no-lock-held-after-operation", w.noLockHeld(), "a key lock is still held after an operation returned")
	}
	verifReach("operations-returned")
	if w.pods[name] != nil {
		w.deletePod(name)
		w.syncListers()
	}
	for len(w.pending) > 0 {
		_ = w.handleEvent(0)
	}
	w.createPod(vpMakePod(name, "U2", vpKindSts, policy, "", ""))
	w.syncListers()
	if nodes, err := w.filter(name, "n1", "n2", "n3"); err == nil && len(nodes) > 0 {
		_ = w.bind(name, nodes[0])
	}
	w.resync()
	verifReach("follow-up-on-same-key-answered")
	verifAssert("C18/no-lock-held-at-end", w.noLockHeld(), "a key lock is still held after the follow-up operations")
}
