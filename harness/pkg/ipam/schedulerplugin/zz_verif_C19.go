package schedulerplugin

import (
	"net"
	"sync"

	"github.com/prometheus/client_golang/prometheus"
	corev1 "k8s.io/api/core/v1"
	extensionsv1 "k8s.io/apiextensions-apiserver/pkg/apis/apiextensions/v1"
	extensionlister "k8s.io/apiextensions-apiserver/pkg/client/listers/apiextensions/v1"
	"k8s.io/apimachinery/pkg/labels"
	"tkestack.io/galaxy/pkg/api/k8s/schedulerapi"
	"tkestack.io/galaxy/pkg/ipam/schedulerplugin/util"
)

// C19 (galaxy-ipam): every pair of plugin entry points - scheduler requests (Filter, Bind), pod events (AddPod,
// UpdatePod of a running pod, DeletePod, the unbind the event loop runs), one resync pass, the pod-IP sync pass, the
// release API, a configuration reload, a metric scrape - run by two logical threads on one shared plugin instance,
// touches shared memory only under a common lock.

// vpSyncKeyMutex: one sync.Mutex per key (the real hashed key mutex may only add collisions); thread-safe natively.
type vpSyncKeyMutex struct {
	mu sync.Mutex
	m  map[string]*sync.Mutex
}

func (k *vpSyncKeyMutex) of(id string) *sync.Mutex {
	k.mu.Lock()
	defer k.mu.Unlock()
	if k.m == nil {
		k.m = map[string]*sync.Mutex{}
	}
	l, ok := k.m[id]
	if !ok {
		l = &sync.Mutex{}
		k.m[id] = l
	}
	return l
}
func (k *vpSyncKeyMutex) LockKey(id string)         { k.of(id).Lock() }
func (k *vpSyncKeyMutex) UnlockKey(id string) error { k.of(id).Unlock(); return nil }

const vpNumRaceOps = 14

// prepRaceOp draws what the entry point needs (before the concurrent phase) and returns the call.
func (w *vpWorld) prepRaceOp(op int, bound, pending, pending2 *corev1.Pod) func() {
	p := w.plugin
	nodes := w.nodeList("n1", "n2", "n3")
	switch op {
	case 0:
		return func() { _, _, _ = p.Filter(pending, nodes) }
	case 1:
		return func() {
			_ = p.Bind(&schedulerapi.ExtenderBindingArgs{PodName: pending.Name, PodNamespace: vpNS, PodUID: pending.UID, Node: "n1"})
		}
	case 2:
		return func() { _, _, _ = p.Filter(pending2, nodes) }
	case 3:
		return func() {
			_ = p.Bind(&schedulerapi.ExtenderBindingArgs{PodName: pending2.Name, PodNamespace: vpNS, PodUID: pending2.UID, Node: "n5"})
		}
	case 4:
		return func() { _ = p.AddPod(bound); _ = p.UpdatePod(bound, bound) }
	case 5:
		gone := vpCopyPod(bound)
		return func() { _ = p.DeletePod(gone) }
	case 13:
		gone := vpCopyPod(bound)
		return func() { _ = p.unbind(gone) } // one of the five event-loop workers
	case 6:
		return func() { _ = p.resyncPod() }
	case 7:
		return func() { p.syncPodIPsIntoDB() }
	case 8:
		ips := vpBoundIPs(bound)
		k := util.ParseKey(vpKeyOf(bound))
		return func() {
			if len(ips) > 0 {
				_ = p.Release(&ReleaseRequest{KeyObj: k, IP: net.ParseIP(ips[0])})
			}
		}
	case 9:
		return func() { _, _ = p.updateConfigMap() }
	case 10:
		return func() {
			if c, ok := p.ipam.(prometheus.Collector); ok {
				c.Collect(make(chan prometheus.Metric, 64))
			}
		}
	case 11:
		return func() { _, _ = p.Prioritize(pending, nodes) }
	default:
		fin := vpCopyPod(bound)
		fin.Status.Phase = corev1.PodSucceeded
		return func() { _ = p.UpdatePod(bound, fin) }
	}
}

// vpRaceClass: which goroutine(s) of the daemon run the entry point.  Run() starts exactly one configuration-reload
// goroutine and one resync goroutine (resyncPod, then syncPodIPsIntoDB), and one informer goroutine delivers the pod
// events; everything else (scheduler and API handlers, the five event-loop workers, metric scrapes) runs concurrently
// with itself.  A pair of entry points of one single-goroutine class cannot overlap.
func vpRaceClass(op int) (class string, single bool) {
	switch op {
	case 4, 5, 12:
		return "informer", true
	case 6, 7:
		return "resync", true
	case 9:
		return "config", true
	case 13:
		return "loop", false
	case 8:
		return "api", false
	case 10:
		return "metrics", false
	}
	return "scheduler", false
}

// BOUND: topology T1; one statefulset pod bound and running, a second statefulset pod and a deployment pod pending (quick: default release policy; thorough: release policy of the pods symbolic over the 3 policies); every unordered pair of 14 entry points that the daemon's goroutine structure lets overlap (not two of the single reload goroutine, of the single resync goroutine or of the single informer goroutine) {Filter / Bind of either pending pod, AddPod+UpdatePod of the running pod, DeletePod, unbind (event-loop worker), resyncPod, syncPodIPsIntoDB, Release (API), updateConfigMap (configuration changed or unchanged), metrics Collect, Prioritize, UpdatePod to Succeeded}; shared cells = everything reachable from the plugin instance (incl. its crdIpam) before the concurrent phase plus the package-level variables of the module; the pod / pool key mutexes are exact per key
// ASSUME: lock-set discipline as in VerifC19_q_ipamPairs; fakes of the API server, listers and CRD caches are harness code (their own state is not analysed)
func VerifC19_q_pluginPairs() {
	w := vpNewWorld(0, false)
	w.plugin.podLockPool, w.plugin.dpLockPool = &vpSyncKeyMutex{}, &vpSyncKeyMutex{}
	text, _ := vpConfig(0, 0)
	w.configMap = text
	if err := w.reload(text); err != nil {
		panic(err)
	}
	policy := ""
	if verifTier() > 0 {
		policy = nondetPick("", "immutable", "never")
	}
	w.setStatefulSet(3)
	w.setDeployment(2)
	boundName := vpPodNameOf(vpKindSts, 0)
	w.createPod(vpMakePod(boundName, "U"+boundName, vpKindSts, policy, "", ""))
	w.syncListers()
	if w.bind(boundName, "n1") != nil {
		return
	}
	w.setRunning(boundName)
	pendingName, pending2Name := vpPodNameOf(vpKindSts, 1), vpPodNameOf(vpKindDp, 0)
	w.createPod(vpMakePod(pendingName, "U"+pendingName, vpKindSts, policy, "", ""))
	w.createPod(vpMakePod(pending2Name, "U"+pending2Name, vpKindDp, policy, "", ""))
	w.syncListers()
	if nondetBool() {
		// the configuration in the ConfigMap differs from the one in force: the reload rebuilds the tables
		w.configMap, _ = vpConfig(0, 2)
	}
	i := nondetChoice(vpNumRaceOps)
	j := nondetChoice(vpNumRaceOps)
	verifAssume(i <= j)
	ci, si := vpRaceClass(i)
	cj, _ := vpRaceClass(j)
	verifAssume(!(si && ci == cj))
	a := w.prepRaceOp(i, w.pods[boundName], w.pods[pendingName], w.pods[pending2Name])
	b := w.prepRaceOp(j, w.pods[boundName], w.pods[pendingName], w.pods[pending2Name])
	verifRace([]interface{}{w.plugin}, a, b)
}

// ---- the real CRD key cache (crdkey.go) behind a fake CRD lister

type vpCRDLister struct {
	extensionlister.CustomResourceDefinitionLister
	crds []*extensionsv1.CustomResourceDefinition
}

func (l *vpCRDLister) List(sel labels.Selector) ([]*extensionsv1.CustomResourceDefinition, error) {
	return l.crds, nil
}

func vpScalableCRD(kind, plural string) *extensionsv1.CustomResourceDefinition {
	c := &extensionsv1.CustomResourceDefinition{}
	c.Spec.Group = "apps.tkestack.io"
	c.Spec.Names.Kind, c.Spec.Names.Plural = kind, plural
	c.Spec.Versions = []extensionsv1.CustomResourceDefinitionVersion{{Name: "v1", Subresources: &extensionsv1.CustomResourceSubresources{
		Scale: &extensionsv1.CustomResourceSubresourceScale{SpecReplicasPath: ".spec.replicas"}}}}
	return c
}

// BOUND: the real crdKey over a lister with two scalable custom resource definitions; two concurrent GetGroupVersionResource calls with prefixes out of {known and cached, known and not yet cached, unknown}
func VerifC19_q_crdKeyPairs() {
	k := NewCrdKey(&vpCRDLister{crds: []*extensionsv1.CustomResourceDefinition{vpScalableCRD("TApp", "tapps"), vpScalableCRD("Foo", "foos")}})
	if nondetBool() {
		_ = k.GetGroupVersionResource("tapp_") // warm the cache
	}
	a := nondetPick("tapp_", "foo_", "nosuch_")
	b := nondetPick("tapp_", "foo_", "nosuch_")
	verifRace([]interface{}{k}, func() { _ = k.GetGroupVersionResource(a) }, func() { _ = k.GetGroupVersionResource(b) })
}
