package schedulerplugin

// BOUND: topologies {0,1}; kinds {statefulset, deployment}; symbolic policy; old incarnation finished and/or deleted, events handled before / after / never (1+1 housekeeping steps incl. resync); new incarnation scheduled onto any approved node among n1,n5,n2,n3; no faults
func VerifC02_q_sticky() {
	vpReincarnation(vpScenarioOpts{prop: "C02", topos: []int{0, 1}, kinds: []int{vpKindSts, vpKindDp}, earlySteps: 1, lateSteps: 1, nodes: []string{"n1", "n5", "n2", "n3"}})
}

// BOUND: topology 0; kinds {statefulset, deployment}; symbolic policy; as VerifC02_q_sticky with 2 housekeeping steps while the pod is away, each out of {nothing, handle an event, resync, restart of galaxy-ipam (new plugin, tables rebuilt from the store, queued events lost)}: the reservation survives a restart followed by a resync
func VerifC02_q_stickyAcrossRestart() {
	vpReincarnation(vpScenarioOpts{prop: "C02", topos: []int{0}, kinds: []int{vpKindSts, vpKindDp}, earlySteps: 2, lateSteps: 0, nodes: []string{"n1", "n5", "n3"}, restarts: true})
}


// BOUND: topology 1 (4 IPs, two node subnets); a deployment with replicas 1 or 2 whose pods use a reserving policy (immutable, never) or a named pool p1 (without a Pool object, or with a Pool object of size replicas+1); all replicas bound; then a surge rolling update of one pod: the replacement is created and filtered before or after the old pod is deleted and its event handled (either order, a rejected filter is retried after the event; one API-server / store call of the replacement's last Filter may fail cleanly at a symbolic position 0..4 and a Filter that answered with an error is retried); the replacement must be bound with an IP the deployment already held and the deployment never holds more IPs than replicas
func VerifC02_q_rollingUpdate() {
	w := vpNewWorld(1, false)
	if err := w.configure(); err != nil {
		return
	}
	replicas := nondetChoice(2) + 1
	limit := replicas
	w.setDeployment(int32(replicas))
	policy, pool := "", ""
	switch nondetChoice(4) {
	case 0:
		policy = "immutable"
	case 1:
		policy = "never"
	case 2:
		pool = "p1"
	case 3: // a Pool object defines the pool's size (room for one more address than the deployment needs)
		pool = "p1"
		w.setPool("p1", replicas+1)
		limit = replicas + 1 // the bound of a sized pool is its size
	}
	prefix := "dp_ns_app_"
	if pool != "" {
		prefix = "pool__p1_"
	}
	count := func() int {
		n := 0
		for _, e := range w.dump() {
			if e.Allocated && vpHasPrefix(e.Key, prefix) {
				n++
			}
		}
		return n
	}
	held := map[string]bool{}
	for i := 0; i < replicas; i++ {
		name := vpPodNameOf(vpKindDp, i)
		w.createPod(vpMakePod(name, "U"+name, vpKindDp, policy, pool, ""))
		w.syncListers()
		nodes, err := w.filter(name, "n1", "n2", "n3")
		if err != nil || len(nodes) == 0 || w.bind(name, nodes[0]) != nil {
			return
		}
		w.setRunning(name)
		for _, ip := range vpBoundIPs(w.pods[name]) {
			held[ip] = true
		}
	}
	w.syncListers()
	verifAssert("C02/app-ip-count", count() <= limit, "the deployment holds more IPs than replicas after the initial rollout")
	old := vpPodNameOf(vpKindDp, 0)
	repl := vpPodNameOf(vpKindDp, 7)
	w.createPod(vpMakePod(repl, "U"+repl, vpKindDp, policy, pool, ""))
	w.syncListers()
	var approved []string
	freshIsRight := false
	endOld := func() {
		w.deletePod(old)
		w.syncListers()
		for len(w.pending) > 0 {
			_ = w.handleEvent(0)
		}
	}
	if nondetBool() {
		// surge: the replacement is filtered while the old pod still exists
		approved, _ = w.filter(repl, "n1", "n2", "n3")
		verifAssert("C02/app-ip-count", count() <= limit, "filtering a replacement pod made the deployment hold more IPs than replicas")
		// a sized pool with room left serves the surge pod at once: nothing is in reserve yet, a fresh address is right
		freshIsRight = limit > replicas && len(approved) > 0
		endOld()
	} else {
		endOld()
	}
	if len(approved) == 0 {
		// one API-server / store call of this Filter may fail cleanly (symbolic position, 0 = none); the scheduler
		// retries a Filter that answered with an error
		w.calls, w.faultAt = 0, nondetInt(0, 4)
		var ferr error
		approved, ferr = w.filter(repl, "n1", "n2", "n3")
		w.faultAt = 0
		if ferr != nil {
			approved, _ = w.filter(repl, "n1", "n2", "n3")
		}
	}
	verifAssert("C02/app-ip-count", count() <= limit, "the deployment holds more IPs than replicas during a rolling update")
	if len(approved) == 0 {
		return
	}
	if w.bind(repl, approved[nondetChoice(len(approved))]) != nil {
		return
	}
	verifReach("replacement-bound")
	for _, ip := range vpBoundIPs(w.pods[repl]) {
		verifAssert("C02/replacement-takes-held-ip", held[ip] || freshIsRight, "the replacement pod of a deployment with a reserving policy / named pool was bound with a fresh IP instead of one the deployment held")
	}
	verifAssert("C02/app-ip-count", count() <= limit, "the deployment holds more IPs than replicas after a rolling update")
	own := 0
	for _, e := range w.dump() {
		if e.Allocated && e.Key == vpKeyOf(w.pods[repl]) {
			own++
		}
	}
	verifAssert("C02/replacement-one-ip", own == len(vpBoundIPs(w.pods[repl])), "the replacement pod's key holds more addresses than the pod was bound with")
	w.checkAll("C02", "rolling update")
}

// BOUND: topology 1 (4 IPs); a deployment with the immutable policy, replicas 3, three pods bound; scaled to 2 (one IP is surplus) or left at 3 (none is); two of its pods are deleted; the unbind of the first runs while the unbind of the second runs as a second logical thread starting inside any one window right before/after an API-server or IPAM call of the first (symbolic window 0..14), parking wherever it needs a key lock the first holds; then caches catch up and one resync pass. Afterwards the replacement of a deleted pod must be bound with an IP the deployment held (the reserve was not released by mistake)
// ASSUME: C02: same scenario as VerifC03_q_concurrentUnbinds, checked under C02
func VerifC02_q_concurrentUnbinds() { vpConcurrentUnbinds("C02") }

// BOUND: topology 1; a named pool p1 (no Pool object) shared by two deployments app and app2 (replicas 1 each) whose pods carry the pool annotation and a release policy out of {none, immutable, never} (a pool forces "never"); both bound; app's pod is deleted and its event handled (or lost, then resync); the replacement pod of app must be bound with the IP its predecessor held (kept for the pool), whatever app2 holds in the same pool
func VerifC02_q_sharedPoolSticky() {
	w := vpNewWorld(1, false)
	if err := w.configure(); err != nil {
		return
	}
	w.setDeployment(1)
	w.setDeployment2(1)
	policy := nondetPick("", "immutable", "never")
	a, b := vpPodNameOf(vpKindDp, 0), vpPodNameOf(vpKindDp2, 0)
	for _, name := range []string{b, a} {
		kind := vpKindDp
		if name == b {
			kind = vpKindDp2
		}
		w.createPod(vpMakePod(name, "U"+name, kind, policy, "p1", ""))
		w.syncListers()
		nodes, err := w.filter(name, "n1", "n2", "n3")
		if err != nil || len(nodes) == 0 || w.bind(name, nodes[0]) != nil {
			return
		}
		w.setRunning(name)
	}
	w.syncListers()
	heldByA := vpBoundIPs(w.pods[a])
	w.deletePod(a)
	w.syncListers()
	if nondetBool() {
		for len(w.pending) > 0 {
			_ = w.handleEvent(0)
		}
	} else {
		w.pending = nil
		w.resync()
	}
	w.checkAll("C02", "the end of a pod of a shared pool")
	repl := vpPodNameOf(vpKindDp, 7)
	w.createPod(vpMakePod(repl, "U"+repl, vpKindDp, policy, "p1", ""))
	w.syncListers()
	nodes, err := w.filter(repl, "n1", "n2", "n3")
	if err != nil || len(nodes) == 0 {
		return
	}
	if w.bind(repl, nodes[nondetChoice(len(nodes))]) != nil {
		return
	}
	verifReach("shared-pool-replacement-bound")
	now := vpBoundIPs(w.pods[repl])
	verifAssert("C02/shared-pool-sticky", len(now) == 1 && len(heldByA) == 1 && now[0] == heldByA[0], "the replacement pod of a deployment in a shared pool was bound with another IP than the one its predecessor held for the pool")
	w.checkAll("C02", "binding the replacement in a shared pool")
}

// BOUND: topology 1 (4 IPs); a deployment (replicas 2) with a reserving policy (immutable, never) or a named pool p1; both pods bound; both are deleted and their events handled (two addresses in reserve); two replacement pods are created; both are filtered (in either order) before either is bound, then both are bound on an approved node. Each replacement must be bound with one of the two addresses the app held, the two must differ, and the app holds no more addresses than replicas
func VerifC02_q_twoReplacements() {
	w := vpNewWorld(1, false)
	if err := w.configure(); err != nil {
		return
	}
	w.setDeployment(2)
	policy, pool := "", ""
	switch nondetChoice(3) {
	case 0:
		policy = "immutable"
	case 1:
		policy = "never"
	case 2:
		pool = "p1"
	}
	held := map[string]bool{}
	for i := 0; i < 2; i++ {
		name := vpPodNameOf(vpKindDp, i)
		w.createPod(vpMakePod(name, "U"+name, vpKindDp, policy, pool, ""))
		w.syncListers()
		nodes, err := w.filter(name, "n1", "n2", "n3")
		if err != nil || len(nodes) == 0 || w.bind(name, nodes[0]) != nil {
			return
		}
		w.setRunning(name)
		for _, ip := range vpBoundIPs(w.pods[name]) {
			held[ip] = true
		}
	}
	w.syncListers()
	for i := 0; i < 2; i++ {
		w.deletePod(vpPodNameOf(vpKindDp, i))
		w.syncListers()
		for len(w.pending) > 0 {
			_ = w.handleEvent(0)
		}
	}
	repl := []string{vpPodNameOf(vpKindDp, 7), vpPodNameOf(vpKindDp, 8)}
	if nondetBool() {
		repl[0], repl[1] = repl[1], repl[0]
	}
	approved := map[string][]string{}
	for _, r := range repl {
		w.createPod(vpMakePod(r, "U"+r, vpKindDp, policy, pool, ""))
		w.syncListers()
		nodes, err := w.filter(r, "n1", "n2", "n3")
		if err != nil || len(nodes) == 0 {
			return
		}
		approved[r] = nodes
	}
	seen := map[string]bool{}
	for _, r := range repl {
		nodes := approved[r]
		berr := w.bind(r, nodes[nondetChoice(len(nodes))])
		verifAssert("C02/two-replacements-bind", berr == nil, "Bind of a replacement pod failed on a node its Filter approved (the address Filter had re-keyed to it is gone)")
		if berr != nil {
			return
		}
		w.setRunning(r)
		for _, ip := range vpBoundIPs(w.pods[r]) {
			verifAssert("C02/two-replacements-take-held-ips", held[ip], "a replacement pod was bound with a fresh address although the app held addresses in reserve")
			verifAssert("C02/two-replacements-differ", !seen[ip], "two replacement pods of one app were bound with the same address")
			seen[ip] = true
		}
	}
	w.syncListers()
	verifReach("two-replacements-bound")
	w.checkAll("C02", "binding two replacement pods that were filtered before either was bound")
}
