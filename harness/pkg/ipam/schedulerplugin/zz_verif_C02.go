package schedulerplugin

// BOUND: topologies {0,1}; kinds {statefulset, deployment}; symbolic policy; old incarnation finished and/or deleted, events handled before / after / never (1+1 housekeeping steps incl. resync); new incarnation scheduled onto any approved node among n1,n5,n2,n3; no faults
func VerifC02_q_sticky() {
	vpReincarnation(vpScenarioOpts{prop: "C02", topos: []int{0, 1}, kinds: []int{vpKindSts, vpKindDp}, earlySteps: 1, lateSteps: 1, nodes: []string{"n1", "n5", "n2", "n3"}})
}
