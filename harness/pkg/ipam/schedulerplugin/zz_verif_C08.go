package schedulerplugin

import (
	"fmt"

	"tkestack.io/galaxy/pkg/api/galaxy/constant"
	"tkestack.io/galaxy/pkg/ipam/floatingip"
)

// C08 at Bind level: whenever the Bind of a pod requesting k ranges fails - an API fault, a range without a free
// address, or a pre-owned range that still carries the former incarnation's uid ("waiting for delete event") -
// none of the k IPs stays newly allocated; a successful Bind reports exactly one IP per range in request order.

// BOUND: topologies {0,1,2,3}; a statefulset pod (symbolic policy) requesting 2..3 single-address ranges out of the topology's addresses; optionally a restart of galaxy-ipam after the pre-state was built; pre-state: optionally one of the requested addresses already belongs to the pod's key with the uid of its former incarnation (delete event not handled yet) or with the pod's own uid, optionally another requested address belongs to another pod; optionally one FloatingIP object creation of the Bind fails cleanly at a symbolic position 1..4; Bind on any node Filter approves
// ASSUME: C08: "newly allocated" = allocated after the Bind but not before it
func VerifC08_q_bindAllOrNothing() {
	w := vpNewWorld(nondetChoice(floatingip.VNumTopologies), false)
	if err := w.configure(); err != nil {
		return
	}
	policy := nondetPick("", "immutable", "never")
	w.setStatefulSet(2)
	name := vpPodNameOf(vpKindSts, 0)
	k := 2 + nondetChoice(2)
	verifAssume(len(w.ips) >= k)
	order := []string{w.ips[0], w.ips[len(w.ips)-1], w.ips[1]}
	ranges := "["
	for i := 0; i < k; i++ {
		if i > 0 {
			ranges += ","
		}
		ranges += fmt.Sprintf(`["%s"]`, order[i])
	}
	ranges += "]"
	pod := vpMakePod(name, "U2", vpKindSts, policy, "", ranges)
	w.createPod(pod)
	w.syncListers()
	key := vpKeyOf(pod)
	switch nondetChoice(3) {
	case 1: // a requested address still carries the former incarnation's uid
		i := nondetChoice(k)
		_ = w.plugin.ipam.AllocateSpecificIP(key, vpIP(order[i]), floatingip.Attr{Policy: constant.ReleasePolicyPodDelete, NodeName: "n1", Uid: "U1"})
	case 2: // ... or already this pod's uid (a former, failed bind)
		i := nondetChoice(k)
		_ = w.plugin.ipam.AllocateSpecificIP(key, vpIP(order[i]), floatingip.Attr{Policy: constant.ReleasePolicyPodDelete, NodeName: "n1", Uid: "U2"})
	}
	if nondetBool() {
		// galaxy-ipam restarts (tables rebuilt from the store) between the earlier allocation and this scheduling round
		if w.restart() != nil {
			return
		}
	}
	if nondetBool() { // another pod owns one of the requested addresses
		_ = w.plugin.ipam.AllocateSpecificIP("sts_ns_ss_ss-7", vpIP(order[nondetChoice(k)]), floatingip.Attr{Policy: constant.ReleasePolicyPodDelete, NodeName: "n1", Uid: "U7"})
	}
	before := w.dump()
	approved, err := w.filter(name, "n1", "n5", "n2", "n3", "n4")
	if err != nil || len(approved) == 0 {
		verifAssert("C08/filter-allocates-nothing", vpSameAllocations(before, w.dump()), "a Filter that approved no node changed the allocation table")
		return
	}
	// the property quantifies over a failure of any single object creation: faults go into FloatingIP creations only
	// (a failing attribute update of a re-used IP, or a failing binding call, leaves the fresh IPs with the pod's key on
	// purpose: the retried bind re-uses them)
	w.faultKinds = map[string]bool{"create": true}
	w.calls, w.faultAt = 0, nondetInt(0, 4)
	node := approved[nondetChoice(len(approved))]
	berr := w.bind(name, node)
	w.faultAt = 0
	verifReach("bind-returned")
	after := w.dump()
	if berr != nil {
		verifReach("bind-failed")
		for i, e := range after {
			verifAssert("C08/failed-bind-allocates-nothing", !e.Allocated || before[i].Allocated, "a failed Bind left "+e.IP+" newly allocated to "+e.Key)
		}
		verifAssert("C08/failed-bind-agree", w.agree(), "memory and store disagree after a failed Bind")
		return
	}
	ips := vpBoundIPs(w.pods[name])
	verifAssert("C08/bind-one-ip-per-range", len(ips) == k, "a successful Bind did not report one IP per requested range")
	for i := 0; i < k && i < len(ips); i++ {
		verifAssert("C08/bind-request-order", ips[i] == order[i], "the i-th reported IP is not the one of the i-th requested range")
	}
	for _, ip := range ips {
		// routable: the pool that defines the address (from the configuration, not from the tables) lists the node's subnet
		x, ok := floatingip.VerifExpect(w.topo, ip)
		verifAssert("C08/bind-all-routable", ok && vpHas(x.NodeSubnets, vpNodeSubnet[node]), "the pod was bound on "+node+" with "+ip+", which is not routable from that node")
	}
	verifAssert("C08/bind-agree", w.agree(), "memory and store disagree after the Bind")
}

func vpSameAllocations(a, b []floatingip.VerifEntry) bool {
	if len(a) != len(b) {
		return false
	}
	for i := range a {
		if a[i].Allocated != b[i].Allocated || a[i].Key != b[i].Key {
			return false
		}
	}
	return true
}
