package schedulerplugin

import (
	"tkestack.io/galaxy/pkg/ipam/floatingip"
)

// vpCheckAll asserts, after a step of a history, the invariants shared by C01/C04/C05 (ids carry the
// property prefix of the harness that runs the scenario).
func (w *vpWorld) checkAll(prop, step string) {
	verifKnown("kf-late-event-other-uid", w.lateEventSeen)
	verifAssert(prop+"/live-pod-keeps-ip", w.invLiveOwnership(), "after "+step+": a live bound pod no longer owns the IP it was bound with")
	verifAssert(prop+"/unique", w.invUnique(), "after "+step+": two live pods hold the same IP in their binding annotation")
	if !w.faulted {
		verifAssert(prop+"/agree", w.agree(), "after "+step+": memory and store disagree")
	}
	verifAssert(prop+"/no-lock-held", w.noLockHeld(), "after "+step+": a pod or pool lock is still held")
	if w.provider != nil {
		verifAssert(prop+"/provider-node", w.invProvider(), "after "+step+": an IP of a live bound pod is not assigned to that pod's node at the cloud provider")
	}
}

type vpScenarioOpts struct {
	prop         string
	topos        []int
	kinds        []int
	withProvider bool
	earlySteps   int
	lateSteps    int
	nodes        []string // candidate nodes handed to Filter
	faults       bool     // one API / provider call fails cleanly at a symbolic position
	retryBind    bool     // after a failed bind the scheduler filters again and binds on any approved node
	restarts     bool     // a housekeeping step may also be a restart of galaxy-ipam (new plugin, tables rebuilt from the store)
}

// vpReincarnation: bind a pod, end that incarnation (finish and/or delete), handle its events now,
// later or never, re-create a same-named pod with a new UID, schedule it on any approved node, then
// deliver whatever is still pending (late events of the old incarnation, resync, API release).
func vpReincarnation(o vpScenarioOpts) *vpWorld {
	w := vpNewWorld(o.topos[nondetChoice(len(o.topos))], o.withProvider)
	if err := w.configure(); err != nil {
		return nil
	}
	if len(o.nodes) == 0 {
		o.nodes = []string{"n1", "n2", "n3"}
	}
	if o.faults {
		w.faultAt = nondetInt(0, 40)
	}
	w.allowRestart = o.restarts
	kind := o.kinds[nondetChoice(len(o.kinds))]
	policy := nondetPick("", "immutable", "never")
	w.setDeployment(2)
	w.setStatefulSet(2)
	w.tapps["tapp"] = 2
	name := vpPodNameOf(kind, 0)
	w.createPod(vpMakePod(name, "U1", kind, policy, "", ""))
	w.syncListers()
	nodes, err := w.filter(name, o.nodes...)
	if err != nil || len(nodes) == 0 {
		return nil
	}
	n1 := nodes[nondetChoice(len(nodes))]
	if err := w.bind(name, n1); err != nil {
		w.checkAll(o.prop, "failed first bind")
		if !o.retryBind {
			return nil
		}
		nodes, err = w.filter(name, o.nodes...)
		if err != nil || len(nodes) == 0 {
			return nil
		}
		n1 = nodes[nondetChoice(len(nodes))]
		if err := w.bind(name, n1); err != nil {
			return nil
		}
	}
	w.checkAll(o.prop, "first bind")
	w.setRunning(name)
	w.syncListers()
	firstIPs := vpBoundIPs(w.pods[name])

	// the old incarnation ends
	if nondetBool() {
		w.finishPod(name)
		w.syncListers()
		w.checkAll(o.prop, "finish")
	}
	w.deletePod(name)
	if nondetBool() {
		w.syncListers()
	}
	for i := 0; i < o.earlySteps; i++ {
		w.anyHousekeeping(o.prop, false)
	}

	// the new incarnation
	w.createPod(vpMakePod(name, "U2", kind, policy, "", ""))
	w.syncListers()
	reservedBefore := w.reservedFor(vpKeyOf(w.pods[name]))
	nodes2, err := w.filter(name, o.nodes...)
	w.checkAll(o.prop, "second filter")
	if err != nil || len(nodes2) == 0 {
		return w
	}
	n2 := nodes2[nondetChoice(len(nodes2))]
	if err := w.bind(name, n2); err != nil {
		w.checkAll(o.prop, "failed second bind")
		return w
	}
	verifReach("rebound")
	w.checkAll(o.prop, "second bind")
	if o.prop == "C02" {
		w.checkSticky(policy, firstIPs, reservedBefore, name)
		if o.restarts {
			// nothing released the IP on purpose (no API release before the re-binding, the workload still exists with
			// the pod inside its replica range): a reserving policy must give the first incarnation's IP back
			now := vpBoundIPs(w.pods[name])
			verifAssert("C02/sticky-first-ip", verifOr(policy == "", len(now) == 1 && len(firstIPs) == 1 && now[0] == firstIPs[0]), "a pod identity with a reserving policy was re-bound with another IP than its first incarnation had, although nothing released it")
		}
	}
	w.setRunning(name)
	w.syncListers()
	for i := 0; i < o.lateSteps; i++ {
		w.anyHousekeeping(o.prop, true)
	}
	return w
}

// anyHousekeeping performs one of: nothing, handle any pending event, a resync pass, an API release of any allocated IP,
// a restart of galaxy-ipam (if the scenario allows it).
func (w *vpWorld) anyHousekeeping(prop string, withAPIRelease bool) {
	n := 3
	if withAPIRelease {
		n = 4
	}
	if w.allowRestart {
		n++
	}
	c := nondetChoice(n)
	if w.allowRestart && c == n-1 {
		c = 9
	}
	switch c {
	case 9:
		if w.restart() != nil {
			return
		}
		w.checkAll(prop, "a restart of galaxy-ipam")
	case 0:
	case 1:
		if len(w.pending) == 0 {
			return
		}
		_ = w.handleEvent(nondetChoice(len(w.pending)))
		w.checkAll(prop, "handling a pod event")
	case 2:
		w.resync()
		w.checkAll(prop, "resync")
	case 3:
		_ = w.apiRelease(w.ips[nondetChoice(len(w.ips))])
		w.checkAll(prop, "API release")
	}
}

// reservedFor lists the IPs currently allocated to exactly this key.
func (w *vpWorld) reservedFor(key string) []string {
	var out []string
	for _, e := range w.dump() {
		if e.Allocated && e.Key == key {
			out = append(out, e.IP)
		}
	}
	return out
}

func (w *vpWorld) checkSticky(policy string, firstIPs, reserved []string, name string) {
	now := vpBoundIPs(w.pods[name])
	if len(reserved) == 0 {
		return
	}
	ok := len(now) == 1
	if ok {
		found := false
		for _, r := range reserved {
			if r == now[0] {
				found = true
			}
		}
		ok = found
	}
	verifAssert("C02/sticky", verifOr(policy == "", ok), "a pod identity with a reserving policy was bound with an IP other than the one reserved for it")
}

var _ = floatingip.VNumTopologies
