package schedulerplugin

import "tkestack.io/galaxy/pkg/ipam/floatingip"

// C20 at the level of the daemon's configuration poll: a configuration that is not accepted is rejected with an
// error on every poll that sees it and changes nothing -- neither the tables nor what the daemon remembers as the
// configuration in force.

// BOUND: topologies {0,1}; the valid configuration is loaded through updateConfigMap and 0..1 pods are bound; the config map then carries one of 8 texts that must be rejected (range outside the subnet, unsorted / overlapping / mergeable / inverted ranges, malformed range, missing gateway, no node subnet, not JSON); it is polled twice: each poll must answer with an error, the remembered configuration and the tables stay those of the valid configuration; then the config map carries the valid text again and the poll must succeed without changing anything
func VerifC20_q_rejectedConfigStaysRejected() {
	topo := nondetChoice(2)
	w := vpNewWorld(topo, false)
	text0, _ := vpConfig(topo, 0)
	w.configMap = text0
	if _, err := w.plugin.updateConfigMap(); err != nil {
		verifAssert("C20/valid-config-loads?", false, "the valid configuration was rejected: "+err.Error())
		return
	}
	floatingip.VerifRotate(w.innerIPAM())
	w.setStatefulSet(2)
	if nondetBool() {
		w.scheduleSts(0)
	}
	before := w.dump()
	const ns = `"nodeSubnets":["10.0.1.0/24"]`
	bad := []string{
		`[{` + ns + `,"ips":["10.1.1.10"],"subnet":"10.1.0.0/24","gateway":"10.1.0.1"}]`,
		`[{` + ns + `,"ips":["10.1.0.20","10.1.0.10~10.1.0.12"],"subnet":"10.1.0.0/24","gateway":"10.1.0.1"}]`,
		`[{` + ns + `,"ips":["10.1.0.10~10.1.0.12","10.1.0.12~10.1.0.14"],"subnet":"10.1.0.0/24","gateway":"10.1.0.1"}]`,
		`[{` + ns + `,"ips":["10.1.0.10~10.1.0.12","10.1.0.13"],"subnet":"10.1.0.0/24","gateway":"10.1.0.1"}]`,
		`[{` + ns + `,"ips":["10.1.0.12~10.1.0.10"],"subnet":"10.1.0.0/24","gateway":"10.1.0.1"}]`,
		`[{` + ns + `,"ips":["10.1.0.10~"],"subnet":"10.1.0.0/24","gateway":"10.1.0.1"}]`,
		`[{"ips":["10.1.0.10"],"subnet":"10.1.0.0/24","gateway":"10.1.0.1"}]`,
		`[{` + ns + `,"ips":["10.1.0.10"]`,
	}
	w.configMap = bad[nondetChoice(len(bad))]
	for i := 0; i < 2; i++ {
		loaded, err := w.plugin.updateConfigMap()
		verifAssert("C20/rejected-config-error", err != nil && !loaded, "a poll that saw a configuration which must be rejected reported no error: "+w.configMap)
		verifAssert("C20/rejected-config-not-remembered", w.plugin.lastIPConf == text0, "a rejected configuration replaced the one the daemon remembers as in force")
		verifAssert("C20/rejected-config-changes-nothing", vpSameAllocations(before, w.dump()) && w.agree(), "a rejected configuration changed the tables")
	}
	verifReach("rejected-twice")
	w.configMap = text0
	_, err := w.plugin.updateConfigMap()
	verifAssert("C20/valid-config-after-rejected", err == nil, "the valid configuration is rejected after a rejected one was seen")
	verifAssert("C20/valid-after-rejected-changes-nothing", vpSameAllocations(before, w.dump()) && w.agree(), "going back to the valid configuration changed the tables")
	if name, ok := w.scheduleSts(1); ok {
		for _, ip := range vpBoundIPs(w.pods[name]) {
			verifAssert("C20/allocations-from-valid-config", vpHas(w.ips, ip), "a pod was bound with an address outside the accepted configuration: "+ip)
		}
	}
}
