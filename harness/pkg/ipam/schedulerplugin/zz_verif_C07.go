package schedulerplugin

import "strings"

// C07: with a Pool object that defines a size, scheduling never brings the number of IPs held under the
// pool above the size in force.

func (w *vpWorld) poolCount(pool string) int {
	n := 0
	for _, e := range w.dump() {
		if e.Allocated && strings.HasPrefix(e.Key, "pool__"+pool+"_") {
			n++
		}
	}
	return n
}

func vpC07(steps int, topos []int) {
	w := vpNewWorld(topos[nondetChoice(len(topos))], false)
	if err := w.configure(); err != nil {
		return
	}
	w.setDeployment(3)
	size := nondetInt(0, 3)
	w.setPool("p1", size)
	w.syncListers()
	inForce := size
	created := 0
	var bound, filtered []string
	approved := map[string][]string{}
	for s := 0; s < steps; s++ {
		before := w.poolCount("p1")
		switch nondetChoice(5) {
		case 0: // the scheduler filters the next pod of the deployment (bind comes later, possibly after further filters)
			if created >= 3 {
				return
			}
			name := vpPodNameOf(vpKindDp, created)
			created++
			w.createPod(vpMakePod(name, "U"+name, vpKindDp, "", "p1", ""))
			w.syncListers()
			nodes, err := w.filter(name, "n1", "n2", "n3")
			if err == nil && len(nodes) > 0 {
				filtered = append(filtered, name)
				approved[name] = nodes
			}
		case 4: // the scheduler binds a pod it filtered earlier
			if len(filtered) == 0 {
				return
			}
			k := nondetChoice(len(filtered))
			name := filtered[k]
			filtered = append(append([]string{}, filtered[:k]...), filtered[k+1:]...)
			nodes := approved[name]
			if w.bind(name, nodes[nondetChoice(len(nodes))]) == nil {
				w.setRunning(name)
				bound = append(bound, name)
			}
			w.syncListers()
		case 1: // a bound pod is deleted and its event handled
			if len(bound) == 0 {
				return
			}
			k := nondetChoice(len(bound))
			w.deletePod(bound[k])
			bound = append(append([]string{}, bound[:k]...), bound[k+1:]...)
			w.syncListers()
			for len(w.pending) > 0 {
				_ = w.handleEvent(0)
			}
		case 2: // the administrator resizes the pool
			size = nondetInt(0, 3)
			w.setPool("p1", size)
			w.syncListers()
			inForce = size
		case 3:
			w.resync()
		}
		after := w.poolCount("p1")
		verifReach("step")
		verifAssert("C07/pool-size", verifOr(after <= inForce, after <= before), "the number of IPs held under pool p1 grew beyond the pool size in force")
		verifAssert("C07/agree", w.agree(), "memory and store disagree")
	}
}

// BOUND: topologies {0,1} (3-4 IPs); one deployment (replicas 3) whose pods use pool p1; Pool.size symbolic 0..3, resized to symbolic values; 4 steps over {filter next pod, bind any filtered pod on any approved node, delete a bound pod and handle its event, resize, resync}; filters of several pods may precede their binds; each operation runs atomically
// ASSUME: C07: "size in force" is the Pool.size the informer cache shows when the operation runs; shrinking a pool below its population is not growth
func VerifC07_q_poolSize() { vpC07(4, []int{0, 1}) }

// BOUND: as above with 6 steps
func VerifC07_t_poolSizeDeep() { vpC07(6, []int{0, 1}) }


// BOUND: topologies {0,1}; two deployments app and app2 (replicas 3) sharing pool p1 with a symbolic size 0..3; 0..2 pods of app already scheduled; then the filter (+bind) of the next pod of app runs while the filter of a pod of app2 runs atomically inside any one window right before/after an API-server call or an IPAM call of the first (symbolic window 0..16); the number of IPs under the pool must not exceed the size in force
// ASSUME: C07: interference granularity = API-server calls and IPAM calls (the plugin reaches the IPAM only through its interface, which the harness decorates); a second activity that would have to wait for a lock the first holds is discarded at that window
func VerifC07_q_concurrentFilters() {
	w := vpNewWorld(nondetChoice(2), false)
	if err := w.configure(); err != nil {
		return
	}
	w.wrapIPAM()
	w.setDeployment(3)
	w.setDeployment2(3)
	size := nondetInt(0, 3)
	w.setPool("p1", size)
	w.syncListers()
	pre := nondetChoice(3)
	for i := 0; i < pre; i++ {
		name := vpPodNameOf(vpKindDp, i)
		w.createPod(vpMakePod(name, "U"+name, vpKindDp, "", "p1", ""))
		w.syncListers()
		if nodes, err := w.filter(name, "n1", "n2", "n3"); err == nil && len(nodes) > 0 {
			_ = w.bind(name, nodes[0])
		}
	}
	a := vpPodNameOf(vpKindDp, pre)
	b := vpPodNameOf(vpKindDp2, 0)
	w.createPod(vpMakePod(a, "U"+a, vpKindDp, "", "p1", ""))
	w.createPod(vpMakePod(b, "U"+b, vpKindDp2, "", "p1", ""))
	w.syncListers()
	before := w.poolCount("p1")
	w.interferer = func() { _, _ = w.filter(b, "n1", "n2", "n3") }
	w.windowAt = nondetInt(0, 16)
	_, _ = w.filter(a, "n1", "n2", "n3")
	w.finishInterference()
	if w.interferer != nil {
		// the second filter did not run inside the first: run it now (sequential order)
		f := w.interferer
		w.interferer = nil
		f()
	} else {
		verifReach("filter-inside-filter")
	}
	after := w.poolCount("p1")
	verifReach("both-filtered")
	verifAssert("C07/pool-size-concurrent", verifOr(after <= size, after <= before), "two overlapping filters of deployments sharing a sized pool brought it above its size")
	verifAssert("C07/agree-concurrent", w.agree(), "memory and store disagree")
	verifAssert("C07/no-lock-held", w.noLockHeld(), "a lock is still held")
}

// BOUND: topologies {0,1}; a Pool object p1 of size 1..2 shared by a deployment; the pool is filled (size pods bound), one pod is deleted and its event handled, so that the pool holds size addresses one of which is in reserve; the Filter of a new pod of the deployment runs with one API-server / store call failing cleanly at a symbolic position 0..3 (0 = none); a Filter that answered with an error is retried once without fault. The pool never holds more addresses than its size
func VerifC07_q_filterFaultKeepsSize() {
	w := vpNewWorld(nondetChoice(2), false)
	if err := w.configure(); err != nil {
		return
	}
	w.setDeployment(3)
	size := 1 + nondetChoice(2)
	w.setPool("p1", size)
	w.syncListers()
	for i := 0; i < size; i++ {
		name := vpPodNameOf(vpKindDp, i)
		w.createPod(vpMakePod(name, "U"+name, vpKindDp, "", "p1", ""))
		w.syncListers()
		nodes, err := w.filter(name, "n1", "n2", "n3")
		if err != nil || len(nodes) == 0 || w.bind(name, nodes[0]) != nil {
			return
		}
		w.setRunning(name)
	}
	w.syncListers()
	w.deletePod(vpPodNameOf(vpKindDp, 0))
	w.syncListers()
	for len(w.pending) > 0 {
		_ = w.handleEvent(0)
	}
	verifAssume(w.poolCount("p1") == size)
	next := vpPodNameOf(vpKindDp, 7)
	w.createPod(vpMakePod(next, "U"+next, vpKindDp, "", "p1", ""))
	w.syncListers()
	w.calls, w.faultAt = 0, nondetInt(0, 3)
	_, ferr := w.filter(next, "n1", "n2", "n3")
	w.faultAt = 0
	verifAssert("C07/pool-size-after-faulted-filter", w.poolCount("p1") <= size, "a Filter that hit an API failure left the sized pool with more addresses than its size")
	if ferr != nil {
		_, _ = w.filter(next, "n1", "n2", "n3")
	}
	verifReach("filter-after-fault-done")
	verifAssert("C07/pool-size-after-retried-filter", w.poolCount("p1") <= size, "the sized pool holds more addresses than its size after a faulted Filter was retried")
	verifAssert("C07/agree-after-faulted-filter", w.agree(), "memory and store disagree after a faulted Filter")
}
