package schedulerplugin

// BOUND: cloud provider configured; topology 0; candidate nodes n1,n5 (same node subnet), n2, n3; kinds {statefulset, deployment}; symbolic policy; re-incarnation with 1+1 housekeeping steps; one API/provider call may fail cleanly at a symbolic position and a failed bind is retried on any approved node
// ASSUME: C10: the provider is idempotent: UnAssignIP of an IP it does not hold succeeds
func VerifC10_q_moveBetweenNodes() {
	vpReincarnation(vpScenarioOpts{prop: "C10", topos: []int{0}, kinds: []int{vpKindSts, vpKindDp}, withProvider: true, earlySteps: 1, lateSteps: 1,
		nodes: []string{"n1", "n5", "n2", "n3"}, faults: true, retryBind: true})
}
