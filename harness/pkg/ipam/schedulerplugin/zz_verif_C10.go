package schedulerplugin

// BOUND: cloud provider configured; topology 0; candidate nodes n1,n5 (same node subnet), n2, n3; kinds {statefulset, deployment}; symbolic policy; re-incarnation with 1+1 housekeeping steps; one API/provider call may fail cleanly at a symbolic position and a failed bind is retried on any approved node
// ASSUME: C10: the provider is idempotent: UnAssignIP of an IP it does not hold succeeds
func VerifC10_q_moveBetweenNodes() {
	vpReincarnation(vpScenarioOpts{prop: "C10", topos: []int{0}, kinds: []int{vpKindSts, vpKindDp}, withProvider: true, earlySteps: 1, lateSteps: 1,
		nodes: []string{"n1", "n5", "n2", "n3"}, faults: true, retryBind: true})
}


// BOUND: cloud provider configured; topology 0; a statefulset pod requesting two disjoint ranges (two IPs), symbolic policy; bound on n1, then finished and/or deleted, events handled or lost, resync, API release of either IP (2 housekeeping steps); no faults
func VerifC10_q_multiIPPod() {
	w := vpNewWorld(0, true)
	if err := w.configure(); err != nil {
		return
	}
	w.setStatefulSet(2)
	policy := nondetPick("", "immutable", "never")
	name := "ss-0"
	w.createPod(vpMakePod(name, "U1", vpKindSts, policy, "", `[["10.1.0.10"],["10.1.0.11~10.1.0.12"]]`))
	w.syncListers()
	nodes, err := w.filter(name, "n1", "n5", "n3")
	if err != nil || len(nodes) == 0 {
		return
	}
	if w.bind(name, nodes[nondetChoice(len(nodes))]) != nil {
		return
	}
	w.checkAll("C10", "bind of a two-IP pod")
	w.setRunning(name)
	w.syncListers()
	if nondetBool() {
		w.finishPod(name)
		w.syncListers()
	} else {
		w.deletePod(name)
		w.syncListers()
	}
	for i := 0; i < 2; i++ {
		w.anyHousekeeping("C10", true)
	}
	verifReach("housekeeping-done")
}
