package schedulerplugin

// BOUND: cloud provider configured; topology 0; candidate nodes n1,n5 (same node subnet), n2, n3; kinds {statefulset, deployment}; symbolic policy; re-incarnation with 1+1 housekeeping steps; one API/provider call may fail cleanly at a symbolic position and a failed bind is retried on any approved node
// ASSUME: C10: the provider is idempotent: UnAssignIP of an IP it does not hold succeeds
func VerifC10_q_moveBetweenNodes() {
	vpReincarnation(vpScenarioOpts{prop: "C10", topos: []int{0}, kinds: []int{vpKindSts, vpKindDp}, withProvider: true, earlySteps: 1, lateSteps: 1,
		nodes: []string{"n1", "n5", "n2", "n3"}, faults: true, retryBind: true})
}


// BOUND: cloud provider configured; topology 0; a statefulset pod requesting two disjoint ranges (two IPs), symbolic policy; bound on n1, then finished and/or deleted, events handled or lost, resync, API release of either IP (2 housekeeping steps); one UnAssignIP call may be rejected cleanly by the provider at a symbolic position
func VerifC10_q_multiIPPod() {
	w := vpNewWorld(0, true)
	if err := w.configure(); err != nil {
		return
	}
	w.setStatefulSet(2)
	policy := nondetPick("", "immutable", "never")
	name := "ss-0"
	w.createPod(vpMakePod(name, "U1", vpKindSts, policy, "", `[["10.1.0.10"],["10.1.0.11~10.1.0.12"]]`))
	w.syncListers()
	nodes, err := w.filter(name, "n1", "n5", "n3")
	if err != nil || len(nodes) == 0 {
		return
	}
	if w.bind(name, nodes[nondetChoice(len(nodes))]) != nil {
		return
	}
	w.checkAll("C10", "bind of a two-IP pod")
	w.setRunning(name)
	w.syncListers()
	// the provider may reject one UnAssignIP call cleanly (symbolic position among the unassign calls; 0 = none)
	w.faultKinds = map[string]bool{"provider.unassign": true}
	w.calls, w.faultAt = 0, nondetInt(0, 2)
	if nondetBool() {
		w.finishPod(name)
		w.syncListers()
	} else {
		w.deletePod(name)
		w.syncListers()
	}
	for i := 0; i < 2; i++ {
		w.anyHousekeeping("C10", true)
	}
	verifReach("housekeeping-done")
}


// BOUND: cloud provider configured; topology 0; a statefulset pod (symbolic policy) bound on n1, finished (event handled) and deleted (its delete event still pending = late event of the old incarnation); the same-named pod is re-created (new UID), filtered, and its Bind on any approved node among n1,n5 runs while, as a second logical thread starting inside any one window of that Bind (API-server, provider or IPAM call; symbolic window 0..14), the late event is handled; the second thread parks wherever it needs the pod key lock Bind holds and continues when Bind releases it
func VerifC10_q_bindVsLateEvent() { vpBindVsLateEvent("C10") }

func vpBindVsLateEvent(prop string) {
	w := vpNewWorld(0, true)
	if err := w.configure(); err != nil {
		return
	}
	w.wrapIPAM()
	w.setStatefulSet(3)
	policy := nondetPick("", "immutable", "never")
	name := "ss-0"
	w.createPod(vpMakePod(name, "U1", vpKindSts, policy, "", ""))
	w.syncListers()
	nodes, err := w.filter(name, "n1", "n5", "n3")
	if err != nil || len(nodes) == 0 {
		return
	}
	if w.bind(name, nodes[0]) != nil {
		return
	}
	w.setRunning(name)
	w.syncListers()
	w.finishPod(name)
	w.syncListers()
	for len(w.pending) > 0 {
		_ = w.handleEvent(0)
	}
	w.deletePod(name) // the late event
	w.syncListers()
	w.createPod(vpMakePod(name, "U2", vpKindSts, policy, "", ""))
	w.syncListers()
	nodes2, err := w.filter(name, "n1", "n5", "n3")
	if err != nil || len(nodes2) == 0 || len(w.pending) == 0 {
		return
	}
	w.interferer = func() { _ = w.handleEvent(0) }
	w.windowAt = nondetInt(0, 14)
	berr := w.bind(name, nodes2[nondetChoice(len(nodes2))])
	w.finishInterference()
	if w.interferer != nil || berr != nil {
		return
	}
	w.setRunning(name)
	w.syncListers()
	verifReach("late-event-overlapped-bind")
	w.checkAll(prop, "a late event of the old incarnation handled while the new incarnation was being bound")
}

// BOUND: cloud provider configured; topology 0; two statefulset pods ss-0, ss-1 bound on n1 (symbolic policy); ss-0 vanishes without event (so the resync pass has work); a resync pass runs and, atomically inside any one window right before/after one of its API-server / provider calls (symbolic window 0..12), ss-1 moves: deleted, event handled, re-created with a new UID, bound on n5 (same node subnet), and then optionally deleted again with its event still queued (not running when the pass reaches it); afterwards queued events are handled and the same-named pod is re-created once more and bound on n1. The provider's per-IP state machine asserts inside every AssignIP / UnAssignIP and inside every store delete / re-key
// ASSUME: C10: interference granularity = API-server and provider calls, as in VerifC04_q_resyncVsReincarnation
func VerifC10_q_resyncVsMove() {
	w := vpNewWorld(0, true)
	if err := w.configure(); err != nil {
		return
	}
	w.setStatefulSet(2)
	policy := nondetPick("", "immutable", "never")
	for i := 0; i < 2; i++ {
		name := vpPodNameOf(vpKindSts, i)
		w.createPod(vpMakePod(name, "U1", vpKindSts, policy, "", ""))
		w.syncListers()
		if w.bind(name, "n1") != nil {
			return
		}
		w.setRunning(name)
	}
	w.syncListers()
	w.deletePodSilently("ss-0")
	w.syncListers()
	name := "ss-1"
	goneAgain := nondetBool()
	w.interferer = func() {
		w.deletePod(name)
		w.syncListers()
		for len(w.pending) > 0 {
			_ = w.handleEvent(0)
		}
		w.createPod(vpMakePod(name, "U2", vpKindSts, policy, "", ""))
		w.syncListers()
		if w.bind(name, "n5") != nil {
			return
		}
		if goneAgain {
			w.deletePod(name) // its delete event stays queued
			w.syncListers()
		} else {
			w.setRunning(name)
			w.syncListers()
		}
	}
	w.windowAt = nondetInt(0, 12)
	w.resync()
	w.finishInterference()
	ran := w.interferer == nil
	w.interferer = nil
	verifReach("resync-returned")
	if !ran {
		return
	}
	verifReach("move-inside-resync")
	w.checkAll("C10", "a resync pass that overlapped a move of the pod to another node")
	for len(w.pending) > 0 {
		_ = w.handleEvent(0)
	}
	w.checkAll("C10", "handling the queued events")
	if w.pods[name] == nil {
		w.createPod(vpMakePod(name, "U3", vpKindSts, policy, "", ""))
		w.syncListers()
		if w.bind(name, "n1") == nil {
			w.setRunning(name)
			w.syncListers()
		}
		w.checkAll("C10", "binding the next incarnation on the first node")
	}
}

// BOUND: cloud provider configured; topologies {0,1}; two pods whose names (and therefore keys) are in a prefix relation: statefulset pods ss-1 and ss-10 (replicas 11), or bare pods bare-1 and bare-10; symbolic policy; both bound; the shorter-named one ends (finished and/or deleted), its event is handled and / or a resync pass runs; then two more pods are scheduled. The longer-named live pod keeps its IP and no IP is held by two live pods
// ASSUME: C10: same scenario as VerifC01_q_prefixSiblings with the recording provider, checked under C10
func VerifC10_q_prefixSiblings() { vpPrefixSiblings("C10") }

// BOUND: cloud provider configured; topology 0; a statefulset pod (symbolic policy) bound, then gone (deleted; its event handled or still pending) so that its IP is reserved or still recorded for the key; an administrator's API release of that IP runs while, as a second logical thread starting inside any one window right before/after an API-server or IPAM call of the release (symbolic window 0..12), the same-named pod is re-created with a new UID, filtered and bound; the second thread waits (parks) wherever it needs a pod/pool key lock the release holds; afterwards another pod is scheduled. No two live pods may hold one IP and every live bound pod must own its IP
// ASSUME: C10: same scenario as VerifC01_q_releaseVsRebind with the recording provider, checked under C10
func VerifC10_q_releaseVsRebind() { vpReleaseVsRebind("C10") }

// BOUND: cloud provider configured; topology 0 with all but one address held by other pods; a statefulset pod (symbolic policy) bound and running; a standby instance of galaxy-ipam has an informer cache that stops following at that point; the pod is deleted, its event handled, the same-named pod re-created, bound by the active instance and running; then the standby takes over (new plugin, tables rebuilt from the shared store, but its lagging informer cache: it still holds the first incarnation) and runs one resync pass (and the pod-IP sync pass) before its cache catches up, then another one afterwards. The live pod keeps its IP throughout (the stale cache's answer has to be confirmed with the API server; one of the pass's pod GETs may fail at a symbolic position, answered as the real typed client does: an empty object plus the error)
// ASSUME: C10: same scenario as VerifC04_q_failoverStaleCache with the recording provider, checked under C10
func VerifC10_q_failoverStaleCache() { vpFailoverStaleCache("C10") }

// BOUND: cloud provider configured; topology 0; a statefulset pod (symbolic policy) bound on any approved node among n1,n5,n3 and running; its allocation record is lost from the store (store loss / restore from an older backup) and galaxy-ipam restarts on that store; the pod-IP sync pass re-adopts the address for the running pod; then the pod is deleted, its event handled, one resync pass, and the same-named pod is re-created and bound on any approved node. The provider's per-IP state machine asserts inside every AssignIP / UnAssignIP and every store delete / re-key: the address must be unassigned at the node it is assigned to before it is freed or assigned elsewhere
func VerifC10_q_recordLostReadopted() {
	w := vpNewWorld(0, true)
	if err := w.configure(); err != nil {
		return
	}
	w.setStatefulSet(2)
	policy := nondetPick("", "immutable", "never")
	name := "ss-0"
	w.createPod(vpMakePod(name, "U1", vpKindSts, policy, "", ""))
	w.syncListers()
	nodes, err := w.filter(name, "n1", "n5", "n3")
	if err != nil || len(nodes) == 0 || w.bind(name, nodes[nondetChoice(len(nodes))]) != nil {
		return
	}
	w.setRunning(name)
	w.syncListers()
	ip := vpBoundIPs(w.pods[name])[0]
	w.store.Mu.Lock()
	delete(w.store.Objs, ip)
	w.store.Mu.Unlock()
	if w.restart() != nil {
		return
	}
	w.resync() // the pod-IP sync pass finds the running pod's address unallocated and re-adopts it
	verifReach("record-readopted")
	w.checkAll("C10", "the re-adoption of a running pod's address whose record was lost")
	w.deletePod(name)
	w.syncListers()
	for len(w.pending) > 0 {
		_ = w.handleEvent(0)
	}
	w.resync()
	w.checkAll("C10", "the end of a pod whose address had been re-adopted")
	w.createPod(vpMakePod(name, "U2", vpKindSts, policy, "", ""))
	w.syncListers()
	if nodes, err := w.filter(name, "n1", "n5", "n3"); err == nil && len(nodes) > 0 {
		if w.bind(name, nodes[nondetChoice(len(nodes))]) == nil {
			w.setRunning(name)
			w.syncListers()
		}
	}
	verifReach("rebound-after-readoption")
	w.checkAll("C10", "binding the next incarnation after a re-adoption")
}
