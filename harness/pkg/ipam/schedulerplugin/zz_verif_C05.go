package schedulerplugin

import (
	"net"

	corev1 "k8s.io/api/core/v1"
	"tkestack.io/galaxy/pkg/ipam/context"
	"tkestack.io/galaxy/pkg/ipam/floatingip"
	"tkestack.io/galaxy/pkg/ipam/schedulerplugin/util"
)

// C05 (second sentence): if the process dies between any two API calls, a restart followed by resync leaves no
// leaked IP, no doubly owned IP, and every existing pod keeps the IP it was bound with.
//
// The crash is a harness panic raised by the API-server fakes right before the k-th API call of the operation under
// test (k symbolic); "right after call k" is the same persistent state as "right before call k+1" or as the
// completed operation, because everything in memory is lost.  The restart builds a new plugin and a new crdIpam
// over the surviving store and API truth.

type vpCrashed struct{}

// restart: the process comes up again: new plugin, new tables rebuilt from the store, informer caches re-listed,
// queued events and key locks gone.
func (w *vpWorld) restart() error {
	w.podLocks, w.dpLocks = &vpKeyMutex{w: w, pods: true}, &vpKeyMutex{w: w}
	w.pending = nil
	w.crashAt, w.faultAt = 0, 0
	p := &FloatingIPPlugin{
		nodeSubnet: map[string]*net.IPNet{},
		IPAMContext: &context.IPAMContext{Client: &vpKube{w: w}, PodLister: &vpPodLister{w: w},
			StatefulSetLister: &vpStsLister{w: w}, DeploymentLister: &vpDpLister{w: w}, PoolLister: &vpPoolLister{w: w}},
		conf:        &Conf{ConfigMapName: "floatingip-config", ConfigMapNamespace: "kube-system", FloatingIPKey: "floatingips"},
		unreleased:  make(chan *releaseEvent, 100),
		dpLockPool:  w.dpLocks,
		podLockPool: w.podLocks,
		crdKey:      &vpCrdKey{w: w},
		crdCache:    &vpCrdCache{w: w},
	}
	p.ipam = floatingip.NewCrdIPAM(&floatingip.VfClient{Store: w.store}, nil)
	if w.provider != nil {
		p.cloudProvider = w.provider
	}
	w.plugin = p
	w.syncListers()
	return w.configure()
}

// crashing runs op; reports whether the process died inside it.
func (w *vpWorld) crashing(op func()) (died bool) {
	defer func() {
		if r := recover(); r != nil {
			if _, ok := r.(vpCrashed); !ok {
				panic(r)
			}
			died = true
		}
	}()
	op()
	return false
}

// BOUND: topology T1 or T3; workload kinds {statefulset, deployment, bare pod}, release policy symbolic over the 3 policies; one pod bound and running, then one operation out of {bind of a second pod (after its filter), delete event of the first pod handled (unbind), resync pass after the first pod vanished without event, API release of the first pod's IP after the pod ended} during which the process dies right before its k-th API call (k symbolic 1..8); restart (new plugin, tables rebuilt from the store, caches re-listed, queued events lost), one resync pass; then the scheduler retries the pending pod, every pod ends, events are handled, one more resync pass
// ASSUME: C05 crash: the store applies a call completely or not at all; a crash loses everything in memory including queued pod events; after the restart the informers re-list the existing pods (no events for pods that are gone)
func VerifC05_q_crashRecovery() {
	topo := nondetChoice(2)
	w := vpNewWorld(topo, false)
	if err := w.configure(); err != nil {
		return
	}
	kind := []int{vpKindSts, vpKindDp, vpKindBare}[nondetChoice(3)]
	policy := nondetPick("", "immutable", "never")
	w.setReplicas(kind, 2)
	first, second := vpPodNameOf(kind, 0), vpPodNameOf(kind, 1)
	w.createPod(vpMakePod(first, "U1", kind, policy, "", ""))
	w.syncListers()
	nodes, err := w.filter(first, "n1", "n2", "n3")
	if err != nil || len(nodes) == 0 {
		return
	}
	if w.bind(first, nodes[0]) != nil {
		return
	}
	w.setRunning(first)
	w.createPod(vpMakePod(second, "U2", kind, policy, "", ""))
	w.syncListers()
	boundIP := vpBoundIPs(w.pods[first])[0]

	op := nondetChoice(4)
	var body func()
	switch op {
	case 0:
		nodes2, err := w.filter(second, "n1", "n2", "n3")
		if err != nil || len(nodes2) == 0 {
			return
		}
		body = func() { _ = w.bind(second, nodes2[0]) }
	case 1:
		w.deletePod(first)
		verifAssume(len(w.pending) > 0)
		body = func() { _ = w.handleEvent(0) }
	case 2:
		w.deletePodSilently(first)
		w.syncListers()
		body = func() { w.resync() }
	default:
		w.finishPod(first)
		w.pending = nil // the event is lost; an administrator releases the IP through the API
		body = func() { _ = w.apiRelease(boundIP) }
	}
	w.calls = 0
	w.crashAt = nondetInt(1, 8)
	died := w.crashing(body)
	verifAssume(died) // the completed operation is the business of the other harnesses
	verifReach("crashed")

	if err := w.restart(); err != nil {
		verifAssert("C05/restart-configures?", false, "after a crash the restarted process cannot rebuild its tables: "+err.Error())
		return
	}
	w.resync()
	verifReach("restarted-and-resynced")
	verifAssert("C05/crash-live-pod-keeps-ip", w.invLiveOwnership(), "after a crash, restart and resync a live bound pod no longer owns the IP it was bound with")
	verifAssert("C05/crash-unique", w.invUnique(), "after a crash, restart and resync two live pods hold the same IP")
	verifAssert("C05/crash-agree", w.agree(), "after a crash, restart and resync memory and store disagree")
	verifAssert("C05/crash-no-lock-held", w.noLockHeld(), "a key lock is held after restart and resync")

	// the scheduler retries the pod whose bind died: it must still be schedulable and get exactly one IP
	if p := w.pods[second]; p != nil && p.Spec.NodeName == "" {
		if nodes3, err := w.filter(second, "n1", "n2", "n3"); err == nil && len(nodes3) > 0 {
			if w.bind(second, nodes3[0]) == nil {
				w.setRunning(second)
				verifAssert("C05/crash-retry-one-ip", len(vpBoundIPs(w.pods[second])) == 1, "the retried bind did not yield exactly one IP")
			}
		}
		w.syncListers()
		verifAssert("C05/crash-retry-live-pod-keeps-ip", w.invLiveOwnership(), "after the retried bind a live bound pod does not own its IP")
		verifAssert("C05/crash-retry-unique", w.invUnique(), "after the retried bind two live pods hold the same IP")
	}
	// no leak: every pod ends, events are handled, one more resync: what is still allocated must be what the
	// release policy keeps
	for _, n := range []string{first, second} {
		if w.pods[n] != nil {
			w.deletePod(n)
		}
	}
	for len(w.pending) > 0 {
		_ = w.handleEvent(0)
	}
	w.syncListers()
	w.resync()
	verifReach("quiescent-after-crash")
	leak := w.leakedIP(kind)
	verifAssert("C05/crash-no-leak", leak == "", "after a crash, restart, resync and the end of every pod an IP stays allocated that the release policy does not keep: "+leak)
	verifAssert("C05/crash-agree-final", w.agree(), "memory and store disagree at quiescence after a crash")
	_ = corev1.PodRunning
}

// leakedIP: the C03 oracle as a function (first IP that is still allocated at quiescence although the documented
// release contract frees it; "" if none).  App-reserve keys are left to C03 (known finding there).
func (w *vpWorld) leakedIP(kind int) string {
	exists, replicas := w.appExists(kind)
	for _, e := range w.dump() {
		if !e.Allocated {
			continue
		}
		k := util.ParseKey(e.Key)
		if k.PoolName != "" || k.PodName == "" {
			continue
		}
		if vpLive(w.pods[k.PodName]) {
			continue
		}
		switch e.Policy {
		case 0:
			return e.IP + " (default policy, key " + e.Key + ")"
		case 1:
			if k.Deployment() {
				return e.IP + " (immutable deployment pod key " + e.Key + ")"
			}
			idx, err := parsePodIndex(k.PodName)
			supports := err == nil && (k.StatefulSet() || kind == vpKindTApp)
			if !supports || !exists || int32(idx) >= replicas {
				return e.IP + " (immutable, key " + e.Key + ")"
			}
		}
	}
	return ""
}
