package schedulerplugin

// BOUND: topology 0 (3 IPs); kinds {statefulset, deployment}; policy symbolic {default, immutable, never}; one pod name, incarnations U1,U2; 1 housekeeping step before / 1 after the new incarnation is bound; symbolic lister lag; one API call may fail cleanly at a symbolic position (1..40), a failed bind is retried once
func VerifC01_q_reincarnation() {
	vpReincarnation(vpScenarioOpts{prop: "C01", topos: []int{0}, kinds: []int{vpKindSts, vpKindDp}, earlySteps: 1, lateSteps: 1, faults: true, retryBind: true})
}

// BOUND: as above, topologies {0,1,3}, 4 workload kinds, 2+2 housekeeping steps, no faults
func VerifC01_t_reincarnationDeep() {
	vpReincarnation(vpScenarioOpts{prop: "C01", topos: []int{0, 1, 3}, kinds: []int{vpKindSts, vpKindDp, vpKindBare, vpKindTApp}, earlySteps: 2, lateSteps: 2})
}


// BOUND: topology 0; a statefulset pod (symbolic policy) bound, then gone (deleted; its event handled or still pending) so that its IP is reserved or still recorded for the key; an administrator's API release of that IP runs while, as a second logical thread starting inside any one window right before/after an API-server or IPAM call of the release (symbolic window 0..12), the same-named pod is re-created with a new UID, filtered and bound; the second thread waits (parks) wherever it needs a pod/pool key lock the release holds; afterwards another pod is scheduled. No two live pods may hold one IP and every live bound pod must own its IP
// ASSUME: C01: two logical threads, the second starts inside one window of the first and only waits at pod/pool key locks; sync.RWMutex waits inside crdIpam are not explored (such interleavings are discarded)
func VerifC01_q_releaseVsRebind() { vpReleaseVsRebind("C01") }

func vpReleaseVsRebind(prop string) {
	w := vpNewWorld(0, prop == "C10")
	if err := w.configure(); err != nil {
		return
	}
	w.wrapIPAM()
	w.setStatefulSet(3)
	policy := nondetPick("", "immutable", "never")
	name := "ss-0"
	w.createPod(vpMakePod(name, "U1", vpKindSts, policy, "", ""))
	w.syncListers()
	nodes, err := w.filter(name, "n1", "n5", "n3")
	if err != nil || len(nodes) == 0 {
		return
	}
	if w.bind(name, nodes[0]) != nil {
		return
	}
	w.setRunning(name)
	ip := vpBoundIPs(w.pods[name])[0]
	w.syncListers()
	w.deletePod(name)
	w.syncListers()
	if nondetBool() {
		for len(w.pending) > 0 {
			_ = w.handleEvent(0)
		}
	}
	w.interferer = func() {
		w.createPod(vpMakePod(name, "U2", vpKindSts, policy, "", ""))
		w.syncListers()
		nodes, err := w.filter(name, "n1", "n5", "n3")
		if err != nil || len(nodes) == 0 {
			return
		}
		if w.bind(name, nodes[nondetChoice(len(nodes))]) == nil {
			w.setRunning(name)
			w.syncListers()
		}
	}
	w.windowAt = nondetInt(0, 12)
	_ = w.apiRelease(ip)
	w.finishInterference()
	if w.interferer != nil {
		return // the re-creation did not overlap the release: covered by the sequential scenarios
	}
	verifReach("rebind-overlapped-release")
	w.checkAll(prop, "an API release that overlapped the re-binding of the same pod name")
	// somebody else asks for an IP now
	other := "ss-1"
	w.createPod(vpMakePod(other, "V1", vpKindSts, "", "", ""))
	w.syncListers()
	if nodes, err := w.filter(other, "n1", "n5", "n3"); err == nil && len(nodes) > 0 {
		if w.bind(other, nodes[0]) == nil {
			w.setRunning(other)
		}
	}
	w.checkAll(prop, "scheduling another pod afterwards")
}

// BOUND: topology 0; two statefulset pods ss-0, ss-1 bound (symbolic policy); ss-0 disappears without its event being handled (so a resync pass has API calls to make); a resync pass runs and, atomically inside any one window right before/after one of its API-server calls (symbolic window 0..10), either ss-1 is re-incarnated (deleted, its event handled, re-created with a new UID, filtered and bound on any approved node) or the vanished ss-0 is re-created with a new UID, filtered and bound (parking at the pod key lock the pass holds). Afterwards no two live pods hold one IP and every live bound pod still owns its IP (a freed IP of a live pod is handed to the next pod)
// ASSUME: C01: interference granularity as in VerifC04_q_resyncVsReincarnation (same scenario, checked under C01)
func VerifC01_q_resyncVsReincarnation() { vpResyncVsReincarnation("C01") }

// BOUND: topologies {0,1}; two pods whose names (and therefore keys) are in a prefix relation: statefulset pods ss-1 and ss-10 (replicas 11), or bare pods bare-1 and bare-10; symbolic policy; both bound; the shorter-named one ends (finished and/or deleted), its event is handled and / or a resync pass runs; then two more pods are scheduled. The longer-named live pod keeps its IP and no IP is held by two live pods
func VerifC01_q_prefixSiblings() { vpPrefixSiblings("C01") }

func vpPrefixSiblings(prop string) {
	w := vpNewWorld(nondetChoice(2), prop == "C10")
	if err := w.configure(); err != nil {
		return
	}
	kind := []int{vpKindSts, vpKindBare}[nondetChoice(2)]
	policy := nondetPick("", "immutable", "never")
	w.setStatefulSet(11)
	short, long := vpPodNameOf(kind, 1), vpPodNameOf(kind, 10)
	for _, name := range []string{short, long} {
		w.createPod(vpMakePod(name, "U"+name, kind, policy, "", ""))
		w.syncListers()
		nodes, err := w.filter(name, "n1", "n2", "n3")
		if err != nil || len(nodes) == 0 || w.bind(name, nodes[0]) != nil {
			return
		}
		w.setRunning(name)
	}
	w.syncListers()
	w.checkAll(prop, "binding two pods with prefix-related names")
	if nondetBool() {
		w.finishPod(short)
		w.syncListers()
	}
	if nondetBool() {
		w.deletePod(short)
		w.syncListers()
	}
	for len(w.pending) > 0 {
		if nondetBool() {
			_ = w.handleEvent(0)
		} else {
			w.pending = w.pending[1:]
		}
	}
	if nondetBool() {
		w.resync()
	}
	verifReach("short-name-pod-ended")
	w.checkAll(prop, "the end of the pod whose key is a prefix of a live pod's key")
	w.setDeployment(2)
	for i := 0; i < 2; i++ {
		other := vpPodNameOf(vpKindDp, i)
		w.createPod(vpMakePod(other, "V"+other, vpKindDp, "", "", ""))
		w.syncListers()
		if nodes, err := w.filter(other, "n1", "n2", "n3"); err == nil && len(nodes) > 0 {
			if w.bind(other, nodes[0]) == nil {
				w.setRunning(other)
			}
		}
	}
	w.syncListers()
	w.checkAll(prop, "scheduling two more pods afterwards")
}

// ---- the scenarios of C04 / C10 checked under C01 as well (one change to the ownership logic usually breaks several of
// C01, C04 and C10; each of the three checks has to see it)
// BOUND: cloud provider configured; topology 0; a statefulset pod (symbolic policy) bound on n1, finished (event handled) and deleted (its delete event still pending = late event of the old incarnation); the same-named pod is re-created (new UID), filtered, and its Bind on any approved node among n1,n5 runs while, as a second logical thread starting inside any one window of that Bind (API-server, provider or IPAM call; symbolic window 0..14), the late event is handled; the second thread parks wherever it needs the pod key lock Bind holds and continues when Bind releases it
// ASSUME: C01: same scenario as VerifC10_q_bindVsLateEvent, checked under C01
func VerifC01_q_bindVsLateEvent() { vpBindVsLateEvent("C01") }

// BOUND: topologies {1,3} (two pools; in topology 1 they share one pod subnet); two statefulset pods bound on nodes of different pools (n1, n2), symbolic policy; then galaxy-ipam restarts or reloads the unchanged configuration through ensureIPAMConf (tables rebuilt from the store); then two more pods are scheduled on any approved node. Every live bound pod keeps its IP and no IP is held by two live pods
func VerifC01_q_reloadKeepsOwnership() { vpReloadKeepsOwnership("C01") }

func vpReloadKeepsOwnership(prop string) {
	topo := []int{1, 3}[nondetChoice(2)]
	w := vpNewWorld(topo, false)
	text, _ := vpConfig(topo, 0)
	if err := w.reload(text); err != nil {
		return
	}
	policy := nondetPick("", "immutable", "never")
	w.setStatefulSet(4)
	for i, node := range []string{"n1", "n2"} {
		name := vpPodNameOf(vpKindSts, i)
		w.createPod(vpMakePod(name, "U"+name, vpKindSts, policy, "", ""))
		w.syncListers()
		if w.bind(name, node) != nil {
			return
		}
		w.setRunning(name)
	}
	w.syncListers()
	w.checkAll(prop, "binding a pod on each pool")
	if nondetBool() {
		if w.restart() != nil {
			return
		}
	} else {
		w.plugin.lastIPConf = "" // the configmap is read again and looks new
		if err := w.reload(text); err != nil {
			return
		}
	}
	verifReach("tables-rebuilt")
	w.checkAll(prop, "rebuilding the tables from the store")
	for i := 2; i < 4; i++ {
		name := vpPodNameOf(vpKindSts, i)
		w.createPod(vpMakePod(name, "U"+name, vpKindSts, policy, "", ""))
		w.syncListers()
		if nodes, err := w.filter(name, "n1", "n2", "n3"); err == nil && len(nodes) > 0 {
			if w.bind(name, nodes[nondetChoice(len(nodes))]) == nil {
				w.setRunning(name)
			}
		}
		w.syncListers()
		w.checkAll(prop, "scheduling another pod after the rebuild")
	}
}

// BOUND: topology 0 with all but one address held by other pods; a statefulset pod (symbolic policy) bound and running; a standby instance of galaxy-ipam has an informer cache that stops following at that point; the pod is deleted, its event handled, the same-named pod re-created, bound by the active instance and running; then the standby takes over (new plugin, tables rebuilt from the shared store, but its lagging informer cache: it still holds the first incarnation) and runs one resync pass (and the pod-IP sync pass) before its cache catches up, then another one afterwards. The live pod keeps its IP throughout (the stale cache's answer has to be confirmed with the API server; one of the pass's pod GETs may fail at a symbolic position, answered as the real typed client does: an empty object plus the error)
// ASSUME: C01: same scenario as VerifC04_q_failoverStaleCache, checked under C01
func VerifC01_q_failoverStaleCache() { vpFailoverStaleCache("C01") }

// BOUND: topology 0 (C10: with the cloud provider); a statefulset pod (symbolic policy) is created and filtered; its Bind on any approved node among n1,n5,n3 runs while, as a second logical thread inside any one window of that Bind (right before / after an API-server, provider or IPAM call; symbolic window 0..12), the pod is deleted (its delete event queued) and re-created under the same name with a new UID; then the queued events are handled, the re-created pod is scheduled if the binding did not reach it, and one more pod is scheduled. The API-server stub enforces the UID precondition of a Binding like the real one. No two live pods may hold one IP and every live bound pod must own its IP
func VerifC01_q_bindVsRecreate() { vpBindVsRecreate("C01") }

func vpBindVsRecreate(prop string) {
	w := vpNewWorld(0, prop == "C10")
	if err := w.configure(); err != nil {
		return
	}
	w.wrapIPAM()
	w.setStatefulSet(3)
	policy := nondetPick("", "immutable", "never")
	name := "ss-0"
	w.createPod(vpMakePod(name, "U1", vpKindSts, policy, "", ""))
	w.syncListers()
	nodes, err := w.filter(name, "n1", "n5", "n3")
	if err != nil || len(nodes) == 0 {
		return
	}
	w.interferer = func() {
		w.deletePod(name) // its event is queued
		w.createPod(vpMakePod(name, "U2", vpKindSts, policy, "", ""))
		w.syncListers()
	}
	w.windowAt = nondetInt(0, 12)
	_ = w.bind(name, nodes[nondetChoice(len(nodes))]) // the scheduler's call carries the uid of the first incarnation
	w.finishInterference()
	if w.interferer != nil {
		return
	}
	verifReach("recreated-inside-bind")
	for len(w.pending) > 0 {
		_ = w.handleEvent(0)
	}
	if p := w.pods[name]; p != nil && p.Spec.NodeName == "" {
		if nodes, err := w.filter(name, "n1", "n5", "n3"); err == nil && len(nodes) > 0 {
			_ = w.bind(name, nodes[nondetChoice(len(nodes))])
		}
	}
	if p := w.pods[name]; p != nil && p.Spec.NodeName != "" {
		w.setRunning(name)
	}
	w.syncListers()
	w.checkAll(prop, "a Bind that overlapped the re-creation of the pod under the same name")
	other := "ss-1"
	w.createPod(vpMakePod(other, "V1", vpKindSts, "", "", ""))
	w.syncListers()
	if nodes, err := w.filter(other, "n1", "n5", "n3"); err == nil && len(nodes) > 0 {
		if w.bind(other, nodes[0]) == nil {
			w.setRunning(other)
		}
	}
	w.syncListers()
	w.checkAll(prop, "scheduling another pod afterwards")
}

// BOUND: topology 1; same scenario as VerifC04_q_reserveReleaseVsRebind (API release of a deployment's / pool's reserved address overlapping Filter + Bind of the replacement pod, symbolic window 0..10), checked under C01: no two live pods hold one IP and every live bound pod owns its IP
// ASSUME: C01: same scenario as VerifC04_q_reserveReleaseVsRebind, checked under C01
func VerifC01_q_reserveReleaseVsRebind() { vpReserveReleaseVsRebind("C01") }
