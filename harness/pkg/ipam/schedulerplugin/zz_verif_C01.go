package schedulerplugin

// BOUND: topology 0 (3 IPs); kinds {statefulset, deployment}; policy symbolic {default, immutable, never}; one pod name, incarnations U1,U2; 1 housekeeping step before / 1 after the new incarnation is bound; symbolic lister lag; one API call may fail cleanly at a symbolic position (1..40), a failed bind is retried once
func VerifC01_q_reincarnation() {
	vpReincarnation(vpScenarioOpts{prop: "C01", topos: []int{0}, kinds: []int{vpKindSts, vpKindDp}, earlySteps: 1, lateSteps: 1, faults: true, retryBind: true})
}

// BOUND: as above, topologies {0,1,3}, 4 workload kinds, 2+2 housekeeping steps, no faults
func VerifC01_t_reincarnationDeep() {
	vpReincarnation(vpScenarioOpts{prop: "C01", topos: []int{0, 1, 3}, kinds: []int{vpKindSts, vpKindDp, vpKindBare, vpKindTApp}, earlySteps: 2, lateSteps: 2})
}
