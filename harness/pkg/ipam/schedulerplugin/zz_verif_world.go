package schedulerplugin

// The IPAM world harness (DESIGN.md §5): the real FloatingIPPlugin wired to from-scratch fakes of the
// API server (pods, nodes, workloads, Pool objects, FloatingIP store), informer caches with explicit
// lag, a recording cloud provider and a pending-event set. Actions call the real entry points
// (Filter, Bind, unbind via the event channel, resyncPod, Release, syncPodIP, ensureIPAMConf).

import (
	"sync"
	"context"
	"fmt"
	"net"
	"sort"
	"strings"

	appsv1 "k8s.io/api/apps/v1"
	corev1 "k8s.io/api/core/v1"
	apierrors "k8s.io/apimachinery/pkg/api/errors"
	"k8s.io/apimachinery/pkg/api/resource"
	metav1 "k8s.io/apimachinery/pkg/apis/meta/v1"
	"k8s.io/apimachinery/pkg/labels"
	"k8s.io/apimachinery/pkg/runtime/schema"
	"k8s.io/apimachinery/pkg/types"
	"k8s.io/client-go/kubernetes"
	corev1client "k8s.io/client-go/kubernetes/typed/core/v1"
	appv1lister "k8s.io/client-go/listers/apps/v1"
	corev1lister "k8s.io/client-go/listers/core/v1"
	"tkestack.io/galaxy/pkg/api/galaxy/constant"
	"tkestack.io/galaxy/pkg/api/k8s/schedulerapi"
	"tkestack.io/galaxy/pkg/ipam/apis/galaxy/v1alpha1"
	"tkestack.io/galaxy/pkg/ipam/cloudprovider/rpc"
	ipamcontext "tkestack.io/galaxy/pkg/ipam/context"
	galaxylister "tkestack.io/galaxy/pkg/ipam/client/listers/galaxy/v1alpha1"
	"tkestack.io/galaxy/pkg/ipam/floatingip"
	"tkestack.io/galaxy/pkg/ipam/schedulerplugin/util"
	"tkestack.io/galaxy/pkg/utils/nets"
	"k8s.io/apimachinery/pkg/util/sets"
)

// ASSUME: the API server is modelled by in-harness fakes: Get/Bind of a missing pod is NotFound; Bind with a UID precondition that does not match, or of an already bound pod, is Conflict; any single call may fail cleanly (no effect)
// ASSUME: informer caches (listers) hold, per object, either the current API object or an earlier version of it; the harness decides when they catch up
// ASSUME: pod events carry the last pod object the informer saw for that incarnation; an event exists only for an incarnation that is deleted or finished in the API truth
// ASSUME: the cloud provider detaches an address only from the node named in the request; for a node that does not hold the address the call succeeds without effect
// ASSUME: keymutex locks are modelled per key (the real hashed key mutex may additionally collide keys)

const vpNS = "ns"

// ---------------------------------------------------------------- key mutex

type vpKeyMutex struct {
	w    *vpWorld
	held map[string]int // key -> logical thread holding it
	pods bool           // this is the pod lock pool: every key is <namespace>_<pod name>
}

func (m *vpKeyMutex) LockKey(id string) {
	if m.held == nil {
		m.held = map[string]int{}
	}
	me := 1
	if m.w != nil {
		me = m.w.thread
	}
	if m.pods && !strings.HasPrefix(id, vpNS+"_") && !strings.HasSuffix(id, "_") { // (keys without a pod name: releases of an app's / pool's reserve)
		// every operation on a pod has to take the same key for it, <namespace>_<name> (all pods of the world live in
		// namespace vpNS): another spelling excludes nobody
		verifAssert("C18/pod-lock-key-form?", false, "an operation locks the pod lock pool with the key "+id+", which is not <namespace>_<pod name>: it does not exclude the other operations on that pod")
	}
	for other, owner := range m.held {
		// the real pools are hashed key mutexes (500000 buckets): two different keys of ONE pool may share a bucket, so
		// an operation that holds one key of a pool and takes another key of the same pool can block on itself; the
		// code avoids that by taking nested locks from different pools (pod lock pool, deployment / pool lock pool)
		if owner == me && other != id {
			verifAssert("C18/two-keys-of-one-hashed-pool?", false, "an operation takes a second key ("+id+") of a hashed lock pool while it holds another one ("+other+"): a bucket collision deadlocks it")
		}
	}
	for {
		owner, held := m.held[id]
		if !held {
			break
		}
		if owner == me {
			verifAssert("C18/self-deadlock?", false, "a key lock is acquired twice by the same operation (self-deadlock)")
		}
		if me == 2 && m.w != nil {
			// the second activity waits for the first: park; it is resumed when the key is released
			m.w.toThread(1)
			verifCoPark()
			m.w.toThread(2)
			continue
		}
		// the first activity would wait for a key the parked second one holds: not explored
		verifAssume(false)
	}
	m.held[id] = me
}

func (m *vpKeyMutex) UnlockKey(id string) error {
	if _, ok := m.held[id]; !ok {
		return fmt.Errorf("unlock of unlocked key %s", id)
	}
	delete(m.held, id)
	if m.w != nil && m.w.coParked && m.w.thread == 1 {
		m.w.resumeParked()
	}
	return nil
}

func (m *vpKeyMutex) anyHeld() bool { return len(m.held) > 0 }

// ---------------------------------------------------------------- API truth, listers

type vpBindRec struct {
	pod, uid, node string
	ips            []string
	annotation     string
}

type vpWorld struct {
	mu     sync.Mutex // guards the fakes' own maps inside the fakes' methods only (never held across a window)
	topo   int
	store  *floatingip.VfStore
	plugin *FloatingIPPlugin
	ips    []string
	nodes  map[string]*corev1.Node

	pods        map[string]*corev1.Pod // API truth
	deployments map[string]*appsv1.Deployment
	statefulset map[string]*appsv1.StatefulSet
	pools       map[string]*v1alpha1.Pool
	tapps       map[string]int // custom scalable workload: replicas
	configMap   string

	lPods        map[string]*corev1.Pod // informer caches
	lDeployments map[string]*appsv1.Deployment
	lStatefulset map[string]*appsv1.StatefulSet
	lPools       map[string]*v1alpha1.Pool

	pending []*corev1.Pod // pod events not yet handled (objects as the informer saw them)
	binds   []vpBindRec
	calls   int
	faultAt int // the calls-th API/provider call fails cleanly; 0 = none
	crashAt int // the process dies right before the calls-th API/provider call; 0 = never
	faultKinds map[string]bool // if set, only calls of these kinds are counted for faultAt / crashAt
	faulted bool

	provider    *vpProvider
	podLocks    *vpKeyMutex
	dpLocks     *vpKeyMutex
	// interference (DESIGN.md §3.7 2a): another whole operation runs atomically inside one window of the outer
	// operation; windows are the points right before and right after every API-server call
	faultAll   bool // every counted call from the faultAt-th on fails (an outage), not just that one
	interferer func()
	windowAt   int // symbolic: the index of the window in which the interferer runs (0 = never)
	winCount   int
	thread     int
	coParked   bool // the second activity is parked on a key lock

	multiIPKeys map[string]bool // keys of pods that were bound with two or more IPs
	allowRestart bool           // scenario option: housekeeping may restart galaxy-ipam
	partialUnassign bool        // resync or the release API sent an UnAssignIP (for one IP of a key) at some point of this history
	curOp        string         // which activity is running: "event" (unbind of a pod event), "resync", "api" (release API)
	reserveStale bool           // C03: an unbind decided on a deployment the informer cache had not caught up with (known finding)

	lateEventActive bool // an event of an earlier incarnation is being handled while a same-named live pod with another UID exists
	lateEventSeen   bool // ... has happened at some point of this history
}

func (w *vpWorld) windowPoint() {
	if w.interferer == nil {
		return
	}
	w.winCount++
	if w.windowAt == w.winCount {
		f := w.interferer
		w.interferer = nil
		// the second activity runs as its own logical thread: to completion inside this window, or until it has to
		// wait for a pod/pool key lock the first activity holds (then it parks and resumes when the lock is released)
		w.toThread(2)
		verifCo(f)
		w.toThread(1)
		w.coParked = !verifCoDone()
	}
}

func (w *vpWorld) toThread(t int) {
	w.thread = t
	verifThread(t)
}

// resumeParked lets the parked second activity continue (called when a key lock is released and when the outer
// operation has returned).
func (w *vpWorld) resumeParked() {
	if !w.coParked || w.thread != 1 {
		return
	}
	w.toThread(2)
	verifCoResume()
	w.toThread(1)
	w.coParked = !verifCoDone()
}

// finishInterference drains the second activity after the outer operation returned.
func (w *vpWorld) finishInterference() {
	for i := 0; w.coParked && i < 4; i++ {
		w.resumeParked()
	}
	verifAssume(!w.coParked)
}

func (w *vpWorld) tick(kind, name string) error {
	w.windowPoint()
	w.mu.Lock()
	defer w.mu.Unlock()
	if w.faultKinds != nil && !w.faultKinds[kind] {
		return nil // this scenario injects faults into some kinds of calls only
	}
	w.calls++
	if w.crashAt != 0 && w.crashAt == w.calls {
		w.mu.Unlock()
		w.mu.Lock() // (keeps the deferred Unlock balanced)
		panic(vpCrashed{})
	}
	if w.faultAt == w.calls || (w.faultAll && w.faultAt > 0 && w.calls >= w.faultAt) {
		w.faulted = true
		return fmt.Errorf("injected fault: %s %s", kind, name)
	}
	return nil
}

var vpPodGR = schema.GroupResource{Resource: "pods"}

// ---- kube client

type vpKube struct {
	kubernetes.Interface
	w *vpWorld
}

func (k *vpKube) CoreV1() corev1client.CoreV1Interface { return &vpCoreV1{w: k.w} }

type vpCoreV1 struct {
	corev1client.CoreV1Interface
	w *vpWorld
}

func (c *vpCoreV1) Pods(ns string) corev1client.PodInterface        { return &vpPods{w: c.w, ns: ns} }
func (c *vpCoreV1) Nodes() corev1client.NodeInterface               { return &vpNodes{w: c.w} }
func (c *vpCoreV1) ConfigMaps(ns string) corev1client.ConfigMapInterface { return &vpConfigMaps{w: c.w} }

type vpPods struct {
	corev1client.PodInterface
	w  *vpWorld
	ns string
}

func (p *vpPods) Get(ctx context.Context, name string, opts metav1.GetOptions) (*corev1.Pod, error) {
	if err := p.w.tick("pods.get", name); err != nil {
		return &corev1.Pod{}, err
	}
	p.w.mu.Lock()
	defer p.w.mu.Unlock()
	pod, ok := p.w.pods[name]
	if !ok || p.ns != vpNS {
		return &corev1.Pod{}, apierrors.NewNotFound(vpPodGR, name)
	}
	return pod, nil
}

func (p *vpPods) Bind(ctx context.Context, b *corev1.Binding, opts metav1.CreateOptions) error {
	if err := p.w.tick("pods.bind", b.Name); err != nil {
		return err
	}
	p.w.mu.Lock()
	defer p.w.mu.Unlock()
	pod, ok := p.w.pods[b.Name]
	if !ok || p.ns != vpNS {
		return apierrors.NewNotFound(vpPodGR, b.Name)
	}
	if b.UID != "" && b.UID != pod.UID {
		return apierrors.NewConflict(vpPodGR, b.Name, fmt.Errorf("uid precondition failed"))
	}
	if pod.Spec.NodeName != "" {
		return apierrors.NewConflict(vpPodGR, b.Name, fmt.Errorf("pod is already assigned to a node"))
	}
	np := vpCopyPod(pod)
	np.Spec.NodeName = b.Target.Name
	if np.Annotations == nil {
		np.Annotations = map[string]string{}
	}
	for k, v := range b.Annotations {
		np.Annotations[k] = v
	}
	p.w.pods[b.Name] = np
	rec := vpBindRec{pod: b.Name, uid: string(pod.UID), node: b.Target.Name, annotation: b.Annotations[constant.ExtendedCNIArgsAnnotation]}
	rec.ips = vpAnnotationIPs(rec.annotation)
	p.w.binds = append(p.w.binds, rec)
	if len(rec.ips) >= 2 {
		p.w.multiIPKeys[vpKeyOf(pod)] = true
	}
	return nil
}

type vpNodes struct {
	corev1client.NodeInterface
	w *vpWorld
}

func (n *vpNodes) Get(ctx context.Context, name string, opts metav1.GetOptions) (*corev1.Node, error) {
	if err := n.w.tick("nodes.get", name); err != nil {
		return &corev1.Node{}, err
	}
	n.w.mu.Lock()
	defer n.w.mu.Unlock()
	node, ok := n.w.nodes[name]
	if !ok {
		return &corev1.Node{}, apierrors.NewNotFound(schema.GroupResource{Resource: "nodes"}, name)
	}
	return node, nil
}

type vpConfigMaps struct {
	corev1client.ConfigMapInterface
	w *vpWorld
}

func (c *vpConfigMaps) Get(ctx context.Context, name string, opts metav1.GetOptions) (*corev1.ConfigMap, error) {
	if err := c.w.tick("configmaps.get", name); err != nil {
		return &corev1.ConfigMap{}, err
	}
	defer c.w.windowPoint()
	return &corev1.ConfigMap{Data: map[string]string{"floatingips": c.w.configMap}}, nil
}

// ---- listers

type vpPodLister struct {
	corev1lister.PodLister
	w *vpWorld
}

func (l *vpPodLister) Pods(ns string) corev1lister.PodNamespaceLister { return &vpPodNSLister{w: l.w, ns: ns} }
func (l *vpPodLister) List(sel labels.Selector) ([]*corev1.Pod, error) {
	l.w.mu.Lock()
	defer l.w.mu.Unlock()
	var names []string
	for n := range l.w.lPods {
		names = append(names, n)
	}
	sort.Strings(names)
	var out []*corev1.Pod
	for _, n := range names {
		out = append(out, l.w.lPods[n])
	}
	return out, nil
}

type vpPodNSLister struct {
	corev1lister.PodNamespaceLister
	w  *vpWorld
	ns string
}

func (l *vpPodNSLister) Get(name string) (*corev1.Pod, error) {
	l.w.mu.Lock()
	defer l.w.mu.Unlock()
	pod, ok := l.w.lPods[name]
	if !ok || l.ns != vpNS {
		return nil, apierrors.NewNotFound(vpPodGR, name)
	}
	return pod, nil
}

type vpDpLister struct {
	appv1lister.DeploymentLister
	w *vpWorld
}

func (l *vpDpLister) Deployments(ns string) appv1lister.DeploymentNamespaceLister {
	return &vpDpNSLister{w: l.w, ns: ns}
}

type vpDpNSLister struct {
	appv1lister.DeploymentNamespaceLister
	w  *vpWorld
	ns string
}

func (l *vpDpNSLister) Get(name string) (*appsv1.Deployment, error) {
	l.w.mu.Lock()
	defer l.w.mu.Unlock()
	d, ok := l.w.lDeployments[name]
	if !ok || l.ns != vpNS {
		return nil, apierrors.NewNotFound(schema.GroupResource{Group: "apps", Resource: "deployments"}, name)
	}
	return d, nil
}

type vpStsLister struct {
	appv1lister.StatefulSetLister
	w *vpWorld
}

func (l *vpStsLister) StatefulSets(ns string) appv1lister.StatefulSetNamespaceLister {
	return &vpStsNSLister{w: l.w, ns: ns}
}

type vpStsNSLister struct {
	appv1lister.StatefulSetNamespaceLister
	w  *vpWorld
	ns string
}

func (l *vpStsNSLister) Get(name string) (*appsv1.StatefulSet, error) {
	l.w.mu.Lock()
	defer l.w.mu.Unlock()
	s, ok := l.w.lStatefulset[name]
	if !ok || l.ns != vpNS {
		return nil, apierrors.NewNotFound(schema.GroupResource{Group: "apps", Resource: "statefulsets"}, name)
	}
	return s, nil
}

type vpPoolLister struct {
	galaxylister.PoolLister
	w *vpWorld
}

func (l *vpPoolLister) Pools(ns string) galaxylister.PoolNamespaceLister { return &vpPoolNSLister{w: l.w} }

type vpPoolNSLister struct {
	galaxylister.PoolNamespaceLister
	w *vpWorld
}

func (l *vpPoolNSLister) Get(name string) (*v1alpha1.Pool, error) {
	l.w.mu.Lock()
	defer l.w.mu.Unlock()
	p, ok := l.w.lPools[name]
	if !ok {
		return nil, apierrors.NewNotFound(schema.GroupResource{Group: "galaxy.k8s.io", Resource: "pools"}, name)
	}
	return p, nil
}

// ---- custom scalable workloads (kind TApp)

type vpCrdKey struct{ w *vpWorld }

func (c *vpCrdKey) GetGroupVersionResource(appPrefix string) *schema.GroupVersionResource {
	if appPrefix == "tapp_" {
		return &schema.GroupVersionResource{Group: "apps.tkestack.io", Version: "v1", Resource: "tapps"}
	}
	return nil
}

type vpCrdCache struct{ w *vpWorld }

func (c *vpCrdCache) GetReplicas(gvr schema.GroupVersionResource, namespace, name string) (int, error) {
	c.w.mu.Lock()
	defer c.w.mu.Unlock()
	r, ok := c.w.tapps[name]
	if !ok || namespace != vpNS {
		return 0, apierrors.NewNotFound(schema.GroupResource{Group: gvr.Group, Resource: gvr.Resource}, name)
	}
	return r, nil
}

// ---- recording cloud provider with a per-IP state machine (C10)

type vpProvider struct {
	w        *vpWorld
	assigned map[string]string // ip -> node the provider has it assigned to
	log      []string
}

func (p *vpProvider) AssignIP(in *rpc.AssignIPRequest) (*rpc.AssignIPReply, error) {
	if err := p.w.tick("provider.assign", in.IPAddress); err != nil {
		return nil, err
	}
	cur, has := p.assigned[in.IPAddress]
	verifAssert("C10/assign-while-assigned-elsewhere?", !has || cur == in.NodeName,
		"AssignIP to a second node while the provider still has the IP assigned to another node")
	p.assigned[in.IPAddress] = in.NodeName
	p.log = append(p.log, "assign "+in.IPAddress+" "+in.NodeName)
	return &rpc.AssignIPReply{Success: true}, nil
}

func (p *vpProvider) UnAssignIP(in *rpc.UnAssignIPRequest) (*rpc.UnAssignIPReply, error) {
	if err := p.w.tick("provider.unassign", in.IPAddress); err != nil {
		return nil, err
	}
	if owner := p.w.liveOwnerOf(in.IPAddress); owner != "" {
		verifKnown("kf-late-event-other-uid", p.w.lateEventActive)
		verifAssert("C04/unassign-live?", false, "the cloud provider was asked to unassign the IP of a live bound pod")
	}
	if p.w.curOp == "resync" || p.w.curOp == "api" {
		p.w.partialUnassign = true
	}
	if cur, has := p.assigned[in.IPAddress]; has && cur != in.NodeName {
		// the provider detaches the address from the node it is asked about; an address attached to another node stays
		// where it is (idempotent answer for a node that does not hold it)
		p.log = append(p.log, "unassign "+in.IPAddress+" "+in.NodeName+" (held by "+cur+": no effect)")
		return &rpc.UnAssignIPReply{Success: true}, nil
	}
	delete(p.assigned, in.IPAddress)
	p.log = append(p.log, "unassign "+in.IPAddress+" "+in.NodeName)
	return &rpc.UnAssignIPReply{Success: true}, nil
}

// ---------------------------------------------------------------- construction

func vpNode(name, ip string) *corev1.Node {
	return &corev1.Node{ObjectMeta: metav1.ObjectMeta{Name: name},
		Status: corev1.NodeStatus{Addresses: []corev1.NodeAddress{{Type: corev1.NodeInternalIP, Address: ip}}}}
}

// vpNewWorld builds a plugin over the given topology (see floatingip.VTopology) with an empty store.
func vpNewWorld(topo int, withProvider bool) *vpWorld {
	w := &vpWorld{topo: topo, store: floatingip.VfNewStore(),
		pods: map[string]*corev1.Pod{}, deployments: map[string]*appsv1.Deployment{}, statefulset: map[string]*appsv1.StatefulSet{},
		pools: map[string]*v1alpha1.Pool{}, tapps: map[string]int{},
		lPods: map[string]*corev1.Pod{}, lDeployments: map[string]*appsv1.Deployment{}, lStatefulset: map[string]*appsv1.StatefulSet{},
		lPools: map[string]*v1alpha1.Pool{},
		podLocks: &vpKeyMutex{pods: true}, dpLocks: &vpKeyMutex{}, multiIPKeys: map[string]bool{}}
	_, w.ips, _ = floatingip.VTopology(topo)
	w.store.Tick = w.tick
	w.store.After = func(kind, name string) { w.windowPoint() }
	w.thread = 1
	w.podLocks.w, w.dpLocks.w = w, w
	// n1 and n5 lie in 10.0.1.0/24 (listed by every topology), n2 in 10.0.2.0/24, n3 in no node subnet, n4 in the /32 subnet of topology 2
	w.nodes = map[string]*corev1.Node{"n1": vpNode("n1", "10.0.1.5"), "n2": vpNode("n2", "10.0.2.5"), "n3": vpNode("n3", "10.0.9.9"), "n4": vpNode("n4", "10.0.3.3"), "n5": vpNode("n5", "10.0.1.6")}
	p := &FloatingIPPlugin{
		nodeSubnet: map[string]*net.IPNet{},
		IPAMContext: &ipamcontext.IPAMContext{Client: &vpKube{w: w}, PodLister: &vpPodLister{w: w},
			StatefulSetLister: &vpStsLister{w: w}, DeploymentLister: &vpDpLister{w: w}, PoolLister: &vpPoolLister{w: w}},
		conf:        &Conf{ConfigMapName: "floatingip-config", ConfigMapNamespace: "kube-system", FloatingIPKey: "floatingips"},
		unreleased:  make(chan *releaseEvent, 100),
		dpLockPool:  w.dpLocks,
		podLockPool: w.podLocks,
		crdKey:      &vpCrdKey{w: w},
		crdCache:    &vpCrdCache{w: w},
	}
	p.ipam = floatingip.NewCrdIPAM(&floatingip.VfClient{Store: w.store}, nil)
	if withProvider {
		w.provider = &vpProvider{w: w, assigned: map[string]string{}}
		p.cloudProvider = w.provider
		// C10: an IP is unassigned at the provider before its FloatingIP object is deleted (freed) or re-keyed
		w.store.Observe = func(kind string, old, new *v1alpha1.FloatingIP) {
			if old == nil {
				return
			}
			node, held := w.provider.assigned[old.Name]
			// known finding: a key holding several IPs is unassigned one IP at a time but released / reserved as a whole
			// known finding: resync / the release API unassign one IP of a multi-IP key and then clear the node of, or free,
			// every IP of the key; what a later event does to the siblings (unassign with an empty node name, free) follows from it
			verifKnown("kf-C10-multi-ip-partial-unassign", w.multiIPKeys[old.Spec.Key] && (w.curOp == "resync" || w.curOp == "api" || w.partialUnassign))
			if kind == "delete" {
				verifAssert("C10/freed-while-assigned?", !held, "a FloatingIP was freed while the provider still has it assigned to "+node)
			} else if new != nil && new.Spec.Key != old.Spec.Key {
				verifAssert("C10/rekeyed-while-assigned?", !held, "a FloatingIP was handed to another owner while the provider still has it assigned to "+node)
			}
		}
	}
	w.plugin = p
	return w
}

func (w *vpWorld) configure() error {
	pools, _, _ := floatingip.VTopology(w.topo)
	err := w.plugin.ipam.ConfigurePool(pools)
	floatingip.VerifRotate(w.innerIPAM())
	return err
}

// ---------------------------------------------------------------- pods and workloads

const (
	vpKindSts = iota
	vpKindDp
	vpKindBare
	vpKindTApp
	vpKindDp2 // a second deployment "app2"
)

func vpCopyPod(in *corev1.Pod) *corev1.Pod {
	out := &corev1.Pod{}
	out.Name, out.Namespace, out.UID = in.Name, in.Namespace, in.UID
	out.OwnerReferences = in.OwnerReferences
	out.Spec = in.Spec
	out.Status = in.Status
	if in.Annotations != nil {
		out.Annotations = map[string]string{}
		for k, v := range in.Annotations {
			out.Annotations[k] = v
		}
	}
	return out
}

// vpMakePod builds a pod that requests a floating IP. policy is "", "immutable" or "never".
func vpMakePod(name, uid string, kind int, policy, pool, ranges string) *corev1.Pod {
	pod := &corev1.Pod{ObjectMeta: metav1.ObjectMeta{Name: name, Namespace: vpNS, UID: types.UID(uid), Annotations: map[string]string{}}}
	switch kind {
	case vpKindSts:
		pod.OwnerReferences = []metav1.OwnerReference{{Kind: "StatefulSet", Name: "ss"}}
	case vpKindDp:
		pod.OwnerReferences = []metav1.OwnerReference{{Kind: "ReplicaSet", Name: "app-rs1"}}
	case vpKindTApp:
		pod.OwnerReferences = []metav1.OwnerReference{{Kind: "TApp", Name: "tapp"}}
	case vpKindDp2:
		pod.OwnerReferences = []metav1.OwnerReference{{Kind: "ReplicaSet", Name: "app2-rs1"}}
	}
	if policy != "" {
		pod.Annotations[constant.ReleasePolicyAnnotation] = policy
	}
	if pool != "" {
		pod.Annotations[constant.IPPoolAnnotation] = pool
	}
	if ranges != "" {
		pod.Annotations[constant.ExtendedCNIArgsAnnotation] = `{"request_ip_range":` + ranges + `}`
	}
	pod.Spec.Containers = []corev1.Container{{Name: "c", Resources: corev1.ResourceRequirements{
		Requests: corev1.ResourceList{constant.ResourceName: resource.Quantity{}}}}}
	pod.Status.Phase = corev1.PodPending
	return pod
}

func vpPodNameOf(kind int, idx int) string {
	switch kind {
	case vpKindSts:
		return fmt.Sprintf("ss-%d", idx)
	case vpKindDp:
		return fmt.Sprintf("app-rs1-x%d", idx)
	case vpKindTApp:
		return fmt.Sprintf("tapp-%d", idx)
	case vpKindDp2:
		return fmt.Sprintf("app2-rs1-x%d", idx)
	}
	return fmt.Sprintf("bare-%d", idx)
}

func vpKeyOf(pod *corev1.Pod) string {
	k, err := util.FormatKey(pod)
	if err != nil {
		return "?"
	}
	return k.KeyInDB
}

func int32p(i int32) *int32 { return &i }

func (w *vpWorld) setDeployment(replicas int32) {
	w.deployments["app"] = &appsv1.Deployment{ObjectMeta: metav1.ObjectMeta{Name: "app", Namespace: vpNS}, Spec: appsv1.DeploymentSpec{Replicas: int32p(replicas)}}
}
func (w *vpWorld) setDeployment2(replicas int32) {
	w.deployments["app2"] = &appsv1.Deployment{ObjectMeta: metav1.ObjectMeta{Name: "app2", Namespace: vpNS}, Spec: appsv1.DeploymentSpec{Replicas: int32p(replicas)}}
}
func (w *vpWorld) setStatefulSet(replicas int32) {
	w.statefulset["ss"] = &appsv1.StatefulSet{ObjectMeta: metav1.ObjectMeta{Name: "ss", Namespace: vpNS}, Spec: appsv1.StatefulSetSpec{Replicas: int32p(replicas)}}
}
func (w *vpWorld) setPool(name string, size int) {
	w.pools[name] = &v1alpha1.Pool{ObjectMeta: metav1.ObjectMeta{Name: name, Namespace: "kube-system"}, Size: size}
}

// syncListers lets every informer cache catch up with the API truth.
func (w *vpWorld) syncListers() {
	w.lPods = map[string]*corev1.Pod{}
	for k, v := range w.pods {
		w.lPods[k] = v
	}
	w.lDeployments = map[string]*appsv1.Deployment{}
	for k, v := range w.deployments {
		w.lDeployments[k] = v
	}
	w.lStatefulset = map[string]*appsv1.StatefulSet{}
	for k, v := range w.statefulset {
		w.lStatefulset[k] = v
	}
	w.lPools = map[string]*v1alpha1.Pool{}
	for k, v := range w.pools {
		w.lPools[k] = v
	}
}

// ---------------------------------------------------------------- actions (real entry points)

func (w *vpWorld) drainEvents() {
	for len(w.plugin.unreleased) > 0 {
		ev := <-w.plugin.unreleased
		w.pending = append(w.pending, ev.pod)
	}
}

func (w *vpWorld) createPod(pod *corev1.Pod) {
	w.pods[pod.Name] = pod
}

func (w *vpWorld) nodeList(names ...string) []corev1.Node {
	var out []corev1.Node
	for _, n := range names {
		out = append(out, *w.nodes[n])
	}
	return out
}

// filter runs the real Filter with the pod object the scheduler has (the API truth object).
func (w *vpWorld) filter(name string, nodes ...string) ([]string, error) {
	pod := w.pods[name]
	res, _, err := w.plugin.Filter(pod, w.nodeList(nodes...))
	var out []string
	for i := range res {
		out = append(out, res[i].Name)
	}
	return out, err
}

// bind runs the real Bind the way the scheduler extender calls it.
func (w *vpWorld) bind(name, node string) error {
	pod := w.pods[name]
	err := w.plugin.Bind(&schedulerapi.ExtenderBindingArgs{PodName: name, PodNamespace: vpNS, PodUID: pod.UID, Node: node})
	w.drainEvents()
	return err
}

// setRunning is the kubelet reporting the pod as running.
func (w *vpWorld) setRunning(name string) {
	old := w.pods[name]
	np := vpCopyPod(old)
	np.Status.Phase = corev1.PodRunning
	w.pods[name] = np
}

// finishPod moves a pod to Succeeded and delivers the update event to the plugin (real UpdatePod).
func (w *vpWorld) finishPod(name string) {
	old := w.pods[name]
	np := vpCopyPod(old)
	np.Status.Phase = corev1.PodSucceeded
	w.pods[name] = np
	_ = w.plugin.UpdatePod(old, np)
	w.drainEvents()
}

// deletePod removes the pod from the API truth and delivers the delete event (real DeletePod).
func (w *vpWorld) deletePod(name string) {
	old := w.pods[name]
	delete(w.pods, name)
	_ = w.plugin.DeletePod(old)
	w.drainEvents()
}

// deletePodSilently removes the pod but loses the event (only resync can repair).
func (w *vpWorld) deletePodSilently(name string) { delete(w.pods, name) }

// handleEvent runs the real unbind for the i-th pending event, as event.go's loop does.
func (w *vpWorld) handleEvent(i int) error {
	ev := w.pending[i]
	w.pending = append(append([]*corev1.Pod{}, w.pending[:i]...), w.pending[i+1:]...)
	live := w.pods[ev.Name]
	w.lateEventActive = live != nil && live.UID != ev.UID
	if w.lateEventActive {
		w.lateEventSeen = true
	}
	prev := w.curOp
	w.curOp = "event"
	err := w.plugin.unbind(ev)
	w.curOp = prev
	w.lateEventActive = false
	return err
}

func (w *vpWorld) resync() {
	prev := w.curOp
	w.curOp = "resync"
	_ = w.plugin.resyncPod()
	w.plugin.syncPodIPsIntoDB()
	w.curOp = prev
}

// apiRelease is what POST /v1/ip does for one listed entry: the real plugin.Release.
func (w *vpWorld) apiRelease(ip string) error {
	for _, e := range w.dump() {
		if e.IP == ip && e.Allocated {
			k := util.ParseKey(e.Key)
			prev := w.curOp
			w.curOp = "api"
			err := w.plugin.Release(&ReleaseRequest{KeyObj: k, IP: net.ParseIP(ip)})
			w.curOp = prev
			return err
		}
	}
	return nil
}

func (w *vpWorld) dump() []floatingip.VerifEntry { return floatingip.VerifDump(w.innerIPAM(), w.ips) }

// ---------------------------------------------------------------- observation helpers

// vpAnnotationIPs extracts the IPs of a binding annotation.
func vpAnnotationIPs(ann string) []string {
	args, err := constant.UnmarshalCniArgs(ann)
	if err != nil || args == nil {
		return nil
	}
	var out []string
	for _, info := range args.Common.IPInfos {
		if info.IP != nil {
			out = append(out, info.IP.IP.String())
		}
	}
	return out
}

func vpLive(pod *corev1.Pod) bool {
	return pod != nil && pod.Status.Phase != corev1.PodSucceeded && pod.Status.Phase != corev1.PodFailed
}

// boundIPs returns the IPs a pod was handed in its binding annotation (nil if not bound by galaxy-ipam).
func vpBoundIPs(pod *corev1.Pod) []string {
	if pod == nil || pod.Spec.NodeName == "" {
		return nil
	}
	return vpAnnotationIPs(pod.Annotations[constant.ExtendedCNIArgsAnnotation])
}

// liveOwnerOf names the live bound pod that was handed ip, if any.
func (w *vpWorld) liveOwnerOf(ip string) string {
	for name, pod := range w.pods {
		if !vpLive(pod) {
			continue
		}
		for _, x := range vpBoundIPs(pod) {
			if x == ip {
				return name
			}
		}
	}
	return ""
}

// invLiveOwnership: every IP of a live bound pod is allocated to that pod's key, with the pod's uid or none (Inv c).
func (w *vpWorld) invLiveOwnership() bool {
	ok := true
	d := w.dump()
	for _, pod := range w.pods {
		if !vpLive(pod) {
			continue
		}
		key := vpKeyOf(pod)
		for _, x := range vpBoundIPs(pod) {
			found := false
			for _, e := range d {
				if e.IP == x {
					found = true
					ok = verifAnd(ok, verifAnd(e.Allocated, e.Key == key))
					ok = verifAnd(ok, verifOr(e.Uid == "", e.Uid == string(pod.UID)))
				}
			}
			ok = verifAnd(ok, found)
		}
	}
	return ok
}

// invUnique: no two live pods were handed the same IP; memory and store agree.
func (w *vpWorld) invUnique() bool {
	ok := true
	seen := map[string]string{}
	var names []string
	for n := range w.pods {
		names = append(names, n)
	}
	sort.Strings(names)
	for _, n := range names {
		pod := w.pods[n]
		if !vpLive(pod) {
			continue
		}
		for _, x := range vpBoundIPs(pod) {
			if other, dup := seen[x]; dup && other != n {
				ok = false
			}
			seen[x] = n
		}
	}
	return ok
}

// agree: memory == store for all configured IPs.
func (w *vpWorld) agree() bool {
	ok := true
	for _, e := range w.dump() {
		obj, inStore := w.store.Objs[e.IP]
		ok = verifAnd(ok, inStore == e.Allocated)
		if inStore && e.Allocated {
			node, uid := floatingip.VerifAttrOf(obj)
			ok = verifAnd(ok, verifAnd(obj.Spec.Key == e.Key, uint16(obj.Spec.Policy) == e.Policy))
			ok = verifAnd(ok, verifAnd(node == e.Node, uid == e.Uid))
		}
	}
	return ok
}

func (w *vpWorld) noLockHeld() bool { return !w.podLocks.anyHeld() && !w.dpLocks.anyHeld() }

func vpHasPrefix(s, p string) bool { return strings.HasPrefix(s, p) }


// invProvider: every IP of a live bound pod is assigned at the provider to that pod's node (C10).
func (w *vpWorld) invProvider() bool {
	if w.provider == nil {
		return true
	}
	ok := true
	for _, pod := range w.pods {
		if !vpLive(pod) {
			continue
		}
		for _, x := range vpBoundIPs(pod) {
			node, held := w.provider.assigned[x]
			ok = ok && held && node == pod.Spec.NodeName
		}
	}
	return ok
}


func vpIP(s string) net.IP { return net.ParseIP(s) }


// ---------------------------------------------------------------- IPAM decorator: interference windows at IPAM calls

// vpIPAMWrap delegates every IPAM call to the real crdIpam and opens an interference window right before and
// right after it (the plugin only knows the IPAM through this interface). Used by the interleaving harnesses.
type vpIPAMWrap struct {
	floatingip.IPAM
	w *vpWorld
}

func (i *vpIPAMWrap) ConfigurePool(pools []*floatingip.FloatingIPPool) error {
	i.w.windowPoint()
	defer i.w.windowPoint()
	return i.IPAM.ConfigurePool(pools)
}
func (i *vpIPAMWrap) AllocateSpecificIP(key string, ip net.IP, attr floatingip.Attr) error {
	i.w.windowPoint()
	defer i.w.windowPoint()
	return i.IPAM.AllocateSpecificIP(key, ip, attr)
}
func (i *vpIPAMWrap) AllocateInSubnet(key string, n *net.IPNet, attr floatingip.Attr) (net.IP, error) {
	i.w.windowPoint()
	defer i.w.windowPoint()
	return i.IPAM.AllocateInSubnet(key, n, attr)
}
func (i *vpIPAMWrap) AllocateInSubnetsAndIPRange(key string, n *net.IPNet, r [][]nets.IPRange, attr floatingip.Attr) ([]net.IP, error) {
	i.w.windowPoint()
	defer i.w.windowPoint()
	return i.IPAM.AllocateInSubnetsAndIPRange(key, n, r, attr)
}
func (i *vpIPAMWrap) AllocateInSubnetWithKey(oldK, newK, subnet string, attr floatingip.Attr) error {
	i.w.windowPoint()
	defer i.w.windowPoint()
	return i.IPAM.AllocateInSubnetWithKey(oldK, newK, subnet, attr)
}
func (i *vpIPAMWrap) ReserveIP(oldK, newK string, attr floatingip.Attr) (bool, error) {
	i.w.windowPoint()
	defer i.w.windowPoint()
	return i.IPAM.ReserveIP(oldK, newK, attr)
}
func (i *vpIPAMWrap) UpdateAttr(key string, ip net.IP, attr floatingip.Attr) error {
	i.w.windowPoint()
	defer i.w.windowPoint()
	return i.IPAM.UpdateAttr(key, ip, attr)
}
func (i *vpIPAMWrap) Release(key string, ip net.IP) error {
	i.w.windowPoint()
	defer i.w.windowPoint()
	return i.IPAM.Release(key, ip)
}
func (i *vpIPAMWrap) ReleaseIPs(m map[string]string) (map[string]string, map[string]string, error) {
	i.w.windowPoint()
	defer i.w.windowPoint()
	return i.IPAM.ReleaseIPs(m)
}
func (i *vpIPAMWrap) ByPrefix(prefix string) ([]*floatingip.FloatingIPInfo, error) {
	i.w.windowPoint()
	defer i.w.windowPoint()
	return i.IPAM.ByPrefix(prefix)
}
func (i *vpIPAMWrap) ByKeyAndIPRanges(key string, r [][]nets.IPRange) ([]*floatingip.FloatingIPInfo, error) {
	i.w.windowPoint()
	defer i.w.windowPoint()
	return i.IPAM.ByKeyAndIPRanges(key, r)
}
func (i *vpIPAMWrap) ByIP(ip net.IP) (floatingip.FloatingIP, error) {
	i.w.windowPoint()
	defer i.w.windowPoint()
	return i.IPAM.ByIP(ip)
}
func (i *vpIPAMWrap) NodeSubnetsByIPRanges(r [][]nets.IPRange) (sets.String, error) {
	i.w.windowPoint()
	defer i.w.windowPoint()
	return i.IPAM.NodeSubnetsByIPRanges(r)
}

// wrapIPAM makes every IPAM call of the plugin an interference window; dump()/VerifDump keep using the inner IPAM.
func (w *vpWorld) wrapIPAM() {
	if _, ok := w.plugin.ipam.(*vpIPAMWrap); !ok {
		w.plugin.ipam = &vpIPAMWrap{IPAM: w.plugin.ipam, w: w}
	}
}

func (w *vpWorld) innerIPAM() floatingip.IPAM {
	if wr, ok := w.plugin.ipam.(*vpIPAMWrap); ok {
		return wr.IPAM
	}
	return w.plugin.ipam
}
