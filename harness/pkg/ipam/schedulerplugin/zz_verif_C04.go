package schedulerplugin

import (
	corev1 "k8s.io/api/core/v1"
	"tkestack.io/galaxy/pkg/api/galaxy/constant"
	"tkestack.io/galaxy/pkg/ipam/floatingip"
)

// BOUND: topology 0 (one pool, 3 IPs); kinds {statefulset, deployment}; policy symbolic over {default, immutable, never}; one pod name, two incarnations (U1, U2); old incarnation finished and/or deleted; 1 housekeeping step (nothing | handle any pending event | resync) before and 1 (plus API release of any IP) after the new incarnation is bound; lister lag after the delete is symbolic; no faults
func VerifC04_q_reincarnation() {
	vpReincarnation(vpScenarioOpts{prop: "C04", topos: []int{0}, kinds: []int{vpKindSts, vpKindDp}, earlySteps: 1, lateSteps: 1})
}

// BOUND: as above with topologies {0,1}, kinds {statefulset, deployment, bare pod, scalable custom resource}, 2 housekeeping steps before and 2 after
func VerifC04_t_reincarnationDeep() {
	vpReincarnation(vpScenarioOpts{prop: "C04", topos: []int{0, 1}, kinds: []int{vpKindSts, vpKindDp, vpKindBare, vpKindTApp}, earlySteps: 2, lateSteps: 2})
}

// BOUND: topology 0; two statefulset pods ss-0, ss-1 bound (symbolic policy); ss-0 disappears without its event being handled (so a resync pass has API calls to make); a resync pass runs and, atomically inside any one window right before/after one of its API-server calls (symbolic window 0..10), either ss-1 is re-incarnated (deleted, its event handled, re-created with a new UID, filtered and bound on any approved node) or the vanished ss-0 is re-created with a new UID, filtered and bound (parking at the pod key lock the pass holds). Afterwards every live bound pod must still own its IP
// ASSUME: C04: interference granularity = API-server calls: the second activity runs to completion inside one window of the first; interleavings in which it would have to wait for a lock the first holds are discarded
func VerifC04_q_resyncVsReincarnation() { vpResyncVsReincarnation("C04") }

func vpResyncVsReincarnation(prop string) {
	w := vpNewWorld(0, nondetBool())
	if err := w.configure(); err != nil {
		return
	}
	w.setStatefulSet(2)
	policy := nondetPick("", "immutable", "never")
	for i := 0; i < 2; i++ {
		name := vpPodNameOf(vpKindSts, i)
		w.createPod(vpMakePod(name, "U1", vpKindSts, policy, "", ""))
		w.syncListers()
		nodes, err := w.filter(name, "n1", "n5", "n3")
		if err != nil || len(nodes) == 0 {
			return
		}
		if w.bind(name, nodes[0]) != nil {
			return
		}
		w.setRunning(name)
	}
	w.syncListers()
	w.checkAll(prop, "setup")
	w.deletePodSilently("ss-0")
	w.syncListers()
	// inside the pass either the running pod ss-1 is re-incarnated, or the vanished pod ss-0 comes back under a new UID
	who := nondetPick("ss-1", "ss-0")
	w.interferer = func() {
		name := who
		if name == "ss-1" {
			w.deletePod(name)
			w.syncListers()
			for len(w.pending) > 0 {
				_ = w.handleEvent(0)
			}
		}
		w.createPod(vpMakePod(name, "U2", vpKindSts, policy, "", ""))
		w.syncListers()
		nodes, err := w.filter(name, "n1", "n5", "n3")
		if err != nil || len(nodes) == 0 {
			return
		}
		if w.bind(name, nodes[nondetChoice(len(nodes))]) == nil {
			w.setRunning(name)
			w.syncListers()
		}
	}
	w.windowAt = nondetInt(0, 10)
	w.resync()
	w.finishInterference()
	ran := w.interferer == nil
	w.interferer = nil
	verifReach("resync-returned")
	if ran {
		verifReach("reincarnation-inside-resync")
	}
	w.checkAll(prop, "a resync pass that overlapped a re-incarnation")
	// two more pods ask for the remaining IPs: an IP wrongly freed above would now be handed to one of them
	w.setDeployment(2)
	for i := 0; i < 2; i++ {
		other := vpPodNameOf(vpKindDp, i)
		w.createPod(vpMakePod(other, "V"+other, vpKindDp, "", "", ""))
		w.syncListers()
		if nodes, err := w.filter(other, "n1", "n5", "n3"); err == nil && len(nodes) > 0 {
			if w.bind(other, nodes[0]) == nil {
				w.setRunning(other)
			}
		}
	}
	w.syncListers()
	w.checkAll(prop, "scheduling two more pods afterwards")
}

// BOUND: topology 0; a statefulset pod (symbolic policy) bound, then gone (deleted; its event handled or still pending) so that its IP is reserved or still recorded for the key; an administrator's API release of that IP runs while, as a second logical thread starting inside any one window right before/after an API-server or IPAM call of the release (symbolic window 0..12), the same-named pod is re-created with a new UID, filtered and bound; the second thread waits (parks) wherever it needs a pod/pool key lock the release holds; afterwards another pod is scheduled. No two live pods may hold one IP and every live bound pod must own its IP
// ASSUME: C04: two logical threads as in VerifC01_q_releaseVsRebind (same scenario, checked under C04)
func VerifC04_q_releaseVsRebind() { vpReleaseVsRebind("C04") }

// BOUND: cloud provider configured; topology 0; a statefulset pod (symbolic policy) bound on n1, finished (event handled) and deleted (its delete event still pending = late event of the old incarnation); the same-named pod is re-created (new UID), filtered, and its Bind on any approved node among n1,n5 runs while, as a second logical thread starting inside any one window of that Bind (API-server, provider or IPAM call; symbolic window 0..14), the late event is handled; the second thread parks wherever it needs the pod key lock Bind holds and continues when Bind releases it
// ASSUME: C04: same scenario as VerifC10_q_bindVsLateEvent, checked under C04 (a live bound pod keeps its IP)
func VerifC04_q_bindVsLateEvent() { vpBindVsLateEvent("C04") }

// BOUND: topologies {0,1}; two pods whose names (and therefore keys) are in a prefix relation: statefulset pods ss-1 and ss-10 (replicas 11), or bare pods bare-1 and bare-10; symbolic policy; both bound; the shorter-named one ends (finished and/or deleted), its event is handled and / or a resync pass runs; then two more pods are scheduled. The longer-named live pod keeps its IP and no IP is held by two live pods
// ASSUME: C04: same scenario as VerifC01_q_prefixSiblings, checked under C04
func VerifC04_q_prefixSiblings() { vpPrefixSiblings("C04") }

// BOUND: topologies {1,3} (two pools; in topology 1 they share one pod subnet); two statefulset pods bound on nodes of different pools (n1, n2), symbolic policy; then galaxy-ipam restarts or reloads the unchanged configuration through ensureIPAMConf (tables rebuilt from the store); then two more pods are scheduled on any approved node. Every live bound pod keeps its IP and no IP is held by two live pods
// ASSUME: C04: same scenario as VerifC01_q_reloadKeepsOwnership, checked under C04
func VerifC04_q_reloadKeepsOwnership() { vpReloadKeepsOwnership("C04") }

// BOUND: topology 0 with all but one address held by other pods; a statefulset pod (symbolic policy) bound and running; a standby instance of galaxy-ipam has an informer cache that stops following at that point; the pod is deleted, its event handled, the same-named pod re-created, bound by the active instance and running; then the standby takes over (new plugin, tables rebuilt from the shared store, but its lagging informer cache: it still holds the first incarnation) and runs one resync pass (and the pod-IP sync pass) before its cache catches up, then another one afterwards. The live pod keeps its IP throughout (the stale cache's answer has to be confirmed with the API server; one of the pass's pod GETs may fail at a symbolic position, answered as the real typed client does: an empty object plus the error)
// ASSUME: C04: a standby's informer cache may lag arbitrarily behind the API server but never shows objects that never existed
func VerifC04_q_failoverStaleCache() { vpFailoverStaleCache("C04") }

func vpFailoverStaleCache(prop string) {
	w := vpNewWorld(0, prop == "C10")
	if err := w.configure(); err != nil {
		return
	}
	w.setStatefulSet(2)
	policy := nondetPick("", "immutable", "never")
	name := "ss-0"
	// all but one address belong to other pods, so that both incarnations get the same address (which free address an
	// allocation picks depends on Go's map iteration order; the replay has to be deterministic)
	for _, ip := range w.ips[1:] {
		if err := w.plugin.ipam.AllocateSpecificIP("sts_ns_other_other-"+ip, vpIP(ip), floatingip.Attr{Policy: constant.ReleasePolicyNever}); err != nil {
			return
		}
	}
	w.createPod(vpMakePod(name, "U1", vpKindSts, policy, "", ""))
	w.syncListers()
	nodes, err := w.filter(name, "n1", "n5", "n3")
	if err != nil || len(nodes) == 0 || w.bind(name, nodes[0]) != nil {
		return
	}
	w.setRunning(name)
	w.syncListers()
	// the standby's cache as of now
	stale := map[string]*corev1.Pod{}
	for k, v := range w.lPods {
		stale[k] = v
	}
	w.deletePod(name)
	w.syncListers()
	for len(w.pending) > 0 {
		_ = w.handleEvent(0)
	}
	w.createPod(vpMakePod(name, "U2", vpKindSts, policy, "", ""))
	w.syncListers()
	nodes, err = w.filter(name, "n1", "n5", "n3")
	if err != nil || len(nodes) == 0 || w.bind(name, nodes[nondetChoice(len(nodes))]) != nil {
		return
	}
	w.setRunning(name)
	w.syncListers()
	w.checkAll(prop, "binding the second incarnation")
	// fail-over: the standby rebuilds its tables from the store but keeps its lagging cache
	if w.restart() != nil {
		return
	}
	w.lPods = stale
	verifReach("standby-took-over")
	// the API server may fail to answer one of the pass's pod GETs (the confirmation of the stale cache's answer);
	// like the real typed client the stub then returns an empty object together with the error
	w.faultKinds = map[string]bool{"pods.get": true}
	w.calls, w.faultAt = 0, nondetInt(0, 2)
	w.resync()
	w.faultAt, w.faultKinds = 0, nil
	w.checkAll(prop, "a resync pass of a standby whose informer cache still holds the former incarnation")
	w.syncListers()
	w.resync()
	w.checkAll(prop, "a resync pass after the cache caught up")
}


// BOUND: topology 0; same scenario as VerifC01_q_bindVsRecreate (a Bind overlapping the deletion and re-creation of the pod under the same name with a new UID, symbolic window 0..12), checked under C04: the live incarnation keeps the IP it was bound with
// ASSUME: C04: same scenario as VerifC01_q_bindVsRecreate, checked under C04
func VerifC04_q_bindVsRecreate() { vpBindVsRecreate("C04") }

// BOUND: topology 1; a deployment (replicas 1) with a reserving policy (immutable, never) or a named pool p1; its pod is bound, then deleted and the event handled, so that the address is kept in the app's / pool's reserve; the administrator's API release of that address runs while, as a second logical thread inside any one window right before/after an API-server or IPAM call of the release (symbolic window 0..10), the replacement pod is created, filtered (which re-keys the reserved address to it) and bound; the second thread parks wherever it needs a key lock the release holds; interleavings in which it would have to wait for the table lock are discarded. Every live bound pod must own its address afterwards
func VerifC04_q_reserveReleaseVsRebind() { vpReserveReleaseVsRebind("C04") }

func vpReserveReleaseVsRebind(prop string) {
	w := vpNewWorld(1, prop == "C10")
	if err := w.configure(); err != nil {
		return
	}
	w.wrapIPAM()
	w.setDeployment(1)
	policy, pool := "", ""
	switch nondetChoice(3) {
	case 0:
		policy = "immutable"
	case 1:
		policy = "never"
	case 2:
		pool = "p1"
	}
	name := vpPodNameOf(vpKindDp, 0)
	w.createPod(vpMakePod(name, "U1", vpKindDp, policy, pool, ""))
	w.syncListers()
	nodes, err := w.filter(name, "n1", "n2", "n3")
	if err != nil || len(nodes) == 0 || w.bind(name, nodes[0]) != nil {
		return
	}
	w.setRunning(name)
	ip := vpBoundIPs(w.pods[name])[0]
	w.syncListers()
	w.deletePod(name)
	w.syncListers()
	for len(w.pending) > 0 {
		_ = w.handleEvent(0)
	}
	repl := vpPodNameOf(vpKindDp, 7)
	w.interferer = func() {
		w.createPod(vpMakePod(repl, "U2", vpKindDp, policy, pool, ""))
		w.syncListers()
		nodes, err := w.filter(repl, "n1", "n2", "n3")
		if err != nil || len(nodes) == 0 {
			return
		}
		if w.bind(repl, nodes[nondetChoice(len(nodes))]) == nil {
			w.setRunning(repl)
			w.syncListers()
		}
	}
	w.windowAt = nondetInt(0, 10)
	_ = w.apiRelease(ip)
	w.finishInterference()
	if w.interferer != nil {
		return
	}
	verifReach("replacement-overlapped-release-of-the-reserve")
	w.checkAll(prop, "an API release of a reserved address that overlapped the scheduling of the replacement pod")
}

// BOUND: topologies {0,1}; kinds {statefulset, deployment}; symbolic policy; with or without the cloud provider; a pod is filtered and bound; the scheduler repeats the Bind call for it on the same node (a lost answer, an extender retry) while the pod is pending-bound or already running: the API server refuses the second binding (the pod is already assigned); whatever the repeated Bind queued is handled, then one resync pass. The live pod keeps its address
func VerifC04_q_repeatedBind() {
	w := vpNewWorld(nondetChoice(2), nondetBool())
	if err := w.configure(); err != nil {
		return
	}
	w.setStatefulSet(2)
	w.setDeployment(2)
	kind := []int{vpKindSts, vpKindDp}[nondetChoice(2)]
	policy := nondetPick("", "immutable", "never")
	name := vpPodNameOf(kind, 0)
	w.createPod(vpMakePod(name, "U1", kind, policy, "", ""))
	w.syncListers()
	nodes, err := w.filter(name, "n1", "n5", "n2", "n3")
	if err != nil || len(nodes) == 0 || w.bind(name, nodes[0]) != nil {
		return
	}
	if nondetBool() {
		w.setRunning(name)
	}
	w.syncListers()
	_ = w.bind(name, nodes[0])
	for len(w.pending) > 0 {
		_ = w.handleEvent(0)
	}
	verifReach("repeated-bind-answered")
	w.setRunning(name)
	w.syncListers()
	w.checkAll("C04", "a repeated Bind call for a pod that is already bound")
	w.resync()
	w.checkAll("C04", "a resync pass after a repeated Bind call")
}
