package schedulerplugin

// BOUND: topology 0 (one pool, 3 IPs); kinds {statefulset, deployment}; policy symbolic over {default, immutable, never}; one pod name, two incarnations (U1, U2); old incarnation finished and/or deleted; 1 housekeeping step (nothing | handle any pending event | resync) before and 1 (plus API release of any IP) after the new incarnation is bound; lister lag after the delete is symbolic; no faults
func VerifC04_q_reincarnation() {
	vpReincarnation(vpScenarioOpts{prop: "C04", topos: []int{0}, kinds: []int{vpKindSts, vpKindDp}, earlySteps: 1, lateSteps: 1})
}

// BOUND: as above with topologies {0,1}, kinds {statefulset, deployment, bare pod, scalable custom resource}, 2 housekeeping steps before and 2 after
func VerifC04_t_reincarnationDeep() {
	vpReincarnation(vpScenarioOpts{prop: "C04", topos: []int{0, 1}, kinds: []int{vpKindSts, vpKindDp, vpKindBare, vpKindTApp}, earlySteps: 2, lateSteps: 2})
}
