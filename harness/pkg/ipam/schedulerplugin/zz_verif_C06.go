package schedulerplugin

import (
	"fmt"
	"strings"

	metav1 "k8s.io/apimachinery/pkg/apis/meta/v1"
	"tkestack.io/galaxy/pkg/api/galaxy/constant"
	"tkestack.io/galaxy/pkg/ipam/apis/galaxy/v1alpha1"
	"tkestack.io/galaxy/pkg/ipam/floatingip"
)

// C06: a node approved by Filter can be bound; the IP is routable from that node and carries its pool's
// mask / gateway / VLAN; a pod that already holds an IP is only offered nodes it is routable from; a fresh
// default-policy pod is offered exactly the candidate nodes that still have a free routable IP.

var vpNodeSubnet = map[string]string{"n1": "10.0.1.0/24", "n5": "10.0.1.0/24", "n2": "10.0.2.0/24", "n4": "10.0.3.3/32", "n3": ""}

// symbolicStore fills the store with an arbitrary allocation state over the given owner keys.
func (w *vpWorld) symbolicStore(keys []string) {
	for _, ip := range w.ips {
		if !nondetBool() {
			continue
		}
		o := vpNewFIP(ip)
		o.Spec.Key = nondetPick(keys...)
		pol := nondetU16()
		verifAssume(pol <= 2)
		o.Spec.Policy = constant.ReleasePolicy(pol)
		o.Spec.Attribute = floatingip.VerifAttrText(nondetPick("", "n1", "n2"), nondetPick("", "U1", "U9"))
		w.store.Objs[ip] = o
	}
}

func vpNewFIP(ip string) *v1alpha1.FloatingIP {
	return &v1alpha1.FloatingIP{TypeMeta: metav1.TypeMeta{Kind: constant.ResourceKind, APIVersion: constant.ApiVersion},
		ObjectMeta: metav1.ObjectMeta{Name: ip, Labels: map[string]string{}}}
}

func vpHas(list []string, s string) bool {
	for _, x := range list {
		if x == s {
			return true
		}
	}
	return false
}

// BOUND: 4 topologies (3-4 IPs; shared pod subnet, shared node subnet, /32 node subnet, two-range pool); symbolic allocation pre-state (any subset allocated; owner among {the pod's own key, another pod, app reserve}; policy 0..2; uid, node symbolic); pod kinds {statefulset, deployment}; policy symbolic; requested ranges {none, one address, one two-address range, two disjoint ranges, three single addresses}; candidate nodes n1,n5,n2,n3,n4; bind on any approved node; no faults, caches in sync
// ASSUME: C06: nothing else changes between Filter and Bind; the lister holds the pod; no fault is injected
// ASSUME: C06: pre-states satisfy "a key without requested ranges holds at most one IP" and "app replicas (2) not exceeded"
func VerifC06_q_filterBindAgree() {
	w := vpNewWorld(nondetChoice(floatingip.VNumTopologies), false)
	kind := []int{vpKindSts, vpKindDp}[nondetChoice(2)]
	policy := nondetPick("", "immutable", "never")
	name := vpPodNameOf(kind, 0)
	ranges := ""
	nReq := 0
	var requested []string // addresses covered by the requested ranges
	switch nondetChoice(5) {
	case 4: // three single-address ranges: first, last, second address (on topologies with two node subnets: A, B, A)
		verifAssume(len(w.ips) >= 3)
		ranges, nReq = fmt.Sprintf(`[["%s"],["%s"],["%s"]]`, w.ips[0], w.ips[len(w.ips)-1], w.ips[1]), 3
		requested = []string{w.ips[0], w.ips[len(w.ips)-1], w.ips[1]}
	case 1:
		c := w.ips[nondetChoice(len(w.ips))]
		ranges, nReq, requested = fmt.Sprintf(`[["%s"]]`, c), 1, []string{c}
	case 2:
		ranges, nReq, requested = fmt.Sprintf(`[["%s~%s"]]`, w.ips[0], w.ips[1]), 1, []string{w.ips[0], w.ips[1]}
	case 3:
		ranges, nReq = fmt.Sprintf(`[["%s"],["%s~%s"]]`, w.ips[len(w.ips)-1], w.ips[0], w.ips[1]), 2
		requested = []string{w.ips[len(w.ips)-1], w.ips[0], w.ips[1]}
	}
	pod := vpMakePod(name, "U1", kind, policy, "", ranges)
	key := vpKeyOf(pod)
	w.symbolicStore([]string{key, "sts_ns_ss_ss-7", "dp_ns_app_"})
	if err := w.configure(); err != nil {
		return
	}
	w.setDeployment(2)
	w.setStatefulSet(2)
	w.createPod(pod)
	w.syncListers()
	pre := w.dumpExpected()
	held := 0
	for _, e := range pre {
		if e.Allocated {
			if e.Key == key {
				held++
			}
		}
	}
	if nReq == 0 {
		verifAssume(held <= 1)
	}
	candidates := []string{"n1", "n5", "n2", "n3", "n4"}
	approved, err := w.filter(name, candidates...)
	if err != nil {
		return
	}
	verifReach("filtered")
	// a pod that already holds an IP is only offered nodes from which that IP is routable
	for _, e := range pre {
		if e.Allocated && (nReq == 0 || vpHas(requested, e.IP)) { // with requested ranges only IPs inside them count as held
			if e.Key == key {
				for _, n := range approved {
					verifAssert("C06/held-ip-routable", vpHas(e.NodeSubnets, vpNodeSubnet[n]), "a pod holding "+e.IP+" was offered node "+n+" from which that IP is not routable")
				}
			}
		}
	}
	// completeness for a fresh default-policy pod without requested ranges
	if nReq == 0 && held == 0 {
		for _, n := range candidates {
			free := false
			for _, e := range pre {
				if !e.Allocated && vpNodeSubnet[n] != "" && vpHas(e.NodeSubnets, vpNodeSubnet[n]) {
					free = true
				}
			}
			verifAssert("C06/offered-iff-free-ip", verifImplies(policy == "", vpHas(approved, n) == free), "fresh default-policy pod: node "+n+" offered although no free routable IP, or not offered although one is free")
		}
	}
	if len(approved) == 0 {
		return
	}
	node := approved[nondetChoice(len(approved))]
	berr := w.bind(name, node)
	verifReach("bind-returned")
	if berr != nil {
		verifAssert("C06/bind-succeeds", strings.Contains(berr.Error(), "waiting for delete event"), "Bind failed on a node Filter approved: "+berr.Error())
		return
	}
	ips := vpBoundIPs(w.pods[name])
	verifAssert("C06/bound-has-ip", len(ips) >= 1, "Bind succeeded without an IP in the annotation")
	if nReq > 0 {
		verifAssert("C06/one-ip-per-range", len(ips) == nReq, "number of bound IPs differs from the number of requested ranges")
	}
	args, _ := constant.UnmarshalCniArgs(w.pods[name].Annotations[constant.ExtendedCNIArgsAnnotation])
	post := w.dumpExpected()
	for i, ip := range ips {
		for _, e := range post {
			if e.IP != ip {
				continue
			}
			verifAssert("C06/ip-routable", vpHas(e.NodeSubnets, vpNodeSubnet[node]), "bound IP "+ip+" belongs to a pool that does not list the subnet of node "+node)
			verifAssert("C06/ip-owned", verifAnd(e.Allocated, e.Key == key), "bound IP is not allocated to the pod's key")
			info := args.Common.IPInfos[i]
			verifAssert("C06/mask-gateway-vlan", info.IP.ToIPNet().Mask.String() == e.Mask && info.Gateway.String() == e.Gateway && info.Vlan == e.Vlan,
				"mask, gateway or VLAN written for "+ip+" differ from its pool's configuration")
		}
	}
}

// BOUND: topologies {0,1,2,3}; a pod (statefulset or deployment, symbolic policy) requesting two or three disjoint single-address or two-address ranges; Filter approves nodes; the first Bind runs with one API call failing cleanly at a symbolic position 1..8; then the scheduler retries: Filter again (no faults) and Bind on any node it approves must succeed with one IP per range, and memory and store agree
// ASSUME: C06: the retried Filter / Bind run without faults and nothing else changes in between
func VerifC06_q_retryAfterFailedBind() {
	w := vpNewWorld(nondetChoice(floatingip.VNumTopologies), false)
	if err := w.configure(); err != nil {
		return
	}
	kind := []int{vpKindSts, vpKindDp}[nondetChoice(2)]
	policy := nondetPick("", "immutable", "never")
	name := vpPodNameOf(kind, 0)
	ranges, nReq := "", 2
	switch nondetChoice(3) {
	case 0:
		ranges = fmt.Sprintf(`[["%s"],["%s"]]`, w.ips[0], w.ips[1])
	case 1:
		ranges = fmt.Sprintf(`[["%s"],["%s~%s"]]`, w.ips[len(w.ips)-1], w.ips[0], w.ips[1])
	default:
		verifAssume(len(w.ips) >= 4)
		ranges, nReq = fmt.Sprintf(`[["%s"],["%s"],["%s"]]`, w.ips[0], w.ips[1], w.ips[2]), 3
	}
	w.setDeployment(2)
	w.setStatefulSet(2)
	w.createPod(vpMakePod(name, "U1", kind, policy, "", ranges))
	w.syncListers()
	approved, err := w.filter(name, "n1", "n5", "n2", "n3", "n4")
	if err != nil || len(approved) == 0 {
		return
	}
	w.calls, w.faultAt = 0, nondetInt(1, 8)
	first := w.bind(name, approved[nondetChoice(len(approved))])
	w.faultAt = 0
	verifAssume(first != nil && w.faulted)
	verifReach("first-bind-failed")
	approved2, err := w.filter(name, "n1", "n5", "n2", "n3", "n4")
	if err != nil || len(approved2) == 0 {
		return // not schedulable any more is an answer Filter may give; C08 checks that nothing stays allocated
	}
	berr := w.bind(name, approved2[nondetChoice(len(approved2))])
	verifReach("retried")
	verifAssert("C06/retry-bind-succeeds", berr == nil, "after a failed Bind, the retried Bind failed on a node the retried Filter approved")
	if berr == nil {
		verifAssert("C06/retry-one-ip-per-range", len(vpBoundIPs(w.pods[name])) == nReq, "the retried Bind did not yield one IP per requested range")
	}
	verifAssert("C06/retry-agree", w.agree(), "memory and store disagree after the retried Bind")
}

// dumpExpected: the allocation table, with node subnets / mask / gateway / VLAN per address taken from the topology's
// pool definitions (floatingip.VerifExpect), not from the pool the table attached the address to; the two must agree.
func (w *vpWorld) dumpExpected() []floatingip.VerifEntry {
	d := w.dump()
	for i := range d {
		if x, ok := floatingip.VerifExpect(w.topo, d[i].IP); ok {
			same := d[i].Mask == x.Mask && d[i].Gateway == x.Gateway && d[i].Vlan == x.Vlan && len(d[i].NodeSubnets) == len(x.NodeSubnets)
			for j := 0; same && j < len(x.NodeSubnets); j++ {
				same = d[i].NodeSubnets[j] == x.NodeSubnets[j]
			}
			verifAssert("C06/table-matches-configuration", same, "the table attaches "+d[i].IP+" to a pool with other node subnets / mask / gateway / VLAN than the configured pool whose ranges contain it")
			d[i].NodeSubnets, d[i].Mask, d[i].Gateway, d[i].Vlan = x.NodeSubnets, x.Mask, x.Gateway, x.Vlan
		}
	}
	return d
}

// BOUND: topologies {1,3} (two pools with different node subnets); a deployment (replicas 2) with a reserving policy (immutable, never) or a pool p1 with a Pool object of size 2; two pods bound on nodes of different node subnets (n1, n2), both deleted and their events handled, so the reserve holds one IP per node subnet; a replacement pod is filtered (candidate nodes n1, n5, n2, n3) and bound on any node Filter approves: Bind succeeds and the IP it writes is routable from that node (node subnets taken from the configuration)
func VerifC06_q_reserveOfSeveralSubnets() {
	topo := []int{1, 3}[nondetChoice(2)]
	w := vpNewWorld(topo, false)
	if err := w.configure(); err != nil {
		return
	}
	w.setDeployment(2)
	policy, pool := "", ""
	switch nondetChoice(3) {
	case 0:
		policy = "immutable"
	case 1:
		policy = "never"
	default:
		pool = "p1"
		w.setPool("p1", 2)
	}
	for i, node := range []string{"n1", "n2"} {
		name := vpPodNameOf(vpKindDp, i)
		w.createPod(vpMakePod(name, "U"+name, vpKindDp, policy, pool, ""))
		w.syncListers()
		if w.bind(name, node) != nil {
			return
		}
		w.setRunning(name)
	}
	w.syncListers()
	for i := 0; i < 2; i++ {
		w.deletePod(vpPodNameOf(vpKindDp, i))
	}
	w.syncListers()
	for len(w.pending) > 0 {
		_ = w.handleEvent(0)
	}
	repl := vpPodNameOf(vpKindDp, 7)
	w.createPod(vpMakePod(repl, "U"+repl, vpKindDp, policy, pool, ""))
	w.syncListers()
	approved, err := w.filter(repl, "n1", "n5", "n2", "n3")
	if err != nil || len(approved) == 0 {
		return
	}
	verifReach("reserve-filtered")
	node := approved[nondetChoice(len(approved))]
	berr := w.bind(repl, node)
	verifAssert("C06/reserve-bind-succeeds", berr == nil, "Bind failed on a node Filter approved for a pod that takes an IP of the reserve")
	if berr != nil {
		return
	}
	for _, ip := range vpBoundIPs(w.pods[repl]) {
		x, ok := floatingip.VerifExpect(topo, ip)
		verifAssert("C06/reserve-ip-routable", ok && vpHas(x.NodeSubnets, vpNodeSubnet[node]), "the pod was bound on "+node+" with the reserved IP "+ip+", which is not routable from that node")
	}
	verifAssert("C06/reserve-agree", w.agree(), "memory and store disagree")
}

// BOUND: topology 0 loaded through updateConfigMap; 0..1 pods bound; the configuration changes so that the node network 10.0.1.0/24 of the pool is split into 10.0.1.0/25 and 10.0.1.128/25 (nodes n1, n5 are in the lower half; addresses, gateway, VLAN unchanged); the reload (updateConfigMap) runs while, as a second logical thread inside any one window right before/after one of its API-server / store / IPAM calls (symbolic window 0..8), a Filter of a pending pod over n1, n5, n3 is in flight (its answer is discarded: the scheduler retries); interleavings in which the Filter would have to wait for the table lock are discarded. After the reload a fresh default-policy pod must be offered n1 and n5 (free routable addresses exist) and Bind on an offered node must succeed
func VerifC06_q_reloadVsFilter() {
	w := vpNewWorld(0, false)
	text0, _ := vpConfig(0, 0)
	w.configMap = text0
	if _, err := w.plugin.updateConfigMap(); err != nil {
		return
	}
	floatingip.VerifRotate(w.innerIPAM())
	w.wrapIPAM() // windows also right before / after every IPAM call (the reload's ConfigurePool among them)
	w.setStatefulSet(3)
	if nondetBool() {
		w.scheduleSts(0)
	}
	name := vpPodNameOf(vpKindSts, 1)
	w.createPod(vpMakePod(name, "U"+name, vpKindSts, "", "", ""))
	w.syncListers()
	text1 := strings.Replace(text0, `"10.0.1.0/24"`, `"10.0.1.0/25","10.0.1.128/25"`, 1)
	if text1 == text0 {
		verifAssert("C06/reload-text-changes?", false, "the harness could not split the node network in the configuration text")
		return
	}
	w.interferer = func() { _, _ = w.filter(name, "n1", "n5", "n3") }
	w.windowAt = nondetInt(0, 8)
	w.configMap = text1
	_, err := w.plugin.updateConfigMap()
	w.finishInterference()
	w.interferer = nil
	if err != nil {
		return
	}
	floatingip.VerifRotate(w.innerIPAM())
	verifReach("reloaded-with-split-node-network")
	nodes, ferr := w.filter(name, "n1", "n5", "n3")
	verifAssert("C06/offered-after-node-subnet-change", ferr == nil && vpHas(nodes, "n1") && vpHas(nodes, "n5"), "after a reload that changed a node's subnet a fresh pod is not offered a node although free routable addresses exist")
	if ferr != nil || len(nodes) == 0 {
		return
	}
	node := nodes[nondetChoice(len(nodes))]
	berr := w.bind(name, node)
	verifAssert("C06/bind-after-node-subnet-change", berr == nil, "Bind failed on a node Filter approved after a reload that changed the node's subnet")
}

// BOUND: topology 0 with all but one address held by other pods; a statefulset pod (default policy) is bound, then deleted with its event lost; the administrator's API release of its address hits a store failure (the delete fails cleanly) or not; then a fresh pod is filtered over n1, n5, n3 and bound on an approved node: Bind must succeed on every node Filter approves, and Filter must approve n1 / n5 exactly if the address is free in the store
func VerifC06_q_faultedReleaseThenSchedule() {
	w := vpNewWorld(0, false)
	if err := w.configure(); err != nil {
		return
	}
	for _, ip := range w.ips[1:] {
		if err := w.plugin.ipam.AllocateSpecificIP("sts_ns_other_other-"+ip, vpIP(ip), floatingip.Attr{Policy: constant.ReleasePolicyNever}); err != nil {
			return
		}
	}
	w.setStatefulSet(2)
	name := "ss-0"
	w.createPod(vpMakePod(name, "U1", vpKindSts, "", "", ""))
	w.syncListers()
	nodes, err := w.filter(name, "n1", "n5", "n3")
	if err != nil || len(nodes) == 0 || w.bind(name, nodes[0]) != nil {
		return
	}
	ip := vpBoundIPs(w.pods[name])[0]
	w.deletePodSilently(name)
	w.syncListers()
	w.faultKinds = map[string]bool{"delete": true}
	w.calls, w.faultAt = 0, nondetInt(0, 1)
	_ = w.apiRelease(ip)
	w.faultAt, w.faultKinds = 0, nil
	verifReach("release-answered")
	next := "ss-1"
	w.createPod(vpMakePod(next, "U2", vpKindSts, "", "", ""))
	w.syncListers()
	approved, ferr := w.filter(next, "n1", "n5", "n3")
	_, stillStored := w.store.Objs[ip]
	verifAssert("C06/offered-iff-free-after-release", ferr == nil && (vpHas(approved, "n1") == !stillStored), "after an API release (complete or failed at the store) Filter offers a node although no address is free in the store, or does not offer it although one is")
	if ferr != nil || len(approved) == 0 {
		return
	}
	berr := w.bind(next, approved[nondetChoice(len(approved))])
	verifAssert("C06/bind-after-release", berr == nil, "Bind failed on a node Filter approved after an API release")
}
