package schedulerplugin

import (
	"encoding/json"

	"tkestack.io/galaxy/pkg/api/galaxy/constant"
	"tkestack.io/galaxy/pkg/ipam/floatingip"
)

// C09: reserved and de-configured IPs are never allocated; a reload keeps exactly the allocations whose IP is
// still configured, including allocations made while the reload is in progress.

// vpConfig returns the configuration text (produced by the real MarshalJSON) and the IPs it contains.
// variant 0: the full topology; 1: the last pool dropped (or its last address if there is one pool); 2: the
// first address of the first pool dropped.
func vpConfig(topo, variant int) (string, []string) {
	pools, ips, _ := floatingip.VTopology(topo)
	keep := map[string]bool{}
	for _, ip := range ips {
		keep[ip] = true
	}
	drop := func(ip string) {
		for _, p := range pools {
			if p.RemoveIP(vpIP(ip)) {
				keep[ip] = false
			}
		}
	}
	switch variant {
	case 1:
		if len(pools) > 1 {
			last := pools[len(pools)-1]
			pools = pools[:len(pools)-1]
			for _, ip := range ips {
				if last.Contains(vpIP(ip)) {
					keep[ip] = false
				}
			}
		} else {
			drop(ips[len(ips)-1])
		}
	case 2:
		drop(ips[0])
	}
	data, err := json.Marshal(pools)
	if err != nil {
		panic(err)
	}
	var kept []string
	for _, ip := range ips {
		if keep[ip] {
			kept = append(kept, ip)
		}
	}
	return string(data), kept
}

func (w *vpWorld) reload(text string) error {
	_, err := w.plugin.ensureIPAMConf(&w.plugin.lastIPConf, text)
	floatingip.VerifRotate(w.innerIPAM())
	return err
}

// scheduleSts creates ss-<i> (default policy) and runs filter + bind on any approved node.
func (w *vpWorld) scheduleSts(i int) (string, bool) {
	name := vpPodNameOf(vpKindSts, i)
	w.createPod(vpMakePod(name, "U"+name, vpKindSts, "", "", ""))
	w.syncListers()
	nodes, err := w.filter(name, "n1", "n2", "n3")
	if err != nil || len(nodes) == 0 {
		return name, false
	}
	if w.bind(name, nodes[nondetChoice(len(nodes))]) != nil {
		return name, false
	}
	w.setRunning(name)
	w.syncListers()
	return name, true
}

func (w *vpWorld) reservedInStore(ip string) bool {
	obj, ok := w.store.Objs[ip]
	if !ok {
		return false
	}
	_, r := obj.Labels[constant.ReserveFIPLabel]
	return r
}

// BOUND: topologies {0,1}; the administrator reserves any one configured IP with a labelled FloatingIP object (key empty or free text); its watch event is delivered before, between or after (or never) the scheduling of up to 3 default-policy statefulset pods (a failed bind is retried once); every binding annotation is checked against the reservations in the store at that moment
// ASSUME: C09: reserved objects carry keys that are not galaxy-structured keys (empty or free text)
func VerifC09_q_reservedNeverAllocated() {
	w := vpNewWorld(nondetChoice(2), false)
	if err := w.configure(); err != nil {
		return
	}
	w.setStatefulSet(3)
	r := w.ips[nondetChoice(len(w.ips))]
	deliverAt := nondetChoice(5) // before pod 0,1,2 / after all / never
	reserveAt := nondetChoice(3) // the reservation itself happens before pod 0, 1 or 2
	var obj = vpNewFIP(r)
	obj.Labels[constant.ReserveFIPLabel] = ""
	obj.Spec.Key = nondetPick("", "admin")
	reserved := false
	for i := 0; i < 3; i++ {
		if i == reserveAt {
			if _, taken := w.store.Objs[r]; taken {
				return // the admin's create would fail: the IP is in use
			}
			w.store.Objs[r] = obj
			reserved = true
		}
		if reserved && i == deliverAt {
			_ = floatingip.VerifHandleFIPEvent(w.innerIPAM(), obj, true)
		}
		name, ok := w.scheduleSts(i)
		if !ok && w.pods[name] != nil && w.pods[name].Spec.NodeName == "" {
			// the scheduler retries a failed bind (the allocation may have run into the reservation it has not heard of)
			if nodes, err := w.filter(name, "n1", "n2", "n3"); err == nil && len(nodes) > 0 {
				if w.bind(name, nodes[0]) == nil {
					w.setRunning(name)
					w.syncListers()
					ok = true
				}
			}
		}
		if ok {
			for _, ip := range vpBoundIPs(w.pods[name]) {
				verifAssert("C09/reserved-not-allocated", !w.reservedInStore(ip), "a pod was bound with an IP that carries an administrator's reservation")
			}
		}
		verifAssert("C09/unique", w.invUnique(), "two live pods hold the same IP")
		if reserved {
			verifAssert("C09/reservation-kept", w.reservedInStore(r), "the administrator's reservation object was overwritten or deleted")
		}
	}
	verifReach("scheduled")
	if reserved {
		verifAssert("C09/reservation-kept", w.reservedInStore(r), "the administrator's reservation object was overwritten or deleted")
	}
}

// BOUND: topologies {0,1,3}; up to 2 pods bound, then a reload to configuration variant {last pool or address dropped, first address dropped}, then another pod scheduled; no concurrency
func VerifC09_q_reloadLossless() {
	topo := []int{0, 1, 3}[nondetChoice(3)]
	w := vpNewWorld(topo, false)
	text0, _ := vpConfig(topo, 0)
	if err := w.reload(text0); err != nil {
		verifAssert("C09/initial-config-accepted?", false, "the full configuration was rejected: "+err.Error())
		return
	}
	w.setStatefulSet(3)
	n := nondetChoice(3)
	for i := 0; i < n; i++ {
		w.scheduleSts(i)
	}
	before := w.dump()
	text1, kept := vpConfig(topo, nondetChoice(2)+1)
	if err := w.reload(text1); err != nil {
		verifAssert("C09/reload-accepted?", false, "a valid configuration was rejected: "+err.Error())
		return
	}
	verifReach("reloaded")
	w.ips = kept
	after := w.dump()
	for _, a := range after {
		for _, b := range before {
			if a.IP == b.IP {
				verifAssert("C09/reload-keeps-configured", a.Allocated == b.Allocated && a.Key == b.Key && a.Uid == b.Uid && a.Node == b.Node && a.Policy == b.Policy,
					"a reload changed the allocation of an IP that is still configured: "+a.IP)
			}
		}
	}
	for _, b := range before {
		if !vpHas(kept, b.IP) {
			inA, inU := floatingip.VerifTables(w.innerIPAM(), b.IP)
			_, inStore := w.store.Objs[b.IP]
			verifAssert("C09/reload-drops-deconfigured", !inA && !inU && !inStore, "a de-configured IP survived the reload in memory or in the store: "+b.IP)
		}
	}
	verifAssert("C09/agree-after-reload", w.agree(), "memory and store disagree after a reload")
	name, ok := w.scheduleSts(n)
	if ok {
		for _, ip := range vpBoundIPs(w.pods[name]) {
			verifAssert("C09/deconfigured-not-allocated", vpHas(kept, ip), "a pod was bound with an IP that is absent from the configuration in force: "+ip)
		}
	}
}

// BOUND: topologies {0,1} (thorough: {0,1,3}); a reload through updateConfigMap (to variant 0 re-encoded / 1 / 2) runs while another pod's bind runs atomically inside any one window right before or after an API call of the reload (symbolic window index 0..10, thorough 0..14); one pod bound beforehand
// ASSUME: C09: interference granularity = API-server calls: the second operation runs to completion inside one window of the first; interleavings in which it would have to wait for a lock held by the first are discarded
func VerifC09_q_reloadWhileAllocating() {
	topo := []int{0, 1, 3}[nondetChoice(2+verifTier())]
	w := vpNewWorld(topo, false)
	text0, _ := vpConfig(topo, 0)
	if err := w.reload(text0); err != nil {
		return
	}
	w.setStatefulSet(3)
	w.scheduleSts(0)
	// pod 1 is created and filtered; its bind is the concurrent operation
	name := vpPodNameOf(vpKindSts, 1)
	w.createPod(vpMakePod(name, "U"+name, vpKindSts, "", "", ""))
	w.syncListers()
	nodes, err := w.filter(name, "n1", "n2", "n3")
	if err != nil || len(nodes) == 0 {
		return
	}
	node := nodes[nondetChoice(len(nodes))]
	boundOK := false
	w.interferer = func() { boundOK = w.bind(name, node) == nil }
	w.windowAt = nondetInt(0, 10+4*verifTier())
	variant := nondetChoice(3)
	text1, kept := vpConfig(topo, variant)
	if variant == 0 {
		text1 = " " + text1 // same configuration, different text, so that the reload is not skipped
	}
	// the reload is driven the way the daemon does it: read the ConfigMap, then reconfigure
	w.configMap = text1
	if _, err := w.plugin.updateConfigMap(); err != nil {
		return
	}
	floatingip.VerifRotate(w.innerIPAM())
	w.finishInterference()
	ran := w.interferer == nil
	w.interferer = nil
	verifReach("reload-returned")
	if !ran || !boundOK {
		return
	}
	verifReach("bind-completed-inside-reload")
	all0 := w.ips
	w.ips = kept
	for _, ip := range vpBoundIPs(w.pods[name]) {
		if !vpHas(kept, ip) {
			continue // its IP was de-configured by this very reload
		}
		owned := false
		for _, e := range w.dump() {
			if e.IP == ip && e.Allocated && e.Key == vpKeyOf(w.pods[name]) {
				owned = true
			}
		}
		verifAssert("C09/allocation-during-reload-kept", owned, "an allocation that completed while a reload was in progress is missing from the table although its IP is still configured: "+ip)
	}
	for _, x := range all0 {
		if !vpHas(kept, x) {
			inA, inU := floatingip.VerifTables(w.innerIPAM(), x)
			_, inStore := w.store.Objs[x]
			verifAssert("C09/concurrent-reload-drops-deconfigured", !inA && !inU && !inStore, "after a reload that overlapped an allocation a de-configured IP is still in the tables or in the store: "+x)
		}
	}
	verifAssert("C09/agree-after-concurrent-reload", w.agree(), "memory and store disagree after a reload that overlapped an allocation")
}


// BOUND: topologies {0,1}; the administrator reserves any one configured IP (object created in the store, watch event not yet delivered, delivered later, or never); a statefulset pod requesting 1..2 ranges that cover the reserved address is scheduled (filter + bind, retried once after the event); the reservation object must survive and the pod must never be bound with the reserved IP
func VerifC09_q_reservedVsRangeRequest() {
	w := vpNewWorld(nondetChoice(2), false)
	if err := w.configure(); err != nil {
		return
	}
	w.setStatefulSet(3)
	ri := nondetChoice(len(w.ips))
	r := w.ips[ri]
	obj := vpNewFIP(r)
	obj.Labels[constant.ReserveFIPLabel] = ""
	obj.Spec.Key = nondetPick("", "admin")
	w.store.Objs[r] = obj
	deliverEarly := nondetBool()
	if deliverEarly {
		_ = floatingip.VerifHandleFIPEvent(w.innerIPAM(), obj, true)
	}
	// requested ranges: one range over all addresses, or the reserved address alone plus the rest
	ranges := `[["` + w.ips[0] + `~` + w.ips[len(w.ips)-1] + `"]]`
	if nondetBool() {
		other := w.ips[(ri+1)%len(w.ips)]
		ranges = `[["` + other + `"],["` + w.ips[0] + `~` + w.ips[len(w.ips)-1] + `"]]`
	}
	name := "ss-0"
	w.createPod(vpMakePod(name, "U1", vpKindSts, "", "", ranges))
	w.syncListers()
	for attempt := 0; attempt < 2; attempt++ {
		nodes, err := w.filter(name, "n1", "n2", "n3")
		if err == nil && len(nodes) > 0 {
			if w.bind(name, nodes[nondetChoice(len(nodes))]) == nil {
				break
			}
		}
		verifAssert("C09/reservation-survives-failed-bind", w.reservedInStore(r), "the administrator's reservation object was deleted by a failed allocation")
		if !deliverEarly && nondetBool() {
			// whatever the store emitted meanwhile reaches the IPAM now: the reservation (if it still exists)
			if o, ok := w.store.Objs[r]; ok {
				_ = floatingip.VerifHandleFIPEvent(w.innerIPAM(), o, true)
			}
		}
	}
	verifReach("range-request-scheduled")
	verifAssert("C09/reservation-kept-ranges", w.reservedInStore(r), "the administrator's reservation object was overwritten or deleted")
	for _, ip := range vpBoundIPs(w.pods[name]) {
		verifAssert("C09/reserved-not-allocated-ranges", ip != r, "a pod requesting IP ranges was bound with a reserved IP")
	}
}

// BOUND: topologies {0,1,3}; up to 2 pods bound; the configmap changes to a variant that drops addresses; the reload (updateConfigMap) runs with one API call failing cleanly at a symbolic position 1..4 (e.g. the listing of the stored objects, or the deletion of a de-configured object); right after it the tables must be those of the former or of the new configuration as a whole; the daemon's next poll runs updateConfigMap again without faults: afterwards the configuration in force is the new one (de-configured addresses are gone from memory and store, still configured allocations are kept, nothing de-configured is handed out)
func VerifC09_q_failedReloadRetried() {
	topo := []int{0, 1, 3}[nondetChoice(3)]
	w := vpNewWorld(topo, false)
	text0, _ := vpConfig(topo, 0)
	w.configMap = text0
	if _, err := w.plugin.updateConfigMap(); err != nil {
		return
	}
	floatingip.VerifRotate(w.innerIPAM())
	w.setStatefulSet(3)
	n := nondetChoice(3)
	for i := 0; i < n; i++ {
		w.scheduleSts(i)
	}
	text1, kept := vpConfig(topo, nondetChoice(2)+1)
	w.configMap = text1
	w.calls, w.faultAt = 0, nondetInt(1, 4)
	_, err1 := w.plugin.updateConfigMap()
	w.faultAt = 0
	verifAssume(err1 != nil || w.faulted)
	verifReach("reload-faulted")
	// whatever failed, the tables are those of one configuration: the former one (the reload changed nothing) or the
	// new one -- not the allocated table of one and the free table of the other
	isOld, isNew := true, true
	for _, ip := range w.ips {
		inA, inU := floatingip.VerifTables(w.innerIPAM(), ip)
		if !(inA || inU) {
			isOld = false
		}
		if (inA || inU) != vpHas(kept, ip) {
			isNew = false
		}
	}
	verifAssert("C09/failed-reload-atomic", isOld || isNew, "after a reload that hit a fault the tables hold neither the former nor the new configuration")
	// the next poll
	_, err2 := w.plugin.updateConfigMap()
	floatingip.VerifRotate(w.innerIPAM())
	verifAssert("C09/retried-reload-succeeds?", err2 == nil, "the poll after a failed reload failed without a fault")
	all := w.ips
	w.ips = kept
	for _, ip := range all {
		if !vpHas(kept, ip) {
			inA, inU := floatingip.VerifTables(w.innerIPAM(), ip)
			verifAssert("C09/failed-reload-retried", !inA && !inU, "after a reload that failed once, the next poll did not apply the new configuration: "+ip+" is still in the tables")
		}
	}
	name, ok := w.scheduleSts(n)
	if ok {
		for _, ip := range vpBoundIPs(w.pods[name]) {
			verifAssert("C09/deconfigured-not-allocated-after-retry", vpHas(kept, ip), "a pod was bound with an IP that is absent from the configuration in force: "+ip)
		}
	}
}

// BOUND: topologies {0,1} (thorough: {0,1,3}); two statefulset pods bound (default policy); the first one is deleted and its IP is released -- by handling its delete event, or by the administrator's release API -- while a reload through updateConfigMap (to variant 0 re-encoded / 1 / 2) runs atomically inside any one window right before or after an API-server call of the release (symbolic window 0..8, thorough 0..14); afterwards one more pod is scheduled
// ASSUME: C09: interference granularity = API-server calls: the reload runs to completion inside one window of the release; interleavings in which it would have to wait for the table lock the release holds are discarded
func VerifC09_q_reloadWhileReleasing() {
	topo := []int{0, 1, 3}[nondetChoice(2+verifTier())]
	w := vpNewWorld(topo, false)
	text0, _ := vpConfig(topo, 0)
	if err := w.reload(text0); err != nil {
		return
	}
	w.setStatefulSet(3)
	name, ok := w.scheduleSts(0)
	if !ok {
		return
	}
	other, ok2 := w.scheduleSts(1)
	ip := vpBoundIPs(w.pods[name])[0]
	variant := nondetChoice(3)
	text1, kept := vpConfig(topo, variant)
	if variant == 0 {
		text1 = " " + text1
	}
	all := w.ips
	reloaded := false
	w.interferer = func() {
		w.configMap = text1
		if _, err := w.plugin.updateConfigMap(); err == nil {
			reloaded = true
		}
	}
	w.windowAt = nondetInt(0, 8+6*verifTier())
	w.deletePod(name)
	w.syncListers()
	if nondetBool() {
		for len(w.pending) > 0 {
			_ = w.handleEvent(0)
		}
	} else {
		w.pending = nil
		_ = w.apiRelease(ip)
	}
	w.finishInterference()
	ran := w.interferer == nil
	w.interferer = nil
	verifReach("release-returned")
	if !ran || !reloaded {
		return
	}
	floatingip.VerifRotate(w.innerIPAM())
	verifReach("reload-completed-inside-release")
	w.ips = kept
	for _, x := range all {
		if !vpHas(kept, x) {
			inA, inU := floatingip.VerifTables(w.innerIPAM(), x)
			verifAssert("C09/release-during-reload-drops-deconfigured", !inA && !inU, "a de-configured IP is back in the tables after a release that overlapped the reload: "+x)
		}
	}
	if ok2 && w.pods[other] != nil {
		for _, x := range vpBoundIPs(w.pods[other]) {
			if !vpHas(kept, x) {
				continue
			}
			owned := false
			for _, e := range w.dump() {
				if e.IP == x && e.Allocated && e.Key == vpKeyOf(w.pods[other]) {
					owned = true
				}
			}
			verifAssert("C09/release-during-reload-keeps-others", owned, "the allocation of another pod is missing after a release that overlapped a reload although its IP is still configured: "+x)
		}
	}
	verifAssert("C09/agree-after-release-during-reload", w.agree(), "memory and store disagree after a release that overlapped a reload")
	next, ok3 := w.scheduleSts(2)
	if ok3 {
		for _, x := range vpBoundIPs(w.pods[next]) {
			verifAssert("C09/deconfigured-not-allocated-after-release", vpHas(kept, x), "a pod was bound with an IP that is absent from the configuration in force: "+x)
		}
	}
}

// BOUND: topology 1 loaded through updateConfigMap; a deployment (replicas 1) with a reserving policy (immutable, never); its pod is bound, deleted and the event handled (the address is in the app's reserve); the replacement pod's Filter re-keys the reserved address to the pod while, as a second logical thread inside any one window right before/after a store call of that Filter (symbolic window 0..6), a reload through updateConfigMap (same configuration, other text) runs; interleavings in which the reload would have to wait for the table lock are discarded (if the Filter offers no window, the reload runs right after it). The re-keying made before or while the reload was in progress must be kept: memory and store agree and name the replacement pod
func VerifC09_q_reloadWhileRebinding() {
	w := vpNewWorld(1, false)
	text0, _ := vpConfig(1, 0)
	w.configMap = text0
	if _, err := w.plugin.updateConfigMap(); err != nil {
		return
	}
	floatingip.VerifRotate(w.innerIPAM())
	w.setDeployment(1)
	policy := nondetPick("immutable", "never")
	name := vpPodNameOf(vpKindDp, 0)
	w.createPod(vpMakePod(name, "U1", vpKindDp, policy, "", ""))
	w.syncListers()
	nodes, err := w.filter(name, "n1", "n2", "n3")
	if err != nil || len(nodes) == 0 || w.bind(name, nodes[0]) != nil {
		return
	}
	w.setRunning(name)
	ip := vpBoundIPs(w.pods[name])[0]
	w.syncListers()
	w.deletePod(name)
	w.syncListers()
	for len(w.pending) > 0 {
		_ = w.handleEvent(0)
	}
	repl := vpPodNameOf(vpKindDp, 7)
	w.createPod(vpMakePod(repl, "U2", vpKindDp, policy, "", ""))
	w.syncListers()
	reloaded := false
	w.interferer = func() {
		w.configMap = " " + text0
		if _, err := w.plugin.updateConfigMap(); err == nil {
			reloaded = true
		}
	}
	w.windowAt = nondetInt(0, 6)
	approved, ferr := w.filter(repl, "n1", "n2", "n3")
	w.finishInterference()
	if w.interferer != nil {
		// the Filter offered no window the reload could run in (its store calls are made under the table lock): the
		// reload runs right after it
		f := w.interferer
		w.interferer = nil
		f()
	} else {
		verifReach("reload-inside-rebinding-filter?")
	}
	if !reloaded || ferr != nil || len(approved) == 0 {
		return
	}
	verifReach("reload-and-rebinding-filter-done")
	owned := false
	for _, e := range w.dump() {
		if e.IP == ip && e.Allocated && e.Key == vpKeyOf(w.pods[repl]) {
			owned = true
		}
	}
	verifAssert("C09/rebind-during-reload-kept", owned, "the re-keying of a reserved address to the replacement pod, made while a reload was in progress, is missing from the table")
	verifAssert("C09/agree-after-rebind-during-reload", w.agree(), "memory and store disagree after a reload that overlapped the re-keying of a reserved address")
}
