package schedulerplugin

import (
	"strings"

	corev1 "k8s.io/api/core/v1"
	"tkestack.io/galaxy/pkg/ipam/schedulerplugin/util"
)

// C03: release exactly when the policy says so. Oracle = the documented contract (doc/float-ip.md and the
// property text, DESIGN.md Appendix B), written here independently of the implementation.

// ASSUME: C03: quiescence = every pending pod event handled or lost, informer caches caught up with the API truth, then one resync pass
// ASSUME: C03: a finished pod counts like a deleted pod

type vpC03Opts struct {
	kinds   []int
	twoPods bool
	pools   bool
	restart bool // galaxy-ipam restarts (tables rebuilt from the store) after the events were handled, before the resync pass
}

func (w *vpWorld) appExists(kind int) (bool, int32) {
	switch kind {
	case vpKindSts:
		if s, ok := w.statefulset["ss"]; ok {
			return true, *s.Spec.Replicas
		}
	case vpKindDp:
		if d, ok := w.deployments["app"]; ok {
			return true, *d.Spec.Replicas
		}
	case vpKindTApp:
		if r, ok := w.tapps["tapp"]; ok {
			return true, int32(r)
		}
	}
	return false, 0
}

func (w *vpWorld) setReplicas(kind int, r int32) {
	switch kind {
	case vpKindSts:
		w.setStatefulSet(r)
	case vpKindDp:
		w.setDeployment(r)
	case vpKindTApp:
		w.tapps["tapp"] = int(r)
	}
}

func (w *vpWorld) deleteApp(kind int) {
	switch kind {
	case vpKindSts:
		delete(w.statefulset, "ss")
	case vpKindDp:
		delete(w.deployments, "app")
	case vpKindTApp:
		delete(w.tapps, "tapp")
	}
}

// checkReleaseContract compares the allocation table with the documented policy contract at quiescence.
func (w *vpWorld) checkReleaseContract(kind int) {
	d := w.dump()
	exists, replicas := w.appExists(kind)
	// number of IPs the deployment holds (in use + in reserve)
	held := int32(0)
	for _, e := range d {
		if e.Allocated && strings.HasPrefix(e.Key, "dp_ns_app_") {
			held++
		}
	}
	for _, e := range d {
		if !e.Allocated {
			continue
		}
		k := util.ParseKey(e.Key)
		if k.PoolName != "" {
			continue // IPs of a named pool are kept until an administrator releases them (checked by reserved-not-freed)
		}
		if k.PodName == "" {
			// app reserve key of an immutable/never deployment
			if k.Deployment() && e.Policy == 1 {
				mustFree := !exists || held > replicas
				verifKnown("kf-C03-app-reserve-never-freed", w.reserveStale)
				verifAssert("C03/reserve-freed", !mustFree, "an IP held in reserve for an immutable deployment stays allocated although the deployment is gone or holds more IPs than replicas: "+e.Key)
			}
			continue
		}
		pod := w.pods[k.PodName]
		if vpLive(pod) {
			continue // C04's side
		}
		// the pod is gone or finished
		switch e.Policy {
		case 0:
			verifAssert("C03/default-freed?", false, "default policy: IP still assigned to a pod that is gone or finished: "+e.Key)
		case 2:
			// never: kept until an administrator releases it -- nothing to free. A deployment pod's IP moves to the reserve.
			verifAssert("C03/never-dp-moved-to-reserve", !k.Deployment(), "never policy: a gone deployment pod's IP was not moved to the app reserve: "+e.Key)
		case 1:
			if k.Deployment() {
				verifAssert("C03/immutable-dp-pod-key?", false, "immutable deployment: IP still keyed to a pod that is gone (neither released nor moved to the reserve): "+e.Key)
				continue
			}
			idx, err := parsePodIndex(k.PodName)
			supports := err == nil && (k.StatefulSet() || kind == vpKindTApp)
			mustFree := !supports || !exists || int32(idx) >= replicas
			verifAssert("C03/immutable-freed", !mustFree, "immutable policy: IP still assigned although the workload is gone, scaled below the pod, or cannot reserve: "+e.Key)
		}
	}
}

// checkNotOverReleased: an IP that the contract reserves was not freed (never policy; immutable with the pod still inside the replica range).
func (w *vpWorld) checkNotOverReleased(kind int, policy string, pool string, ip string, podName string, apiReleased bool) {
	if apiReleased {
		return
	}
	var entry *struct{ alloc bool; key string }
	for _, e := range w.dump() {
		if e.IP == ip {
			entry = &struct{ alloc bool; key string }{e.Allocated, e.Key}
		}
	}
	if entry == nil {
		return
	}
	exists, replicas := w.appExists(kind)
	idx, err := parsePodIndex(podName)
	supportsNever := kind == vpKindSts || kind == vpKindDp || err == nil
	supportsImmutable := kind == vpKindSts || kind == vpKindDp || (kind == vpKindTApp && err == nil)
	keptNever := verifAnd(verifOr(policy == "never", pool != ""), supportsNever) // a named pool forces the never policy
	var keptImmutable bool
	if kind == vpKindDp {
		// a deployment keeps an IP while it "holds no more IPs than replicas": this one has to stay only if the
		// addresses the app holds besides it (pods in use + reserve) leave room for it
		others := int32(0)
		for _, e := range w.dump() {
			if e.Allocated && e.IP != ip && strings.HasPrefix(e.Key, "dp_ns_app_") {
				others++
			}
		}
		keptImmutable = verifAnd(policy == "immutable", exists && others < replicas)
	} else {
		keptImmutable = verifAnd(policy == "immutable", supportsImmutable && exists && int32(idx) < replicas)
	}
	verifAssert("C03/reserved-not-freed", verifImplies(verifOr(keptNever, keptImmutable), entry.alloc), "an IP the release policy reserves was freed")
}

func vpC03Lifecycle(o vpC03Opts) {
	w := vpNewWorld(0, false)
	if err := w.configure(); err != nil {
		return
	}
	kind := o.kinds[nondetChoice(len(o.kinds))]
	policy := nondetPick("", "immutable", "never")
	w.setReplicas(kind, 2)
	podIdx := nondetChoice(2)
	name := vpPodNameOf(kind, podIdx)
	pool := ""
	if o.pools && (kind == vpKindDp || kind == vpKindSts) && nondetBool() {
		pool = "p1" // a named pool without a Pool object
	}
	w.createPod(vpMakePod(name, "U1", kind, policy, pool, ""))
	w.syncListers()
	nodes, err := w.filter(name, "n1", "n2", "n3")
	if err != nil || len(nodes) == 0 {
		return
	}
	if err := w.bind(name, nodes[0]); err != nil {
		return
	}
	w.setRunning(name)
	ip := vpBoundIPs(w.pods[name])[0]
	other := ""
	if o.twoPods {
		other = vpPodNameOf(kind, 1-podIdx)
		w.createPod(vpMakePod(other, "V1", kind, policy, pool, ""))
		w.syncListers()
		if nodes, err := w.filter(other, "n1", "n2", "n3"); err == nil && len(nodes) > 0 {
			if w.bind(other, nodes[0]) == nil {
				w.setRunning(other)
			}
		}
	}
	w.syncListers()

	// workload change and end of the pod, in either order
	appFirst := nondetBool()
	appAction := nondetChoice(3) // 0 none, 1 scale to a symbolic replica count 0..2, 2 delete the workload
	doApp := func() {
		switch appAction {
		case 1:
			r := nondetInt(0, 2)
			w.setReplicas(kind, int32(r))
		case 2:
			w.deleteApp(kind)
		}
	}
	if appFirst {
		doApp()
		w.syncListers()
	}
	switch nondetChoice(3) {
	case 0:
		w.deletePod(name)
	case 1:
		w.finishPod(name)
		w.syncListers()
		w.deletePod(name)
	case 2:
		w.finishPod(name)
	}
	if !appFirst {
		doApp()
	}
	if nondetBool() {
		w.syncListers()
	} else if !appFirst && appAction != 0 {
		// the unbind below decides with the deployment as the informer cache still has it: what it puts into the app
		// reserve is never looked at again (known finding)
		w.reserveStale = true
	}
	// every pending event is handled or lost
	for len(w.pending) > 0 {
		if nondetBool() {
			_ = w.handleEvent(0)
		} else {
			w.pending = w.pending[1:]
		}
	}
	apiReleased := false
	w.syncListers()
	if o.restart {
		if w.restart() != nil {
			return
		}
		verifReach("restarted-before-resync")
	}
	w.resync()
	verifReach("quiescent")
	w.checkReleaseContract(kind)
	w.checkNotOverReleased(kind, policy, pool, ip, name, apiReleased)
	verifAssert("C03/agree", w.agree(), "memory and store disagree at quiescence")
	_ = other
	_ = corev1.PodRunning
}

// BOUND: topology 0; kinds {statefulset, deployment, scalable custom resource TApp, bare pod}; policy symbolic {default, immutable, never}; statefulset and deployment pods optionally use a named pool p1 (no Pool object); pod index 0 or 1, replicas start at 2; workload action {none, scale to symbolic 0..2, delete} before or after the pod ends; pod end {delete, finish+delete, finish}; every pending event handled or lost; symbolic lister lag; then caches catch up and one resync pass
func VerifC03_q_lifecycle() {
	vpC03Lifecycle(vpC03Opts{kinds: []int{vpKindSts, vpKindDp, vpKindTApp, vpKindBare}, pools: true})
}

// BOUND: topology 0; kinds {statefulset, deployment}; policy symbolic {default, immutable, never}, optionally a named pool p1; the lifecycle of VerifC03_q_lifecycle (workload action none / scale / delete before or after the pod ends, events handled or lost) and then a restart of galaxy-ipam (new plugin, tables rebuilt from the store) before the resync pass: what the policy reserves stays reserved across the restart, what it releases is released
func VerifC03_q_lifecycleAcrossRestart() {
	vpC03Lifecycle(vpC03Opts{kinds: []int{vpKindSts, vpKindDp}, pools: true, restart: true})
}

// BOUND: as above with a second pod of the same workload bound alongside
func VerifC03_t_lifecycleTwoPods() {
	vpC03Lifecycle(vpC03Opts{kinds: []int{vpKindSts, vpKindDp, vpKindTApp}, twoPods: true})
}

// BOUND: topology 1 (4 IPs); a deployment with the immutable policy, replicas 3, three pods bound; scaled to 2 (one IP is surplus) or left at 3 (none is); two of its pods are deleted; the unbind of the first runs while the unbind of the second runs as a second logical thread starting inside any one window right before/after an API-server or IPAM call of the first (symbolic window 0..14), parking wherever it needs a key lock the first holds; then caches catch up and one resync pass. The deployment must end up holding exactly min(3, replicas) IPs: the surplus is released once, nothing the policy reserves is released
// ASSUME: C03: two logical threads as in VerifC01_q_releaseVsRebind
func VerifC03_q_concurrentUnbinds() { vpConcurrentUnbinds("C03") }

func vpConcurrentUnbinds(prop string) {
	w := vpNewWorld(1, false)
	if err := w.configure(); err != nil {
		return
	}
	w.wrapIPAM()
	w.setDeployment(3)
	var names []string
	initialIPs := map[string][]string{}
	for i := 0; i < 3; i++ {
		name := vpPodNameOf(vpKindDp, i)
		names = append(names, name)
		w.createPod(vpMakePod(name, "U"+name, vpKindDp, "immutable", "", ""))
		w.syncListers()
		nodes, err := w.filter(name, "n1", "n2", "n3")
		if err != nil || len(nodes) == 0 || w.bind(name, nodes[0]) != nil {
			return
		}
		w.setRunning(name)
		initialIPs[name] = vpBoundIPs(w.pods[name])
	}
	replicas := int32(2 + nondetChoice(2))
	w.setDeployment(replicas)
	w.syncListers()
	w.deletePod(names[0])
	w.deletePod(names[2])
	w.syncListers()
	verifAssume(len(w.pending) == 2)
	second := w.pending[1]
	w.pending = w.pending[:1]
	w.interferer = func() { _ = w.plugin.unbind(second) }
	w.windowAt = nondetInt(0, 14)
	_ = w.handleEvent(0)
	w.finishInterference()
	if w.interferer != nil {
		f := w.interferer
		w.interferer = nil
		f() // the second unbind did not overlap the first: sequential order
	} else {
		verifReach("unbind-inside-unbind")
	}
	w.syncListers()
	w.resync()
	held := 0
	for _, e := range w.dump() {
		if e.Allocated && strings.HasPrefix(e.Key, "dp_ns_app_") {
			held++
		}
	}
	verifReach("both-unbound")
	verifAssert(prop+"/immutable-dp-keeps-replicas", held >= int(replicas), "overlapping unbinds of an immutable deployment released IPs the policy reserves: it holds fewer IPs than replicas")
	verifAssert(prop+"/immutable-dp-surplus-released", held <= int(replicas), "an immutable deployment holds more IPs than replicas after its surplus pods are gone")
	verifAssert(prop+"/agree-concurrent", w.agree(), "memory and store disagree")
	verifAssert(prop+"/no-lock-held", w.noLockHeld(), "a lock is still held")
	// the replacement of a deleted pod takes an IP the deployment held (C02: sticky for the application)
	heldBefore := map[string]bool{}
	for _, n := range names {
		for _, ip := range initialIPs[n] {
			heldBefore[ip] = true
		}
	}
	repl := vpPodNameOf(vpKindDp, 7)
	w.createPod(vpMakePod(repl, "U"+repl, vpKindDp, "immutable", "", ""))
	w.syncListers()
	if nodes, err := w.filter(repl, "n1", "n2", "n3"); err == nil && len(nodes) > 0 {
		if w.bind(repl, nodes[0]) == nil {
			for _, ip := range vpBoundIPs(w.pods[repl]) {
				verifAssert(prop+"/replacement-takes-held-ip", heldBefore[ip], "the replacement pod of an immutable deployment got a fresh IP although the deployment is entitled to the IPs it held")
			}
		}
	}
}

// BOUND: topology 1; a deployment with the immutable policy, replicas 2 or 3, that many pods bound; one pod is deleted and its event handled (its IP goes to the deployment's reserve); the deployment is scaled down by one and the caches catch up; a second pod is deleted and its event handled; one resync pass. The deployment must hold exactly the new number of replicas: the IP of the second pod is surplus (the reserve counts) and is released
func VerifC03_q_scaleBetweenDeletes() {
	w := vpNewWorld(1, false)
	if err := w.configure(); err != nil {
		return
	}
	n := 2 + nondetChoice(2)
	w.setDeployment(int32(n))
	var names []string
	for i := 0; i < n; i++ {
		name := vpPodNameOf(vpKindDp, i)
		names = append(names, name)
		w.createPod(vpMakePod(name, "U"+name, vpKindDp, "immutable", "", ""))
		w.syncListers()
		nodes, err := w.filter(name, "n1", "n2", "n3")
		if err != nil || len(nodes) == 0 || w.bind(name, nodes[0]) != nil {
			return
		}
		w.setRunning(name)
	}
	w.syncListers()
	w.deletePod(names[0])
	w.syncListers()
	for len(w.pending) > 0 {
		_ = w.handleEvent(0)
	}
	w.setDeployment(int32(n - 1))
	w.syncListers()
	w.deletePod(names[1])
	w.syncListers()
	for len(w.pending) > 0 {
		_ = w.handleEvent(0)
	}
	w.resync()
	held := 0
	for _, e := range w.dump() {
		if e.Allocated && strings.HasPrefix(e.Key, "dp_ns_app_") {
			held++
		}
	}
	verifReach("scaled-between-deletes")
	verifAssert("C03/immutable-dp-surplus-released-sequential", held <= n-1, "an immutable deployment holds more IPs than replicas after a pod was deleted while its reserve already made up the surplus")
	verifAssert("C03/immutable-dp-keeps-replicas-sequential", held >= n-1, "an immutable deployment holds fewer IPs than replicas")
	verifAssert("C03/agree-sequential", w.agree(), "memory and store disagree")
}

// BOUND: topology 0; two statefulset pods ss-0, ss-1 bound (symbolic policy); ss-0 disappears without its event being handled (so a resync pass has API calls to make); a resync pass runs and, atomically inside any one window right before/after one of its API-server calls (symbolic window 0..10), either ss-1 is re-incarnated (deleted, its event handled, re-created with a new UID, filtered and bound on any approved node) or the vanished ss-0 is re-created with a new UID, filtered and bound (parking at the pod key lock the pass holds). The IP of the new, unfinished incarnation must not be released by the pass (it decides on what it re-reads under the pod lock, not on its list)
// ASSUME: C03: same scenario as VerifC04_q_resyncVsReincarnation, checked under C03
func VerifC03_q_resyncVsReincarnation() { vpResyncVsReincarnation("C03") }

// BOUND: topologies {0,1}; two pods whose names (and therefore keys) are in a prefix relation: statefulset pods ss-1 and ss-10 (replicas 11), or bare pods bare-1 and bare-10; symbolic policy; both bound; the shorter-named one ends (finished and/or deleted), its event is handled and / or a resync pass runs; then two more pods are scheduled. The release of the ended pod's IP must not release the IP of the longer-named pod, which is alive
// ASSUME: C03: same scenario as VerifC01_q_prefixSiblings, checked under C03
func VerifC03_q_prefixSiblings() { vpPrefixSiblings("C03") }

// BOUND: topology 0; a statefulset (replicas 2) pod ss-0 with the immutable policy is bound, deleted and its event handled (the address stays reserved for ss-0); the statefulset is scaled to 0, so the next resync pass has to release the address; that pass runs while, as a second logical thread inside any one window right before/after one of its API-server / store / IPAM calls (symbolic window 0..18), the statefulset is scaled up again and ss-0 is re-created (new UID), filtered and bound; the second thread parks at the pod key lock the pass holds. Afterwards every live bound pod must own its address (the pass either released before the re-binding started, or saw the pod)
func VerifC03_q_resyncVsRebindOfReserved() {
	w := vpNewWorld(0, false)
	if err := w.configure(); err != nil {
		return
	}
	w.wrapIPAM()
	w.setStatefulSet(2)
	name := "ss-0"
	w.createPod(vpMakePod(name, "U1", vpKindSts, "immutable", "", ""))
	w.syncListers()
	nodes, err := w.filter(name, "n1", "n5", "n3")
	if err != nil || len(nodes) == 0 || w.bind(name, nodes[0]) != nil {
		return
	}
	w.setRunning(name)
	w.syncListers()
	w.deletePod(name)
	w.syncListers()
	for len(w.pending) > 0 {
		_ = w.handleEvent(0)
	}
	w.setStatefulSet(0)
	w.syncListers()
	w.interferer = func() {
		w.setStatefulSet(2)
		w.createPod(vpMakePod(name, "U2", vpKindSts, "immutable", "", ""))
		w.syncListers()
		nodes, err := w.filter(name, "n1", "n5", "n3")
		if err != nil || len(nodes) == 0 {
			return
		}
		if w.bind(name, nodes[nondetChoice(len(nodes))]) == nil {
			w.setRunning(name)
			w.syncListers()
		}
	}
	w.windowAt = nondetInt(0, 18)
	w.resync()
	w.finishInterference()
	if w.interferer != nil {
		return
	}
	verifReach("rebind-of-reserved-inside-resync")
	w.checkAll("C03", "a resync pass releasing a reserved address that overlapped the re-binding of its pod")
}
