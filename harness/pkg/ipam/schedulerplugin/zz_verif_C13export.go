package schedulerplugin

import (
	"tkestack.io/galaxy/pkg/api/galaxy/constant"
	"tkestack.io/galaxy/pkg/ipam/floatingip"
)

// VerifBound is what galaxy-ipam persisted and handed out for one pod (for the end-to-end harness of C13).
type VerifBound struct {
	Annotation string // value of k8s.v1.cni.galaxy.io/args written by Bind
	IPs        []string
	Masks      []string // pool mask per IP (hex form of net.IPMask.String)
	Gateways   []string
	Vlans      []uint16
}

// VerifC13PreHeld: if i > 0 the pod already holds the IP of its i-th requested range before it is scheduled.
var VerifC13PreHeld int

// VerifC13Restart: after the pre-held IP is allocated galaxy-ipam restarts before the pod is scheduled.
var VerifC13Restart bool

// VerifC13Reconfigured: galaxy-ipam first ran with a former configuration (same subnets and ranges, other VLAN ids)
// and was reconfigured live (ConfigurePool in the same process) to the configuration in force before the pod arrives.
var VerifC13Reconfigured bool

// VerifC13StaleInfos: the pod reaches the scheduler with an args annotation that already carries common.ipinfos of
// some earlier life (re-created from a saved manifest, or by a controller that copies annotations).
var VerifC13StaleInfos bool

// VerifC13ReloadInBind: if > 0, galaxy-ipam runs with a former configuration (VLAN ids 9, 11) when the pod is first
// bound; that Bind fails at its binding call, and the reload to the configuration in force runs inside the
// VerifC13ReloadInBind-th window (API-server / store call) of that attempt, or right after it if the attempt offers no
// such window; the scheduler then retries. What the retried Bind reports must be the configuration in force.
var VerifC13ReloadInBind int

// VerifBindForC13 schedules one statefulset pod requesting k ranges (k = 0 means no request_ip_range) on topology
// topo whose pools carry the VLAN ids vlans (pool i gets vlans[i mod len]; may be symbolic) through the real Filter and Bind and reports the outcome.
func VerifBindForC13(topo, k int, vlans ...uint16) *VerifBound {
	floatingip.VPoolVlanOverride = vlans
	defer func() { floatingip.VPoolVlanOverride = nil }()
	w := vpNewWorld(topo, false)
	if VerifC13Reconfigured || VerifC13ReloadInBind > 0 {
		floatingip.VPoolVlanOverride = []uint16{9, 11}
		if err := w.configure(); err != nil {
			return nil
		}
		floatingip.VPoolVlanOverride = vlans
	}
	if VerifC13ReloadInBind == 0 {
		if err := w.configure(); err != nil {
			return nil
		}
	}
	w.setStatefulSet(2)
	// requested addresses alternate between the ends of the address list so that several pools are involved
	order := []string{w.ips[0], w.ips[len(w.ips)-1], w.ips[1]}
	ranges := ""
	if k > 0 {
		ranges = "["
		for i := 0; i < k; i++ {
			if i > 0 {
				ranges += ","
			}
			ranges += `["` + order[i] + `"]`
		}
		ranges += "]"
	}
	pod0 := vpMakePod("ss-0", "U1", vpKindSts, "", "", ranges)
	if VerifC13StaleInfos {
		stale := `"common":{"ipinfos":[{"ip":"10.9.9.9/24","vlan":7,"gateway":"10.9.9.1"}]}`
		if ranges != "" {
			pod0.Annotations[constant.ExtendedCNIArgsAnnotation] = `{"request_ip_range":` + ranges + `,` + stale + `}`
		} else {
			pod0.Annotations[constant.ExtendedCNIArgsAnnotation] = `{` + stale + `}`
		}
	}
	w.createPod(pod0)
	w.syncListers()
	if VerifC13PreHeld > 0 && VerifC13PreHeld <= k {
		// the pod already holds the IP of one of its requested ranges (a former bind of a smaller request)
		held := order[VerifC13PreHeld-1]
		if err := w.plugin.ipam.AllocateSpecificIP(vpKeyOf(w.pods["ss-0"]), vpIP(held), floatingip.Attr{Policy: constant.ReleasePolicyPodDelete, NodeName: "n1", Uid: "U1"}); err != nil {
			return nil
		}
		if VerifC13Restart {
			// galaxy-ipam restarts (or reloads its configuration) while the IP is held: the tables are rebuilt from the store
			floatingip.VPoolVlanOverride = vlans
			if err := w.restart(); err != nil {
				return nil
			}
		}
	}
	nodes, err := w.filter("ss-0", "n1", "n2", "n3")
	if err != nil || len(nodes) == 0 {
		return nil
	}
	if VerifC13ReloadInBind > 0 {
		w.interferer = func() {
			floatingip.VPoolVlanOverride = vlans
			_ = w.configure()
		}
		w.winCount, w.windowAt = 0, VerifC13ReloadInBind
		w.faultKinds = map[string]bool{"pods.bind": true}
		w.calls, w.faultAt, w.faultAll = 0, 1, true
		_ = w.bind("ss-0", nodes[0]) // the binding call fails (also when Bind repeats it)
		w.faultAt, w.faultKinds, w.faultAll = 0, nil, false
		w.finishInterference()
		if w.interferer != nil {
			f := w.interferer
			w.interferer = nil
			f()
		}
		if w.pods["ss-0"].Spec.NodeName != "" {
			return nil
		}
		nodes, err = w.filter("ss-0", "n1", "n2", "n3")
		if err != nil || len(nodes) == 0 {
			return nil
		}
	}
	if w.bind("ss-0", nodes[0]) != nil {
		return nil
	}
	out := &VerifBound{Annotation: w.pods["ss-0"].Annotations[constant.ExtendedCNIArgsAnnotation]}
	// what the store / pool configuration say about the pod's IPs, in the order of the request
	d := w.dump()
	for i := range d {
		// mask / gateway / VLAN as the configuration defines them for the address (not as the table has them)
		if x, ok := floatingip.VerifExpect(topo, d[i].IP); ok {
			d[i].Mask, d[i].Gateway, d[i].Vlan = x.Mask, x.Gateway, x.Vlan
		}
	}
	key := vpKeyOf(w.pods["ss-0"])
	want := w.ips
	if k > 0 {
		want = order[:k]
	}
	for _, ip := range want {
		for _, e := range d {
			if e.IP == ip && e.Allocated && e.Key == key {
				out.IPs = append(out.IPs, e.IP)
				out.Masks = append(out.Masks, e.Mask)
				out.Gateways = append(out.Gateways, e.Gateway)
				out.Vlans = append(out.Vlans, e.Vlan)
			}
		}
	}
	return out
}
