#!/bin/bash
# usage: tools_seed_scratch.sh <seed id> <property ids...>
# Like tools_seed.sh but never touches /repo: the patch is applied in a scratch worktree under /tmp and the checks run
# against it (VERIF_REPO); works for C19 too (the race recorder takes the repository prefix from the load).
export GOFLAGS=-mod=mod GOPROXY=off GOSUMDB=off GOTOOLCHAIN=local
id=$1; shift
wt=/tmp/seedrun_$id
git -C /repo worktree add -q --detach $wt HEAD || exit 2
cd $wt
if ! git apply /verif/seeded/$id/patch.diff; then echo "PATCH DOES NOT APPLY"; cd /; git -C /repo worktree remove --force $wt; exit 3; fi
for p in "$@"; do
  VERIF_REPO=$wt ${GOSYM:-/verif/bin/gosym} check -p $p -no-evidence 2>&1 | grep -E "^(VIOLATION|KNOWN|gosym:|INCONCLUSIVE|counterexample)" | cut -c1-330 | head -8
done
cd /; git -C /repo worktree remove --force $wt
