#!/usr/bin/env python3
"""Regenerates /verif/MANIFEST.json from the table below (kept in one place so that it stays valid)."""
import json
props=[json.loads(l) for l in open('/verif/properties.jsonl')]
TECH="SMT-based bounded symbolic execution of go/ssa (own engine gosym; z3/cvc5), counterexamples replayed natively"
claimed={
 'C20':("model_checking","bounded symbolic execution of the real fipCheck / walkIPRanges / InsertIP / RemoveIP / IPRange code (go/ssa -> SMT bit-vectors): every branch and assertion decided by z3 for all 2^32 values of every address, every contiguous mask and 1..3 ranges; counterexamples are replayed natively before being reported",
        "bounds: <=3 ranges per pool, walk width <=3 per range; IPv4 only; text round-trip of range strings and JSON decoding not covered; trusted: engine + models of net.IP{Equal,Mask,To4}, net.IPNet.Contains; z3 4.8.12"),
 'C05':("model_checking","one inductive step of every crdIpam mutator (and ConfigurePool) executed symbolically from a symbolic pre-state (any subset of IPs allocated, owner key/policy/uid/node symbolic) with a clean API fault at a symbolic call index; asserts memory==store afterwards and that a restart rebuilds the same table",
        "bounds: 4 topologies of 3-4 IPs, one operation, single clean fault; crash-between-calls part is covered at plugin level only to the extent of the scenario harnesses; trusted: fake FloatingIP client (clean failures), abstract JSON codec of the engine"),
 'C08':("model_checking","AllocateInSubnetsAndIPRange executed symbolically from a symbolic pre-state for 1..3 pairwise-disjoint requested ranges in any order and a creation failure at a symbolic position: exactly one fresh IP per range, in order, routable, or nothing",
        "bounds: quick 2 / thorough 4 topologies, ranges with endpoints among the configured addresses; unit level (crdIpam); Bind-level annotation order not yet covered"),
 'C01':("model_checking","bounded histories of the real plugin over API-server fakes (re-incarnation scenario; symbolic policy, event order, lister lag, one clean API fault at a symbolic call index, retried bind); after every step no two live pods hold the same IP and every live bound pod owns its IP",
        "sequential histories only (no thread interleavings yet); bounds in the evidence; fakes of API server/listers trusted"),
 'C02':("model_checking","re-incarnation histories (finish/delete, events handled early/late/never, resync) over topologies with several node subnets: a pod identity with a reserving policy is re-bound with the IP reserved for it, on any node Filter approves",
        "bounds in the evidence; deployments covered through the app-reserve path; rolling update with several replacement pods only in the thorough tier"),
 'C03':("model_checking","workload life cycles (4 workload kinds x symbolic policy x symbolic replica count x workload deleted/scaled before or after the pod ends x events handled or lost) run to quiescence and compared in both directions with a reference model of the documented release contract",
        "oracle = doc/float-ip.md + property text (DESIGN.md appendix B); one known finding (app-reserve IP of an immutable deployment never freed) is listed in known_findings.txt and reported as KNOWN-FINDING"),
 'C06':("model_checking","Filter then Bind executed symbolically from a symbolic allocation pre-state (owner/policy/uid/node per IP symbolic) over 4 pool topologies, 5 candidate nodes, requested-range shapes: every approved node can be bound, the IP is routable and carries its pool's mask/gateway/VLAN, held IPs restrict the offer, fresh default pods are offered exactly the nodes with a free routable IP",
        "bounds in the evidence; no faults, caches in sync (the property's 'nothing else changes')"),
 'C07':("model_checking","bounded histories over {filter next pod, bind any filtered pod, delete+event, resize pool to a symbolic size, resync} for pods of a deployment sharing a sized pool: the number of IPs under the pool never exceeds the size in force",
        "operations run atomically (filters of several pods may precede their binds); true preemption inside filter and the HTTP pre-allocation path are not covered yet"),
 'C09':("model_checking","(a) administrator reservation with symbolic arrival of its watch event vs. scheduling; (b) reload to changed configurations (real JSON decode of the config text) keeps exactly the still-configured allocations; (c) a bind running atomically inside any API-call window of a reload",
        "interference granularity = API-server calls, one interferer; bounds in the evidence"),
 'C10':("model_checking","re-incarnation histories with a recording cloud provider whose per-IP state machine asserts inside AssignIP/UnAssignIP and inside store delete/update; one clean API/provider fault at a symbolic call index with a retried bind; pods moving between nodes of one subnet",
        "sequential histories; provider idempotent on UnAssign of an unheld IP"),
 'C11':("model_checking","symbolic execution with genuinely symbolic strings (cvc5 string theory; unbounded names over the DNS-1123 alphabets): FormatKey injectivity for two arbitrary pods, FormatKey/ParseKey round trip, list (real convert) -> post back (real ReleaseIPs handler) reaches the stored key; paging partition and clamping laws on 64-bit integers (z3)",
        "owner kinds range over a finite family (cvc5 does not decide str.to_lower on a symbolic kind in time); page size over {1,2,3,10,100,9999} (symbolic x symbolic 64-bit mul/div did not finish in any solver); go-restful request/response replaced by a recording model, strconv.Atoi of a symbolic string modelled as an arbitrary outcome; sorting by IP not covered"),
 'C17':("model_checking","shouldCleanup and the file collectors (cleanupGCDirs, cleanupIP) executed symbolically against an arbitrary runtime answer per container (inspect outcome, docker state/status, CRI sandbox state, pod existence and container states all symbolic) for both runtimes: state is removed iff the container is gone or exited, never on a runtime error, foreign files and directories are kept, one round suffices",
        "docker HTTP client and grpc replaced (engine: DockerInspectContainer intercepted by a harness model, grpc status modelled; native replay: httptest docker daemon, fake CRI client); os/ioutil calls run on an in-memory file system in the engine and on a temp dir natively; veth cleanup (netlink) not covered; Remove failures not injected"),
 'C18':("model_checking","every feasible path of every harness is also checked for panics, self-deadlocks, unwinding failures (non-termination candidates are replayed under a watchdog) and locks left held; dedicated surface harnesses drive Filter / Bind / UpdatePod / DeletePod / unbind / syncPodIP / resync with arbitrary owner references, annotation texts (malformed JSON, wrong shapes, reversed / overlapping / boundary ranges), phases and missing workloads, and the range walk with symbolic 32-bit endpoints incl. 255.255.255.255",
        "galaxy-ipam typed surfaces only so far; HTTP handlers, configuration texts, CNI requests and NetworkPolicy objects are covered only where other properties' harnesses execute them; annotation texts range over a finite family; termination within the engine's step/unwind bounds"),
 'C12':("model_checking","cmdAdd (resolveNetworks + CmdAdd) and CmdDel executed symbolically for 6 network-selection forms with a symbolic failure plan over the plugin invocations: order, interface names, rollback, exact retry of failed DELs, idempotent repeated DEL, prevResult chaining within a request and isolation between requests of two containers",
        "plugin binaries replaced (engine: DelegateAdd/DelegateDel intercepted; native replay: recording shell plugin through the real DelegateAdd/DelegateDel and the real /var/lib/cni/galaxy state dir); requests are sequential (no concurrent requests); 3 configured networks"),
 'C04':("model_checking","bounded histories of the real plugin (Filter, Bind, unbind, resyncPod, Release) over fakes of the API server: re-incarnation scenario with symbolic policy, event order, lister lag; after every step every live bound pod must still own its IP (solver decides every symbolic branch; counterexamples replayed natively)",
        "bounds: see evidence bounds; sequential histories (event orders, lags) only - no thread interleavings; fakes of API server/listers trusted"),
}
checks=[]
for pid,(cat,text,note) in sorted(claimed.items()):
    checks.append({"property_id":pid,"quick_cmd":f"/verif/bin/gosym check -p {pid} -tier quick","thorough_cmd":f"/verif/bin/gosym check -p {pid} -tier thorough",
      "evidence_file":f"/verif/evidence/{pid}.json","replay_cmd_template":"/verif/bin/gosym replay {path}","engine":"gosym",
      "level_claimed":{"category":cat,"text":text,"design_ref":"DESIGN.md §6 "+pid},"level_note":note,"technique":TECH})
na=[{"property_id":p['id'],"reason":"check not built yet in this session; solver-based harness planned in DESIGN.md §6 "+p['id']} for p in props if p['id'] not in claimed]
m={"version":1,
 "setup_cmd":"cd /verif/engine && GOFLAGS=-mod=mod GOPROXY=off GOSUMDB=off GOTOOLCHAIN=local go build -o /verif/bin/gosym ./cmd/gosym",
 "hooks":{"guard":"verif","enable":"no hooks in /repo: harnesses are in-package overlay files (/verif/harness) injected with go/packages Overlay and `go test -overlay`","baseline_off_cmd":"cd /repo && GOFLAGS=-mod=mod GOPROXY=off go test -vet=off -count=1 -timeout 25m ./...","source_commits":[],"add_only":True},
 "engines":[{"name":"gosym","path":"/verif/engine","serves_properties":sorted(claimed),"kind_free_text":"symbolic executor for go/ssa with SMT-LIB2 backend (z3 / cvc5), path exploration by re-execution, native replay through go test -overlay"}],
 "checks":checks,"not_applicable":na,
 "notes":"fix: commits in /repo are listed in /verif/known_findings.txt"}
json.dump(m,open('/verif/MANIFEST.json','w'),indent=1)
print("claimed",sorted(claimed),"n/a",len(na))
